(* Proofs/Decorators.v -- property C16: "whatever strings a decorator returns appear verbatim at
   the corresponding places ...; the trivial decorator produces nothing but document text,
   whitespace and table borders".
   (A) trivial decorator: every character of the output of ANY tree is whitespace, a document
       character, a table-border character (or one of three explicitly listed exceptions, each a
       finding: the U+0336 marks of unicode strikeout, the "^{" "}" of a non-digit <sup>, and the
       footnote references/list when link_footnotes is on - the trivial decorator does NOT switch
       them off);
   (B) every decorator: for trees without tables and prefixed blocks the stream of ALL visible
       characters of the output (document and decorator-made) is `full_stream`: affixes verbatim,
       exactly around the element text, in order, nothing lost or duplicated.
   No axioms.  Exact statements, hypotheses, findings: SUMMARY at the end of the file. *)
From H2T Require Import Base Tagged Wrap Sub Css Dom Render Api.
From H2T Require Import Proofs.Conserve Proofs.WrapInv Proofs.RenderWidth Proofs.Small.
From H2T Require Import Proofs.Footnotes Proofs.RenderConserve Proofs.AnnBalance.
From H2T Require Proofs.TableProof.
From Coq Require Import Lia ZifyN ZifyBool ZifyNat Permutation.

Local Arguments N.add : simpl never.
Local Arguments N.sub : simpl never.
Local Arguments N.mul : simpl never.
Local Arguments N.div : simpl never.
Local Arguments N.modulo : simpl never.
Local Arguments N.leb : simpl never.
Local Arguments N.ltb : simpl never.
Local Arguments N.eqb : simpl never.
Local Arguments N.min : simpl never.
Local Arguments N.max : simpl never.
Local Arguments N.to_nat : simpl never.
Local Arguments N.of_nat : simpl never.
Local Open Scope N_scope.

(* ================================================================== *)
(* 1. Streams for an arbitrary character class p                        *)
(*    (RenderConserve sections 3-4 with `docp` replaced by any p that   *)
(*    rejects the spaces the renderer makes itself)                     *)
(* ================================================================== *)

Lemma meta_opts s s' : meta_of s' = meta_of s -> sopts s' = sopts s.
Proof. intros H. exact (f_equal m_o H). Qed.
Lemma meta_filt s s' : meta_of s' = meta_of s -> filter_depth s' = filter_depth s.
Proof. intros H. exact (f_equal m_filt H). Qed.

Section Gen.
  Variable p : chr -> bool.
  Hypothesis Hp : forall l, p (spacel l) = false.

  (* a text without p-characters *)
  Definition gnone (t : text) : Prop := filter p t = [].
  (* the p-characters of a text that reach the output (Conserve.kept: not whitespace, with a
     width entry) *)
  Definition gchars (t : text) : text := filter p (kept t).

  Definition glstream (ls : list rline) : text := filter p (flat_map rline_string ls).
  Definition gbstream (w : wblock) : text :=
    filter p (flat_map tl_string (wtext w) ++ tl_string (wline w) ++ flat_map elem_text (wword w)).
  Definition gwstream (ow : option wblock) : text :=
    match ow with Some w => gbstream w | None => [] end.
  (* the p-characters of a sub-renderer: its lines top to bottom, then the open block *)
  Definition gout (s : subr) : text := glstream (slines s) ++ gwstream (wrapping s).

  Lemma gchars_app a b : gchars (a ++ b) = gchars a ++ gchars b.
  Proof. unfold gchars. rewrite kept_app, filter_app. reflexivity. Qed.
  Lemma gnone_nil : gnone [].
  Proof. reflexivity. Qed.
  Lemma gnone_app a b : gnone a -> gnone b -> gnone (a ++ b).
  Proof. unfold gnone. intros Ha Hb. rewrite filter_app, Ha, Hb. reflexivity. Qed.
  Lemma gnone_app_inv a b : gnone (a ++ b) -> gnone a /\ gnone b.
  Proof. unfold gnone. rewrite filter_app. intros H. apply app_eq_nil in H. exact H. Qed.
  Lemma gnone_Forall t : Forall (fun c => p c = false) t -> gnone t.
  Proof.
    unfold gnone. induction 1 as [|c t Hc Ht IH]; cbn [filter]; [reflexivity|]. rewrite Hc. exact IH.
  Qed.
  Lemma gnone_In t : gnone t -> forall c, In c t -> p c = false.
  Proof.
    unfold gnone. induction t as [|c t IH]; cbn [filter]; intros H x Hx; [destruct Hx|].
    destruct (p c) eqn:E; [discriminate|]. destruct Hx as [<-|Hx]; [exact E|apply IH; assumption].
  Qed.
  Lemma gnone_gchars t : gnone t -> gchars t = [].
  Proof. apply filter_filter_nil. Qed.
  Lemma gnone_repeat c n : p c = false -> gnone (repeat_chr c n).
  Proof.
    intros H. unfold gnone. induction n as [|n IH]; cbn [repeat_chr filter]; [reflexivity|].
    rewrite H. exact IH.
  Qed.
  Lemma gnone_spacesl lb n : gnone (spacesl lb n).
  Proof. unfold spacesl. apply gnone_repeat, Hp. Qed.
  Lemma all_ws_gchars t : all_ws t = true -> gchars t = [].
  Proof.
    unfold all_ws, gchars, kept. induction t as [|c t IH]; cbn [forallb filter]; [reflexivity|].
    intros H. apply andb_true_iff in H. destruct H as [Hc Ht]. rewrite Hc. cbn [negb andb].
    apply IH, Ht.
  Qed.

  Lemma glstream_app a b : glstream (a ++ b) = glstream a ++ glstream b.
  Proof. unfold glstream. rewrite flat_map_app, filter_app. reflexivity. Qed.
  Lemma glstream_one l : glstream [l] = filter p (rline_string l).
  Proof. unfold glstream. cbn [flat_map]. rewrite app_nil_r. reflexivity. Qed.
  Lemma glstream_cons l ls : glstream (l :: ls) = filter p (rline_string l) ++ glstream ls.
  Proof. change (l :: ls) with ([l] ++ ls). rewrite glstream_app, glstream_one. reflexivity. Qed.

  Lemma gbstream_pstream w : gbstream w = projr (pstream p w).
  Proof. unfold gbstream. rewrite projr_pstream. reflexivity. Qed.
  Lemma gwstream_get s : gbstream (get_wrapping s) = gwstream (wrapping s).
  Proof. unfold get_wrapping, gwstream. destruct (wrapping s); reflexivity. Qed.
  Lemma gbstream_add_text b s m t1 t2 b' :
    wb_add_text b s m t1 t2 = Ok b' -> gbstream b' = gbstream b ++ gchars s.
  Proof.
    intros H. rewrite !gbstream_pstream, (add_text_stream p Hp _ _ _ _ _ _ H).
    rewrite projr_app. unfold pchars. rewrite projr_map_inr. reflexivity.
  Qed.
  Lemma gbstream_add_frag b n : gbstream (wb_add_element b (Frag n)) = gbstream b.
  Proof.
    rewrite !gbstream_pstream, add_frag_stream, projr_app. cbn [projr flat_map]. apply app_nil_r.
  Qed.
  Lemma gbstream_into_lines b ls :
    wb_into_lines b = Ok ls -> filter p (flat_map tl_string ls) = gbstream b.
  Proof. intros H. rewrite gbstream_pstream. exact (into_lines_generic p Hp b ls H). Qed.
  Lemma glstream_RText ls : glstream (map RText ls) = filter p (flat_map tl_string ls).
  Proof.
    unfold glstream. f_equal. induction ls as [|l ls IH]; cbn [map flat_map]; [reflexivity|].
    rewrite IH. reflexivity.
  Qed.
  Lemma gtake_frags_stream w w1 frags :
    take_trailing_fragments w = (w1, frags) ->
    gbstream w1 = gbstream w /\ flat_map elem_text frags = [].
  Proof.
    rewrite ttf_eq. intros H. injection H as <- <-.
    pose proof (no_content_text _ (tfr_snd_nocontent (wword w))) as Ht. split; [|exact Ht].
    unfold gbstream. cbn [set_word wtext wline wword]. rewrite (tfr_app (wword w)) at 2.
    rewrite flat_map_app, Ht, app_nil_r. reflexivity.
  Qed.

  (* ---- lines ---- *)
  Lemma gadd_line_out s l : pfc s ->
    pfc (add_line s l) /\
    glstream (slines (add_line s l)) = glstream (slines s) ++ filter p (rline_string l) /\
    wrapping (add_line s l) = wrapping s.
  Proof.
    intros Hpf. destruct (add_line_same s l) as (_ & _ & Hw). split; [|split; [|exact Hw]].
    - destruct l as [tl|b t].
      + destruct (add_line_text s tl) as (l' & _ & _ & E3). unfold pfc, pf_text. rewrite E3. reflexivity.
      + unfold pfc, pf_text, add_line in *. destruct (pending_frags s); sprj; exact Hpf.
    - destruct l as [tl|b t].
      + destruct (add_line_text s tl) as (l' & E1 & E2 & _).
        rewrite E1, glstream_app, glstream_one, E2, Hpf. reflexivity.
      + unfold add_line. destruct (pending_frags s); sprj; rewrite glstream_app, glstream_one; reflexivity.
  Qed.

  Lemma gextend_lines_out ls : forall s, pfc s ->
    pfc (extend_lines s ls) /\
    glstream (slines (extend_lines s ls)) = glstream (slines s) ++ glstream ls /\
    wrapping (extend_lines s ls) = wrapping s.
  Proof.
    unfold extend_lines. induction ls as [|l ls IH]; intros s Hpf; cbn [fold_left].
    - unfold glstream at 3. cbn [flat_map filter]. rewrite app_nil_r. auto.
    - destruct (gadd_line_out s l Hpf) as (A & B & C). destruct (IH _ A) as (A' & B' & C').
      split; [exact A'|]. split; [|congruence].
      rewrite B', B, <- app_assoc. f_equal. rewrite glstream_cons. reflexivity.
  Qed.

  Lemma gflush_wrapping_out s s' : flush_wrapping s = Ok s' -> pfc s ->
    pfc s' /\ gout s' = gout s /\ wrapping s' = None.
  Proof.
    intros H Hpf. unfold flush_wrapping in H. destruct (wrapping s) as [w|] eqn:Ew.
    - destruct (take_trailing_fragments w) as [w1 frags] eqn:Et. bind_inv H lm Hlm. ok_inv H.
      pose proof (wb_into_lines_markers_fst _ _ Hlm) as Hls.
      pose proof (no_content_text _ (wb_into_lines_markers_no_content _ _ Hlm)) as Hmk.
      destruct lm as [ls mk]. cbn [fst snd] in *.
      destruct (gtake_frags_stream _ _ _ Et) as [Eb Ef].
      assert (Hp0 : pfc (set_wrapping s None)) by exact Hpf.
      destruct (gextend_lines_out (map RText ls) _ Hp0) as (A & B & C).
      sprj. split; [|split].
      + unfold pfc, pf_text in *. sprj. rewrite !flat_map_app, A, Ef, Hmk. reflexivity.
      + unfold gout. sprj. rewrite C, B. sprj. rewrite Ew. cbn [gwstream].
        rewrite app_nil_r, glstream_RText, (gbstream_into_lines _ _ Hls), Eb. reflexivity.
      + exact C.
    - ok_inv H. unfold gout. rewrite Ew. auto.
  Qed.

  Lemma gout_none s : wrapping s = None -> gout s = glstream (slines s).
  Proof. intros E. unfold gout. rewrite E. cbn [gwstream]. apply app_nil_r. Qed.

  Lemma gsub_into_lines s ls : sub_into_lines s = Ok ls -> pfc s -> glstream ls = gout s.
  Proof.
    intros H Hpf. unfold sub_into_lines in H. bind_inv H s1 H1. ok_inv H.
    destruct (gflush_wrapping_out _ _ H1 Hpf) as (_ & B & C). rewrite <- B. symmetry. apply gout_none, C.
  Qed.

  (* ---- operations: options o, strikeout-filter depth k before / k' after, text t appended ---- *)
  Definition opG (o : ropts) (k k' : nat) (f : subr -> res subr) (t : text) : Prop :=
    forall s s', f s = Ok s' -> sopts s = o -> filter_depth s = k -> pfc s ->
      sopts s' = o /\ filter_depth s' = k' /\ pfc s' /\ gout s' = gout s ++ t.

  Lemma opG_comp o k k1 k2 f g t u :
    opG o k k1 f t -> opG o k1 k2 g u -> opG o k k2 (fun s => do s1 <- f s; g s1) (t ++ u).
  Proof.
    intros Hf Hg s s' H Ho Hk Hpf. bind_inv H s1 H1.
    destruct (Hf _ _ H1 Ho Hk Hpf) as (A1 & A2 & A3 & A4).
    destruct (Hg _ _ H A1 A2 A3) as (B1 & B2 & B3 & B4).
    repeat (split; [assumption|]). rewrite B4, A4, app_assoc. reflexivity.
  Qed.
  Lemma opG_comp0 o k k1 k2 f g u :
    opG o k k1 f [] -> opG o k1 k2 g u -> opG o k k2 (fun s => do s1 <- f s; g s1) u.
  Proof. intros Hf Hg. exact (opG_comp o k k1 k2 f g [] u Hf Hg). Qed.
  Lemma opG_comp0r o k k1 k2 f g t :
    opG o k k1 f t -> opG o k1 k2 g [] -> opG o k k2 (fun s => do s1 <- f s; g s1) t.
  Proof.
    intros Hf Hg. pose proof (opG_comp o k k1 k2 f g t [] Hf Hg) as H. rewrite app_nil_r in H. exact H.
  Qed.

  (* from a meta-preservation fact and a stream fact *)
  Lemma opG_of f t :
    (forall s s', f s = Ok s' -> meta_of s' = meta_of s) ->
    (forall s s', f s = Ok s' -> pfc s -> pfc s' /\ gout s' = gout s ++ t) ->
    forall o k, opG o k k f t.
  Proof.
    intros Hm Hs o k s s' H Ho Hk Hpf. pose proof (Hm _ _ H) as M.
    destruct (Hs _ _ H Hpf) as [A B].
    split; [rewrite (meta_opts _ _ M); exact Ho|]. split; [rewrite (meta_filt _ _ M); exact Hk|]. auto.
  Qed.

  (* a pure change of the text state that keeps options and filter depth *)
  Lemma opG_pure (g : subr -> subr) :
    (forall s, slines (g s) = slines s /\ pending_frags (g s) = pending_frags s /\
               wrapping (g s) = wrapping s /\ sopts (g s) = sopts s /\
               filter_depth (g s) = filter_depth s) ->
    forall o k, opG o k k (fun s => Ok (g s)) [].
  Proof.
    intros Hg o k s s' H Ho Hk Hpf. injection H as <-. destruct (Hg s) as (a & b & c & e & f).
    unfold pfc, pf_text, gout in *. rewrite a, b, c, e, f, app_nil_r. auto.
  Qed.

  Lemma gflush_wrapping_op o k : opG o k k flush_wrapping [].
  Proof.
    apply opG_of; [apply meta_flush_wrapping|].
    intros s s' H Hpf. destruct (gflush_wrapping_out _ _ H Hpf) as (A & B & _).
    rewrite app_nil_r. auto.
  Qed.

  Lemma gadd_line_none s l : pfc s -> wrapping s = None ->
    pfc (add_line s l) /\ gout (add_line s l) = gout s ++ filter p (rline_string l) /\
    wrapping (add_line s l) = None.
  Proof.
    intros Hpf Hw. destruct (gadd_line_out s l Hpf) as (A & B & C).
    split; [exact A|]. split; [|congruence].
    rewrite (gout_none _ Hw), gout_none by congruence. exact B.
  Qed.

  Lemma gadd_empty_line_s s s' : add_empty_line s = Ok s' -> pfc s -> pfc s' /\ gout s' = gout s ++ [].
  Proof.
    intros H Hpf. unfold add_empty_line in H. bind_inv H s1 H1. ok_inv H.
    destruct (gflush_wrapping_out _ _ H1 Hpf) as (A & B & C).
    destruct (gadd_line_none s1 (RText tl_new) A C) as (A' & B' & _).
    split; [exact A'|]. unfold gout in *. sprj. rewrite B', B. reflexivity.
  Qed.
  Lemma gadd_empty_line_op o k : opG o k k add_empty_line [].
  Proof. apply opG_of; [apply meta_add_empty_line|apply gadd_empty_line_s]. Qed.

  Lemma gstart_block_s s s' : start_block s = Ok s' -> pfc s -> pfc s' /\ gout s' = gout s ++ [].
  Proof.
    intros H Hpf. unfold start_block in H. bind_inv H s1 H1. bind_inv H s2 H2. ok_inv H.
    destruct (gflush_wrapping_out _ _ H1 Hpf) as (A & B & _).
    assert (C : pfc s2 /\ gout s2 = gout s1 ++ []).
    { destruct (existsb rline_has_content (slines s1)).
      - apply gadd_empty_line_s; assumption.
      - ok_inv H2. rewrite app_nil_r. auto. }
    destruct C as [C D]. split; [exact C|]. rewrite app_nil_r in *.
    unfold gout in *. sprj. rewrite D, B. reflexivity.
  Qed.
  Lemma gstart_block_op o k : opG o k k start_block [].
  Proof. apply opG_of; [apply meta_start_block|apply gstart_block_s]. Qed.

  Lemma gnew_line_hard_op o k : opG o k k new_line_hard [].
  Proof.
    apply opG_of; [apply meta_new_line_hard|].
    intros s s' H Hpf. unfold new_line_hard in H. destruct (wrapping s) as [w|].
    - destruct ((wordlen w =? 0) && (tlen_ (wline w) =? 0)).
      + apply gadd_empty_line_s; assumption.
      + destruct (gflush_wrapping_out _ _ H Hpf) as (A & B & _). rewrite app_nil_r. auto.
    - apply gadd_empty_line_s; assumption.
  Qed.

  Lemma all_ws_strikeout t : all_ws t = true -> all_ws (filter_strikeout t) = true.
  Proof.
    unfold all_ws, filter_strikeout. induction t as [|c t IHt]; [reflexivity|]. cbn [forallb].
    intros Ea. apply andb_true_iff in Ea. destruct Ea as [Hc Ht]. cbn [flat_map]. rewrite Hc.
    cbn [negb andb app forallb]. rewrite Hc. cbn [andb]. apply IHt, Ht.
  Qed.
  Lemma all_ws_filters k : forall t, all_ws t = true -> all_ws (apply_filters k t) = true.
  Proof.
    induction k as [|k IH]; intros t Ea; [exact Ea|]. cbn [apply_filters]. apply IH, all_ws_strikeout, Ea.
  Qed.

  (* THE text operation *)
  Lemma gadd_inline_text_op d t o k :
    opG o k k (fun s => add_inline_text d s t) (gchars (apply_filters k t)).
  Proof.
    intros s s' H Ho Hk Hpf. pose proof (meta_add_inline_text _ _ _ _ H) as M.
    split; [rewrite (meta_opts _ _ M); exact Ho|]. split; [rewrite (meta_filt _ _ M); exact Hk|].
    unfold add_inline_text in H.
    destruct (negb (preserve_ws (ws_mode s)) && at_block_end s && all_ws t) eqn:Ec.
    { apply andb_true_iff in Ec. destruct Ec as [_ Ea].
      assert (E : gchars (apply_filters k t) = []) by (apply all_ws_gchars, all_ws_filters, Ea).
      rewrite E, app_nil_r. injection H as <-. auto. }
    bind_inv H s1 H1.
    assert (B : pfc s1 /\ gout s1 = gout s ++ [] /\ filter_depth s1 = k).
    { destruct (at_block_end s).
      - destruct (gstart_block_s _ _ H1 Hpf) as [A B]. split; [exact A|]. split; [exact B|].
        rewrite (meta_filt _ _ (meta_start_block _ _ H1)). exact Hk.
      - ok_inv H1. rewrite app_nil_r. auto. }
    destruct B as (B1 & B2 & B3). rewrite app_nil_r in B2.
    bind_inv H w1 Hw1. ok_inv H. split; [exact B1|].
    apply gbstream_add_text in Hw1. rewrite gwstream_get, B3 in Hw1.
    unfold gout in *. sprj. cbn [gwstream]. rewrite Hw1, app_assoc, B2. reflexivity.
  Qed.

  Lemma gpush_ann_op a o k : opG o k k (fun s => Ok (push_ann s a)) [].
  Proof. apply opG_pure. intros s. unfold push_ann. sprj. auto. Qed.
  Lemma gpop_ann_op o k : opG o k k (fun s => Ok (pop_ann s)) [].
  Proof. apply opG_pure. intros s. unfold pop_ann. sprj. auto. Qed.

  Lemma gstart_deco_op d q o k :
    opG o k k (fun s => start_deco d s q) (gchars (apply_filters k (fst q))).
  Proof.
    unfold start_deco.
    exact (opG_comp0 _ _ _ _ _ _ _ (gpush_ann_op (snd q) o k) (gadd_inline_text_op d (fst q) o k)).
  Qed.
  Lemma gend_deco_op d e o k :
    opG o k k (fun s => end_deco d s e) (gchars (apply_filters k e)).
  Proof.
    unfold end_deco. exact (opG_comp0r _ _ _ _ _ _ _ (gadd_inline_text_op d e o k) (gpop_ann_op o k)).
  Qed.

  Definition sdepth (o : ropts) (k : nat) : nat := if o_strike o then S k else k.

  Lemma gstart_strikeout_op d o k :
    opG o k (sdepth o k) (start_strikeout d) (gchars (apply_filters k (fst (d_strike_start d)))).
  Proof.
    unfold start_strikeout. apply opG_comp0r with (k1 := k); [apply (gstart_deco_op d)|].
    intros s s' H Ho Hk Hpf. injection H as <-. rewrite app_nil_r. unfold sdepth. rewrite Ho.
    destruct (o_strike o); sprj; unfold gout, pfc, pf_text in *; sprj; auto.
  Qed.
  Lemma gend_strikeout_op d o k :
    opG o (sdepth o k) k (end_strikeout d) (gchars (apply_filters k (d_strike_end d))).
  Proof.
    unfold end_strikeout. apply opG_comp0 with (k1 := k); [|apply (gend_deco_op d)].
    intros s s' H Ho Hk Hpf. rewrite app_nil_r. unfold sdepth in Hk. rewrite Ho in H.
    destruct (o_strike o).
    - destruct (filter_depth s) as [|n] eqn:E; [discriminate|]. injection H as <-. injection Hk as Hk.
      sprj. unfold gout, pfc, pf_text in *; sprj; auto.
    - injection H as <-. auto.
  Qed.

  Lemma gadd_image_op d src title o k :
    opG o k k (fun s => add_image d s src title) (gchars (apply_filters k (fst (d_image d src title)))).
  Proof.
    unfold add_image.
    exact (opG_comp0r _ _ _ _ _ _ _
             (opG_comp0 _ _ _ _ _ _ _ (gpush_ann_op _ o k) (gadd_inline_text_op d _ o k))
             (gpop_ann_op o k)).
  Qed.

  Lemma grecord_frag_start_op name o k : opG o k k (fun s => Ok (record_frag_start s name)) [].
  Proof.
    intros s s' H Ho Hk Hpf. injection H as <-. split; [exact Ho|]. split; [exact Hk|]. split; [exact Hpf|].
    unfold record_frag_start, gout. sprj. cbn [gwstream].
    rewrite gbstream_add_frag, gwstream_get, app_nil_r. reflexivity.
  Qed.
  Lemma gend_block_op o k : opG o k k (fun s => Ok (end_block s)) [].
  Proof. apply opG_pure. intros s. unfold end_block. sprj. auto. Qed.
  Lemma gpush_colour_op d r g b o k : opG o k k (fun s => Ok (push_colour d s r g b)) [].
  Proof. apply opG_pure. intros s. unfold push_colour, push_ann. destruct (d_colours d); sprj; auto. Qed.
  Lemma gpush_bgcolour_op d r g b o k : opG o k k (fun s => Ok (push_bgcolour d s r g b)) [].
  Proof. apply opG_pure. intros s. unfold push_bgcolour, push_ann. destruct (d_colours d); sprj; auto. Qed.
  Lemma gpop_colour_op d o k : opG o k k (fun s => Ok (pop_colour d s)) [].
  Proof. apply opG_pure. intros s. unfold pop_colour, pop_ann. destruct (d_colours d); sprj; auto. Qed.
  Lemma gpush_ws_mode_op m o k : opG o k k (fun s => Ok (push_ws_mode s m)) [].
  Proof. apply opG_pure. intros s. unfold push_ws_mode. sprj. auto. Qed.
  Lemma gpop_ws_mode_op o k : opG o k k (fun s => Ok (pop_ws_mode s)) [].
  Proof. apply opG_pure. intros s. unfold pop_ws_mode. sprj. auto. Qed.
  Lemma gpush_preformat_op o k : opG o k k (fun s => Ok (push_preformat s)) [].
  Proof. apply opG_pure. intros s. unfold push_preformat. sprj. auto. Qed.
  Lemma gpop_preformat_op o k : opG o k k pop_preformat [].
  Proof.
    intros s s' H Ho Hk Hpf. unfold pop_preformat in H. destruct (0 <? pre_depth s); [|discriminate].
    injection H as <-. rewrite app_nil_r. auto.
  Qed.

  (* ---- a nested sub-renderer is appended with prefixes ---- *)
  Lemma gattach_prefix t q l :
    filter p (rline_string (attach_prefix t q l)) = filter p q ++ filter p (rline_string l).
  Proof.
    destruct l as [tl|b bt]; cbn [attach_prefix].
    - destruct q as [|c q]; [reflexivity|]. cbn [rline_string].
      rewrite tl_string_insert_front, filter_app. reflexivity.
    - cbn [rline_string]. rewrite !TableProof.tl_string_push. cbn [elem_text tl_string tl_new tv flat_map app].
      rewrite filter_app. reflexivity.
  Qed.

  Lemma gattach_prefixes_none t first rest ls :
    gnone first -> gnone rest -> glstream (attach_prefixes t first rest ls) = glstream ls.
  Proof.
    intros Hf Hr. destruct ls as [|l ls]; cbn [attach_prefixes]; [reflexivity|].
    rewrite !glstream_cons, gattach_prefix, Hf. cbn [app]. f_equal.
    induction ls as [|l' ls IH]; cbn [map]; [reflexivity|].
    rewrite !glstream_cons, gattach_prefix, Hr, IH. reflexivity.
  Qed.

  Lemma gappend_subrender_op sub first rest o k :
    pfc sub -> gnone first -> gnone rest ->
    opG o k k (fun s => append_subrender s sub first rest) (gout sub).
  Proof.
    intros Hsub Hf Hr. apply opG_of; [intros s s'; apply meta_append_subrender|].
    intros s s' H Hpf. unfold append_subrender in H.
    bind_inv H s1 H1. bind_inv H ols Hols. ok_inv H.
    destruct (gflush_wrapping_out _ _ H1 Hpf) as (A & B & C).
    destruct (gextend_lines_out (attach_prefixes (ann_stack s1) first rest ols) s1 A) as (A' & B' & C').
    split; [exact A'|].
    rewrite gout_none by congruence. rewrite B', (gattach_prefixes_none _ _ _ _ Hf Hr),
      (gsub_into_lines _ _ Hols Hsub), <- B, (gout_none _ C). reflexivity.
  Qed.

  (* ================================================================ *)
  (* 2. The render layer, generically                                 *)
  (* ================================================================ *)
  Section GenRender.
    Variable d : deco.
    Variable mw : N.
    Variable o : ropts.

    (* st' differs from st in the top sub-renderer only, which keeps its options, goes from
       filter depth k to k' and has received the p-characters t *)
    Definition Cr (k k' : nat) (st st' : rstate) (t : text) : Prop :=
      forall s rest, stack st = s :: rest -> sopts s = o -> filter_depth s = k -> pfc s ->
      exists s', stack st' = s' :: rest /\ sopts s' = o /\ filter_depth s' = k' /\ pfc s' /\
                 gout s' = gout s ++ t.

    Lemma Cr_refl k st : Cr k k st st [].
    Proof. intros s rest Es Ho Hk Hpf. exists s. rewrite app_nil_r. auto. Qed.
    Lemma Cr_stack_eq k st st' : stack st' = stack st -> Cr k k st st' [].
    Proof. intros E s rest Es Ho Hk Hpf. exists s. rewrite app_nil_r, E. auto. Qed.
    Lemma Cr_trans k k1 k2 a b c t1 t2 : Cr k k1 a b t1 -> Cr k1 k2 b c t2 -> Cr k k2 a c (t1 ++ t2).
    Proof.
      intros A B s rest Es Ho Hk Hpf. destruct (A s rest Es Ho Hk Hpf) as (s1 & E1 & O1 & K1 & P1 & G1).
      destruct (B s1 rest E1 O1 K1 P1) as (s2 & E2 & O2 & K2 & P2 & G2).
      exists s2. repeat (split; [assumption|]). rewrite G2, G1, app_assoc. reflexivity.
    Qed.
    Lemma Cr0_l k k1 k2 a b c t : Cr k k1 a b [] -> Cr k1 k2 b c t -> Cr k k2 a c t.
    Proof. intros A B. exact (Cr_trans _ _ _ _ _ _ _ _ A B). Qed.
    Lemma Cr0_r k k1 k2 a b c t : Cr k k1 a b t -> Cr k1 k2 b c [] -> Cr k k2 a c t.
    Proof. intros A B. pose proof (Cr_trans _ _ _ _ _ _ _ _ A B) as C. rewrite app_nil_r in C. exact C. Qed.

    Lemma with_top_Cr k k' f t st st' : opG o k k' f t -> with_top st f = Ok st' -> Cr k k' st st' t.
    Proof.
      intros Hf H s rest Es Ho Hk Hpf. destruct (with_top_inv _ _ _ H) as (s0 & rest0 & s' & Es0 & Ef & ->).
      rewrite Es in Es0. injection Es0 as <- <-.
      destruct (Hf _ _ Ef Ho Hk Hpf) as (A & B & C & D). exists s'. cbn [stack]. auto.
    Qed.
    Lemma with_top'_Cr k k' g t st st' :
      opG o k k' (fun s => Ok (g s)) t -> with_top' st g = Ok st' -> Cr k k' st st' t.
    Proof. unfold with_top'. apply with_top_Cr. Qed.

    Lemma inline_text_Cr k t st st' :
      inline_text d st t = Ok st' -> Cr k k st st' (gchars (apply_filters k t)).
    Proof. unfold inline_text. apply with_top_Cr, gadd_inline_text_op. Qed.

    Lemma apply_style_Cr k st cs st' pu : apply_style d st cs = Ok (st', pu) -> Cr k k st st' [].
    Proof.
      intros H. unfold apply_style in H.
      bind_inv H st1 H1. bind_inv H st2 H2. bind_inv H st3 H3. bind_inv H st4 H4.
      injection H as <- _.
      assert (R1 : Cr k k st st1 []).
      { destruct (ws_val (c_colour (cs_core cs))) as [[[r g] b]|].
        - eapply with_top'_Cr; [apply gpush_colour_op|exact H1].
        - ok_inv H1. apply Cr_refl. }
      assert (R2 : Cr k k st1 st2 []).
      { destruct (ws_val (c_bg (cs_core cs))) as [[[r g] b]|].
        - eapply with_top'_Cr; [apply gpush_bgcolour_op|exact H2].
        - ok_inv H2. apply Cr_refl. }
      assert (R3 : Cr k k st2 st3 []).
      { destruct (match ws_val (c_white_space (cs_core cs)) with
                  | Some WsPre => Some WsPre
                  | Some WsPreWrap => Some WsPreWrap
                  | _ => None
                  end) as [m|].
        - eapply with_top'_Cr; [apply gpush_ws_mode_op|exact H3].
        - ok_inv H3. apply Cr_refl. }
      assert (R4 : Cr k k st3 st4 []).
      { destruct (cs_internal_pre cs).
        - eapply with_top'_Cr; [apply gpush_preformat_op|exact H4].
        - ok_inv H4. apply Cr_refl. }
      eapply Cr0_l; [exact R1|]. eapply Cr0_l; [exact R2|]. eapply Cr0_l; eassumption.
    Qed.

    Lemma unwind_Cr k pu st st' : unwind d pu st = Ok st' -> Cr k k st st' [].
    Proof.
      intros H. unfold unwind in H.
      bind_inv H st1 H1. bind_inv H st2 H2. bind_inv H st3 H3.
      assert (R1 : Cr k k st st1 []).
      { destruct (p_bg pu).
        - eapply with_top'_Cr; [apply gpop_colour_op|exact H1].
        - ok_inv H1. apply Cr_refl. }
      assert (R2 : Cr k k st1 st2 []).
      { destruct (p_colour pu).
        - eapply with_top'_Cr; [apply gpop_colour_op|exact H2].
        - ok_inv H2. apply Cr_refl. }
      assert (R3 : Cr k k st2 st3 []).
      { destruct (p_ws pu).
        - eapply with_top'_Cr; [apply gpop_ws_mode_op|exact H3].
        - ok_inv H3. apply Cr_refl. }
      assert (R4 : Cr k k st3 st' []).
      { destruct (p_pre pu).
        - eapply with_top_Cr; [apply gpop_preformat_op|exact H].
        - ok_inv H. apply Cr_refl. }
      eapply Cr0_l; [exact R1|]. eapply Cr0_l; [exact R2|]. eapply Cr0_l; eassumption.
    Qed.

    (* a nested sub-renderer: what is popped holds exactly what was rendered into it *)
    Lemma sub_scope_Cr k st tp w' st2 sub st3 t :
      top st = Ok tp -> sopts tp = o -> filter_depth tp = k ->
      Cr k k (push_sub st (new_sub_renderer tp w')) st2 t -> pop_sub st2 = Ok (sub, st3) ->
      stack st3 = stack st /\ pfc sub /\ gout sub = t.
    Proof.
      intros Ht Ho Hk HC Hpop. destruct (top_inv _ _ Ht) as [rest Es].
      destruct (HC (new_sub_renderer tp w') (tp :: rest)) as (s' & E & _ & _ & P & G);
        [cbn [push_sub stack]; rewrite Es; reflexivity|exact Ho|exact Hk|reflexivity|].
      unfold pop_sub in Hpop. rewrite E in Hpop. injection Hpop as <- <-. cbn [stack].
      split; [symmetry; exact Es|]. split; [exact P|]. exact G.
    Qed.
  End GenRender.
End Gen.

(* ================================================================== *)
(* 3. Classes p that also reject the table-border characters: tables    *)
(* ================================================================== *)
Section Free.
  Variable p : chr -> bool.
  Hypothesis Hp : forall l, p (spacel l) = false.
  Hypothesis Hseg : forall sg, p (seg_char sg) = false.
  Hypothesis Hvbar : p vbar = false.

  Notation gnone := (gnone p).
  Notation gout := (gout p).
  Notation glstream := (glstream p).
  Notation opG := (opG p).

  Lemma gnone_border b : gnone (border_string b).
  Proof.
    apply gnone_Forall. unfold border_string. apply Forall_forall. intros c Hc.
    apply in_map_iff in Hc. destruct Hc as (x & <- & _). apply Hseg.
  Qed.
  Lemma gnone_vlines b : gnone (to_vertical_lines_above b).
  Proof.
    apply gnone_Forall. unfold to_vertical_lines_above. apply Forall_forall. intros c Hc.
    apply in_map_iff in Hc. destruct Hc as (x & <- & _). destruct x; first [apply Hvbar|apply Hp].
  Qed.

  (* every line is p-free *)
  Definition lgn (ls : list rline) : Prop := Forall (fun r => gnone (rline_string r)) ls.

  Lemma lgn_stream ls : lgn ls <-> glstream ls = [].
  Proof.
    induction ls as [|l ls IH]; [split; [reflexivity|constructor]|]. rewrite glstream_cons. split.
    - intros H. inversion H as [|? ? H1 H2]; subst. rewrite H1. apply IH, H2.
    - intros H. apply app_eq_nil in H. destruct H as [H1 H2]. constructor; [exact H1|apply IH, H2].
  Qed.

  Lemma gadd_horizontal_line_op b t o k : opG o k k (fun s => add_horizontal_line s b t) [].
  Proof.
    apply opG_of; [intros s s'; apply meta_add_horizontal_line|].
    intros s s' H Hpf. unfold add_horizontal_line in H. bind_inv H s1 H1. ok_inv H.
    destruct (gflush_wrapping_out p Hp _ _ H1 Hpf) as (A & B & C).
    destruct (gadd_line_none p s1 (RLine b t) A C) as (A' & B' & _).
    split; [exact A'|]. rewrite B', B. cbn [rline_string]. rewrite (gnone_border b). reflexivity.
  Qed.
  Lemma gadd_horizontal_border_width_op w o k : opG o k k (fun s => add_horizontal_border_width s w) [].
  Proof.
    apply opG_of; [intros s s'; apply meta_add_horizontal_border_width|].
    intros s s' H Hpf. unfold add_horizontal_border_width in H. bind_inv H s1 H1. ok_inv H.
    destruct (gflush_wrapping_out p Hp _ _ H1 Hpf) as (A & B & C).
    destruct (gadd_line_none p s1 (RLine (border_new w) (ann_stack s1)) A C) as (A' & B' & _).
    split; [exact A'|]. rewrite B', B. cbn [rline_string]. rewrite (gnone_border _). reflexivity.
  Qed.

  (* ---- vertical rows ---- *)
  Lemma gvert_cols_out : forall cols s first s',
    Forall pfc cols -> vert_cols s cols first = Ok s' -> pfc s ->
    pfc s' /\ gout s' = gout s ++ flat_map gout cols.
  Proof.
    induction cols as [|c cols IH]; intros s first s' HF H Hpf; cbn [vert_cols] in H.
    - ok_inv H. cbn [flat_map]. rewrite app_nil_r. auto.
    - inversion HF as [|? ? Hc HF']; subst. bind_inv H s1 H1. bind_inv H s2 H2.
      assert (A : pfc s1 /\ gout s1 = gout s ++ []).
      { destruct (negb first && o_borders (sopts s)).
        - destruct (gadd_horizontal_line_op _ _ (sopts s) (filter_depth s) _ _ H1 eq_refl eq_refl Hpf)
            as (_ & _ & X & Y). auto.
        - ok_inv H1. rewrite app_nil_r. auto. }
      destruct A as [A1 A2]. rewrite app_nil_r in A2.
      destruct (gappend_subrender_op p Hp c [] [] (sopts s1) (filter_depth s1) Hc (gnone_nil p) (gnone_nil p)
                  _ _ H2 eq_refl eq_refl A1) as (_ & _ & B1 & B2).
      destruct (IH _ _ _ HF' H B1) as [C1 C2]. split; [exact C1|].
      cbn [flat_map]. rewrite C2, B2, A2, <- app_assoc. reflexivity.
  Qed.

  Lemma gappend_vert_row_op cols o k :
    Forall pfc cols -> opG o k k (fun s => append_vert_row s cols) (flat_map gout cols).
  Proof.
    intros HF. apply opG_of; [intros s s'; apply meta_append_vert_row|].
    intros s s' H Hpf. unfold append_vert_row in H. bind_inv H s1 H1. bind_inv H s2 H2.
    destruct (gflush_wrapping_out p Hp _ _ H1 Hpf) as (A1 & A2 & _).
    destruct (gvert_cols_out _ _ _ _ HF H2 A1) as [B1 B2].
    assert (C : pfc s' /\ gout s' = gout s2 ++ []).
    { destruct (o_borders (sopts s2)).
      - unfold add_horizontal_border in H.
        destruct (gadd_horizontal_border_width_op _ (sopts s2) (filter_depth s2) _ _ H eq_refl eq_refl B1)
          as (_ & _ & X & Y). auto.
      - ok_inv H. rewrite app_nil_r. auto. }
    destruct C as [C1 C2]. rewrite app_nil_r in C2. split; [exact C1|]. congruence.
  Qed.

  (* ---- side-by-side rows: all that is needed here is that nothing of class p appears ---- *)
  Definition pads_gn (pads : list (option text)) : Prop :=
    Forall (fun q => match q with Some t => gnone t | None => True end) pads.
  Definition sets_gn (sets : list (N * list rline)) : Prop := Forall (fun pr => lgn (snd pr)) sets.

  Lemma grow_text_none draw i : forall sets pads,
    sets_gn sets -> pads_gn pads -> gnone (TableProof.row_text draw i sets pads).
  Proof.
    induction sets as [|[w ls] sets IH]; intros pads Hs Hpd; cbn [TableProof.row_text]; [reflexivity|].
    inversion Hs as [|? ? Hs1 Hs2]; subst. cbn [snd] in Hs1. apply gnone_app.
    - unfold TableProof.cell_text. destruct (nth_opt ls i) as [r|] eqn:En.
      + unfold lgn in Hs1. rewrite Forall_forall in Hs1. apply Hs1. eapply nth_opt_In, En.
      + destruct pads as [|[t|] pads]; [apply gnone_spacesl, Hp| |apply gnone_spacesl, Hp].
        inversion Hpd; assumption.
    - destruct sets as [|s' sets']; [reflexivity|].
      change (TableProof.bar draw :: TableProof.row_text draw i (s' :: sets') (tl pads))
        with ([TableProof.bar draw] ++ TableProof.row_text draw i (s' :: sets') (tl pads)).
      apply gnone_app.
      + unfold Decorators.gnone. cbn [filter]. destruct draw; cbn [TableProof.bar]; rewrite ?Hvbar, ?Hp; reflexivity.
      + apply IH; [exact Hs2|]. destruct pads as [|q pads]; [constructor|]. inversion Hpd; assumption.
  Qed.

  Lemma grow_lines_out t draw sets pads : sets_gn sets -> pads_gn pads -> forall n i s,
    pfc s -> wrapping s = None ->
    pfc (row_lines t draw n i sets pads s) /\ gout (row_lines t draw n i sets pads s) = gout s /\
    wrapping (row_lines t draw n i sets pads s) = None.
  Proof.
    intros Hs Hpd. induction n as [|n IH]; intros i s Hpf Hw; cbn [row_lines]; [auto|].
    destruct (gadd_line_none p s (RText (row_line t draw i sets pads tl_new)) Hpf Hw) as (A & B & C).
    destruct (IH (S i) _ A C) as (A' & B' & C'). split; [exact A'|]. split; [|exact C'].
    rewrite B', B. cbn [rline_string].
    rewrite TableProof.row_line_string. cbn [tl_string tl_new tv flat_map app].
    rewrite (grow_text_none draw i sets pads Hs Hpd). apply app_nil_r.
  Qed.

  Lemma gtl_pad_to l w t l' :
    tl_pad_to l w t = Ok l' -> filter p (tl_string l') = filter p (tl_string l).
  Proof.
    intros H. pose proof (pline_pad_to p Hp _ _ _ _ H) as E.
    rewrite <- !(projr_pline p). rewrite E. reflexivity.
  Qed.

  Lemma gpad_cell_lines w t : forall ls pls, pad_cell_lines w t ls = Ok pls -> lgn ls -> lgn pls.
  Proof.
    induction ls as [|l ls IH]; intros pls H Hl; cbn [pad_cell_lines] in H.
    - ok_inv H. constructor.
    - inversion Hl as [|? ? Hl1 Hl2]; subst. destruct l as [tl|b bt].
      + bind_inv H tl' Htl. bind_inv H r Hr. ok_inv H. constructor; [|apply (IH _ Hr Hl2)].
        cbn [rline_string] in *. unfold Decorators.gnone in *. rewrite (gtl_pad_to _ _ _ _ Htl). exact Hl1.
      + bind_inv H r Hr. ok_inv H. constructor; [apply gnone_border|apply (IH _ Hr Hl2)].
  Qed.

  Lemma gcol_line_sets t : forall cols sets,
    Forall (fun c => pfc c /\ gout c = []) cols -> col_line_sets t cols = Ok sets -> sets_gn sets.
  Proof.
    induction cols as [|c cols IH]; intros sets HF H; cbn [col_line_sets] in H.
    - ok_inv H. constructor.
    - inversion HF as [|? ? [Hc1 Hc2] HF']; subst.
      bind_inv H ls Hls. bind_inv H pls Hpls. bind_inv H r Hr. ok_inv H.
      constructor; [|apply (IH _ HF' Hr)]. cbn [snd]. apply (gpad_cell_lines _ _ _ _ Hpls).
      apply lgn_stream. rewrite (gsub_into_lines p Hp _ _ Hls Hc1). exact Hc2.
  Qed.

  Lemma gcollapse_top : forall sets prev pos r,
    collapse_top sets prev pos = Ok r -> sets_gn sets -> sets_gn (snd r).
  Proof.
    induction sets as [|[w sub] sets IH]; intros prev pos r H Hs; cbn [collapse_top] in H.
    - ok_inv H. constructor.
    - inversion Hs as [|? ? Hs1 Hs2]; subst. cbn [snd] in Hs1. destruct sub as [|[tl|line lt] sub'].
      + bind_inv H r' Hr'. ok_inv H. cbn [snd]. constructor; [exact Hs1|apply (IH _ _ _ Hr' Hs2)].
      + bind_inv H r' Hr'. ok_inv H. cbn [snd]. constructor; [exact Hs1|apply (IH _ _ _ Hr' Hs2)].
      + destruct prev as [pb|]; [|discriminate]. bind_inv H r' Hr'. ok_inv H. cbn [snd].
        constructor; [|apply (IH _ _ _ Hr' Hs2)]. cbn [snd]. inversion Hs1; assumption.
  Qed.

  Lemma lgn_removelast ls : lgn ls -> lgn (removelast ls).
  Proof. apply TableProof.Forall_removelast. Qed.

  Lemma gcollapse_bottom : forall sets next pos n' s' p',
    collapse_bottom sets next pos = (n', s', p') -> sets_gn sets -> sets_gn s' /\ pads_gn p'.
  Proof.
    induction sets as [|[w sub] sets IH]; intros next pos n' s' p' H Hs; cbn [collapse_bottom] in H.
    - injection H as <- <- <-. split; constructor.
    - inversion Hs as [|? ? Hs1 Hs2]; subst. cbn [snd] in Hs1.
      destruct (olast sub) as [[tl|line lt]|] eqn:El.
      + destruct (collapse_bottom sets next (pos + w + 1)) as [[n2 s2] p2] eqn:E.
        injection H as <- <- <-. destruct (IH _ _ _ _ _ E Hs2) as [A B].
        split; constructor; auto.
      + destruct (collapse_bottom sets (merge_from_above next line pos) (pos + w + 1))
          as [[n2 s2] p2] eqn:E.
        injection H as <- <- <-. destruct (IH _ _ _ _ _ E Hs2) as [A B].
        split; constructor; auto.
        * cbn [snd]. apply lgn_removelast, Hs1.
        * apply gnone_vlines.
      + destruct (collapse_bottom sets next (pos + w + 1)) as [[n2 s2] p2] eqn:E.
        injection H as <- <- <-. destruct (IH _ _ _ _ _ E Hs2) as [A B].
        split; constructor; auto.
  Qed.

  Lemma pads_gn_none {A} (l : list A) : pads_gn (map (fun _ => None) l).
  Proof. induction l; constructor; [exact I|assumption]. Qed.

  Lemma gappend_columns cols collapse s s' :
    Forall (fun c => pfc c /\ gout c = []) cols ->
    append_columns_with_borders s cols collapse = Ok s' -> pfc s ->
    pfc s' /\ gout s' = gout s ++ [].
  Proof.
    intros HF H Hpf. rewrite app_nil_r. unfold append_columns_with_borders in H.
    bind_inv H s1 H1. bind_inv H sets Hsets. bind_inv H chk Hchk.
    destruct (gflush_wrapping_out p Hp _ _ H1 Hpf) as (A1 & A2 & A3). clear Hchk.
    pose proof (gcol_line_sets _ _ _ HF Hsets) as Hsg.
    match type of H with
    | (let '(q, n) := ?e in _) = _ => destruct e as [prev1 next1]
    end.
    bind_inv H r Hr. destruct r as [[[prev3 next3] sets4] pads].
    assert (K : sets_gn sets4 /\ pads_gn pads).
    { destruct collapse.
      - bind_inv Hr ct Hct. destruct ct as [prev2 sets2].
        destruct (collapse_bottom sets2 next1 0) as [[next2 sets3] pads3] eqn:Ecb.
        ok_inv Hr. pose proof (gcollapse_top _ _ _ _ Hct Hsg) as B3. cbn [snd] in B3.
        exact (gcollapse_bottom _ _ _ _ _ _ Ecb B3).
      - ok_inv Hr. split; [exact Hsg|apply pads_gn_none]. }
    destruct K as [K1 K2].
    ok_inv H.
    match goal with
    | |- context [set_lines s1 ?l (pending_frags s1)] => set (lines1 := l)
    end.
    assert (El : glstream lines1 = glstream (slines s1)).
    { unfold lines1. destruct (olast (slines s1)) as [[tl|pb0 pt]|] eqn:Eo; try reflexivity.
      destruct prev3 as [pb|]; [|reflexivity].
      unfold replace_last. rewrite (olast_split _ _ Eo) at 2.
      rewrite !glstream_app, !glstream_one. cbn [rline_string]. rewrite !gnone_border. reflexivity. }
    set (s2 := set_lines s1 lines1 (pending_frags s1)).
    assert (Hp2 : pfc s2) by exact A1.
    assert (Hw2 : wrapping s2 = None) by exact A3.
    assert (Hg2 : gout s2 = gout s).
    { rewrite <- A2, (gout_none p _ Hw2), (gout_none p _ A3). exact El. }
    destruct (grow_lines_out (ann_stack s1) (o_borders (sopts s2)) sets4 pads K1 K2
                (fold_left Nat.max (map (fun q => length (snd q)) sets4) O) O s2 Hp2 Hw2)
      as (C1 & C2 & C3).
    change (sopts s2) with (sopts s1) in *.
    destruct (o_borders (sopts s1)).
    - destruct (gadd_line_none p _ (RLine next3 (ann_stack s1)) C1 C3) as (D1 & D2 & D3).
      split; [exact D1|]. rewrite D2, C2, Hg2. cbn [rline_string]. rewrite gnone_border. apply app_nil_r.
    - split; [exact C1|]. rewrite C2. exact Hg2.
  Qed.

  Lemma gappend_columns_op cols collapse o k :
    Forall (fun c => pfc c /\ gout c = []) cols ->
    opG o k k (fun s => append_columns_with_borders s cols collapse) [].
  Proof.
    intros HF. apply opG_of; [intros s s'; apply meta_append_columns|].
    intros s s' H Hpf. exact (gappend_columns _ _ _ _ HF H Hpf).
  Qed.
End Free.

(* ================================================================== *)
(* 4. (A), generically: if the decorator's strings and the texts of the *)
(*    tree avoid the class p, so does the whole output (any tree)       *)
(* ================================================================== *)
Lemma forallb_ext' {A} (f g : A -> bool) l : (forall a, f a = g a) -> forallb f l = forallb g l.
Proof. intros H. induction l as [|a l IH]; cbn [forallb]; [reflexivity|]. rewrite H, IH. reflexivity. Qed.

Section AllFree.
  Variable p : chr -> bool.
  Hypothesis Hp : forall l, p (spacel l) = false.
  Hypothesis Hseg : forall sg, p (seg_char sg) = false.
  Hypothesis Hvbar : p vbar = false.
  (* the "  " in front of a <dd> *)
  Hypothesis Hdd : p (mkl 32 1 L_prefix) = false.
  Variable d : deco.
  Variable mw : N.
  Variable o : ropts.
  (* fs: U+0336 is not of class p;  ff: footnote-labelled characters are not of class p *)
  Variables fs ff : bool.
  Hypothesis Hstrike : fs = true -> p strike_chr = false.
  Hypothesis Hfoot : ff = true -> forall c, lab c = L_foot -> p c = false.
  Hypothesis Hhdr : forall l, gnone p (d_header_prefix d l).
  Hypothesis Hquote : gnone p (d_quote_prefix d).
  Hypothesis Hul : gnone p (d_ul_prefix d).
  Hypothesis Hol : forall i, gnone p (d_ol_prefix d i).

  Notation gnone := (gnone p).
  Notation gchars := (gchars p).
  Notation gout := (gout p).
  Notation Cr := (Cr p o).

  (* a text none of whose output characters is of class p *)
  Definition tfreeb (t : text) : bool := forallb (fun c => negb (p c)) (kept t).

  Lemma tfreeb_gchars t : tfreeb t = true -> gchars t = [].
  Proof.
    unfold tfreeb, Decorators.gchars. induction (kept t) as [|c l IH]; cbn [forallb filter]; [reflexivity|].
    intros H. apply andb_true_iff in H. destruct H as [Hc Hl]. destruct (p c); [discriminate|]. apply IH, Hl.
  Qed.

  Lemma gchars_strikeout t : p strike_chr = false -> gchars (filter_strikeout t) = gchars t.
  Proof.
    intros Hs. unfold filter_strikeout. induction t as [|c t IH]; cbn [flat_map]; [reflexivity|].
    rewrite gchars_app, IH. change (c :: t) with ([c] ++ t). rewrite (gchars_app p [c] t).
    f_equal. destruct (negb (ws c) && (0 <? cw0 c)); [|reflexivity].
    change [c; strike_chr] with ([c] ++ [strike_chr]). rewrite gchars_app.
    unfold Decorators.gchars at 2. cbn [kept filter strike_chr ws cw negb andb]. fold strike_chr. rewrite Hs.
    apply app_nil_r.
  Qed.

  Definition dok (k : nat) : Prop := fs = true \/ k = O.

  Lemma gchars_filters k : dok k -> forall t, gchars t = [] -> gchars (apply_filters k t) = [].
  Proof.
    intros [Hf | ->]; [|intros t H; exact H]. specialize (Hstrike Hf).
    induction k as [|k IH]; intros t H; cbn [apply_filters]; [exact H|].
    apply IH. rewrite gchars_strikeout; assumption.
  Qed.

  Lemma tfree k t : dok k -> tfreeb t = true -> gchars (apply_filters k t) = [].
  Proof. intros Hk Ht. apply gchars_filters; [exact Hk|apply tfreeb_gchars, Ht]. Qed.

  Lemma dok_sdepth k : (negb (o_strike o) || fs) = true -> dok k -> dok (sdepth o k).
  Proof.
    unfold dok, sdepth. intros H Hk. destruct (o_strike o); [|exact Hk]. cbn [negb orb] in H. left. exact H.
  Qed.

  (* the side condition on the tree: every text that is handed to add_inline_text (leaves, image
     texts, the decorator's affixes) is free of class p; a strikeout node is allowed only if the
     option is off or U+0336 is not of class p; a link only if footnotes are off or footnote
     characters are not of class p *)
  Fixpoint adm (n : rnode) {struct n} : bool :=
    let wrapped (a b : text) (cs : list rnode) : bool := tfreeb a && tfreeb b && forallb adm cs in
    match rn_info n with
    | IText t => tfreeb t
    | IImg src title => tfreeb (fst (d_image d src title))
    | IBreak | IFragStart _ => true
    | ILink href cs =>
      (negb (o_footnotes o) || ff) && wrapped (fst (d_link_start d href)) (d_link_end d) cs
    | IEm cs | IDt cs => wrapped (fst (d_em_start d)) (d_em_end d) cs
    | IStrong cs => wrapped (fst (d_strong_start d)) (d_strong_end d) cs
    | IStrikeout cs =>
      (negb (o_strike o) || fs) && wrapped (fst (d_strike_start d)) (d_strike_end d) cs
    | ICode cs => wrapped (fst (d_code_start d)) (d_code_end d) cs
    | ISup cs =>
      match sup_digits cs with
      | Some ds => tfreeb ds && forallb adm cs
      | None => wrapped (fst (d_sup_start d)) (d_sup_end d) cs
      end
    | IContainer cs | IBlock cs | IListItem cs | IDiv cs | IDl cs
    | IHeader _ cs | IBlockQuote cs | IUl cs | IOl _ cs | IDd cs => forallb adm cs
    | ITable rows _ | ITableBody rows =>
      forallb (fun r => match r with
                        | RRow cells _ =>
                          forallb (fun c => match c with RCell _ k _ => forallb adm k end) cells
                        end) rows
    | ITableRow (RRow cells _) =>
      forallb (fun c => match c with RCell _ k _ => forallb adm k end) cells
    | ITableCell (RCell _ k _) => forallb adm k
    end.

  Lemma wrapped_inv a b cs :
    tfreeb a && tfreeb b && forallb adm cs = true ->
    tfreeb a = true /\ tfreeb b = true /\ forallb adm cs = true.
  Proof. intros H. apply andb_true_iff in H. destruct H as [H H3]. apply andb_true_iff in H. tauto. Qed.

  Lemma adm_kids i sty : adm (RN i sty) = true -> forallb adm (direct_kids i) = true.
  Proof.
    destruct i; cbn [adm rn_info direct_kids]; intros H; try exact H; try reflexivity;
      try (apply wrapped_inv in H; tauto).
    - apply andb_true_iff in H. destruct H as [_ H]. apply wrapped_inv in H; tauto.
    - apply andb_true_iff in H. destruct H as [_ H]. apply wrapped_inv in H; tauto.
    - rewrite forallb_flat_map. erewrite forallb_ext'; [exact H|]. intros [cells rsty].
      unfold row_kids. cbn [row_cells]. rewrite forallb_flat_map. apply forallb_ext'.
      intros [n content csty]. reflexivity.
    - rewrite forallb_flat_map. erewrite forallb_ext'; [exact H|]. intros [cells rsty].
      unfold row_kids. cbn [row_cells]. rewrite forallb_flat_map. apply forallb_ext'.
      intros [n content csty]. reflexivity.
    - destruct r as [cells rsty]. unfold row_kids. cbn [row_cells]. rewrite forallb_flat_map.
      erewrite forallb_ext'; [exact H|]. intros [n content csty]. reflexivity.
    - destruct c as [n content csty]. exact H.
    - match type of H with context [sup_digits ?c] => destruct (sup_digits c) end.
      + apply andb_true_iff in H. tauto.
      + apply wrapped_inv in H; tauto.
  Qed.

  Definition node_A (n : rnode) : Prop :=
    forall k st st', dok k -> adm n = true -> render_node d mw n st = Ok st' -> Cr k k st st' [].

  Lemma fold_Cr0 {B} (f : B -> rstate -> res rstate) k (l : list B) :
    (forall b, In b l -> forall a a', f b a = Ok a' -> Cr k k a a' []) ->
    forall a a', fold_left (fun acc b => do s <- acc; f b s) l (Ok a) = Ok a' -> Cr k k a a' [].
  Proof.
    induction l as [|b l IH]; intros Hstep a a' H.
    - cbn [fold_left] in H. ok_inv H. apply Cr_refl.
    - apply fold_bind_cons in H. destruct H as (a1 & H1 & H).
      eapply Cr0_l; [exact (Hstep b (or_introl eq_refl) a a1 H1)|].
      apply IH; [intros b' Hb'; apply Hstep; right; exact Hb'|exact H].
  Qed.

  Lemma render_kids_A cs k st st' :
    Forall node_A cs -> forallb adm cs = true -> dok k ->
    fold_left (fun acc c => do s <- acc; render_node d mw c s) cs (Ok st) = Ok st' -> Cr k k st st' [].
  Proof.
    intros HF Ha Hk H. apply (fold_Cr0 (render_node d mw) k cs); [|exact H].
    intros c Hc a a' Hr. rewrite Forall_forall in HF. rewrite forallb_forall in Ha.
    exact (HF c Hc k a a' Hk (Ha c Hc) Hr).
  Qed.

  Lemma wrap_case_A (f1 f2 : subr -> res subr) k k1 cs ps st1 st' :
    opG p o k k1 f1 [] -> opG p o k1 k f2 [] -> Forall node_A cs -> forallb adm cs = true -> dok k1 ->
    (do a <- with_top st1 f1;
     do b <- fold_left (fun acc c => do s <- acc; render_node d mw c s) cs (Ok a);
     do c <- with_top b f2; unwind d ps c) = Ok st' ->
    Cr k k st1 st' [].
  Proof.
    intros K1 K2 HF Ha Hk1 H. bind_inv H a H1. bind_inv H b H2. bind_inv H c H3.
    eapply Cr0_l; [exact (with_top_Cr p o _ _ _ _ _ _ K1 H1)|].
    eapply Cr0_l; [exact (render_kids_A _ _ _ _ HF Ha Hk1 H2)|].
    eapply Cr0_l; [exact (with_top_Cr p o _ _ _ _ _ _ K2 H3)|].
    exact (unwind_Cr p d o k _ _ _ H).
  Qed.

  (* affix operations with an admissible affix append nothing of class p *)
  Lemma start_deco_A q k : dok k -> tfreeb (fst q) = true -> opG p o k k (fun s => start_deco d s q) [].
  Proof. intros Hk Ht. rewrite <- (tfree k _ Hk Ht). apply gstart_deco_op, Hp. Qed.
  Lemma end_deco_A e k : dok k -> tfreeb e = true -> opG p o k k (fun s => end_deco d s e) [].
  Proof. intros Hk Ht. rewrite <- (tfree k _ Hk Ht). apply gend_deco_op, Hp. Qed.

  (* a nested sub-renderer (continuation style) *)
  Lemma scope_A k st1 tp w' st2 sub st3 t u st' :
    top st1 = Ok tp -> Cr k k (push_sub st1 (new_sub_renderer tp w')) st2 t ->
    pop_sub st2 = Ok (sub, st3) ->
    (pfc sub -> gout sub = t -> Cr k k st3 st' u) -> Cr k k st1 st' u.
  Proof.
    intros Ht HC Hpop Hk s rest Es Ho Hd Hpf.
    destruct (top_inv _ _ Ht) as [rest' Es']. rewrite Es in Es'. injection Es' as <- <-.
    destruct (sub_scope_Cr p o k st1 s w' st2 sub st3 t Ht Ho Hd HC Hpop) as (E3 & Ps & Gs).
    apply (Hk Ps Gs s rest); [rewrite E3; exact Es|assumption..].
  Qed.

  Lemma append_A k sub q1 q2 st3 st4 :
    pfc sub -> gout sub = [] -> gnone q1 -> gnone q2 ->
    with_top st3 (fun s => append_subrender s sub q1 q2) = Ok st4 -> Cr k k st3 st4 [].
  Proof.
    intros Ps Gs H1 H2 H. rewrite <- Gs.
    exact (with_top_Cr p o _ _ _ _ _ _ (gappend_subrender_op p Hp sub q1 q2 o k Ps H1 H2) H).
  Qed.

  Lemma gnone_pad_width q w : gnone q -> gnone (pad_width q w).
  Proof. intros H. unfold pad_width. apply gnone_app; [exact H|apply gnone_repeat, Hp]. Qed.
  Lemma gnone_pad_chars w : gnone (pad_chars [] w).
  Proof. unfold pad_chars. apply gnone_app; [apply gnone_nil|apply gnone_repeat, Hp]. Qed.
  Lemma gnone_dd : gnone (ptext [32; 32]).
  Proof. unfold Decorators.gnone, ptext, of_asciil. cbn [map filter]. rewrite Hdd. reflexivity. Qed.

  (* ---- ordered lists ---- *)
  Lemma ol_items_A sz pw k : dok k -> forall items s i r,
    Forall node_A items -> forallb adm items = true ->
    fold_left (fun acc item => do si <- acc; ol_step d mw sz pw item si) items (Ok (s, i)) = Ok r ->
    Cr k k s (fst r) [].
  Proof.
    intros Hk. induction items as [|item items IH]; intros s i r HF Ha H.
    - cbn [fold_left] in H. ok_inv H. apply Cr_refl.
    - apply fold_bind_cons in H. destruct H as ([s4 i'] & Hstep & H).
      pose proof (Forall_inv HF) as HF1. pose proof (Forall_inv_tail HF) as HF2.
      cbn [forallb] in Ha. apply andb_true_iff in Ha. destruct Ha as [Ha1 Ha2].
      unfold ol_step in Hstep.
      bind_inv Hstep iw Hiw. bind_inv Hstep tp Htp. bind_inv Hstep w' Hw.
      bind_inv Hstep s2 Hs2. bind_inv Hstep pp Hpp. destruct pp as [sub s3].
      bind_inv Hstep s4' H4. injection Hstep as -> <-.
      eapply Cr0_l; [|exact (IH _ _ _ HF2 Ha2 H)].
      eapply (scope_A k s tp w' s2 sub s3 [] []); [exact Htp|exact (HF1 _ _ _ Hk Ha1 Hs2)|exact Hpp|].
      intros Ps Gs. exact (append_A k sub _ _ _ _ Ps Gs (gnone_pad_width _ pw (Hol i)) (gnone_pad_chars pw) H4).
  Qed.

  (* ---- tables ---- *)
  Definition cells_adm (cells : list rcell) : bool :=
    forallb (fun c => forallb adm (cell_content c)) cells.
  Definition subs_free (subs : list subr) : Prop := Forall (fun c => pfc c /\ gout c = []) subs.

  Lemma cells_loop_A k : dok k -> forall cells wsl s2 subs r s rest,
    Forall (fun c => Forall node_A (cell_content c)) cells -> cells_adm cells = true ->
    stack s2 = s :: rest -> sopts s = o -> filter_depth s = k -> subs_free subs ->
    cells_loop d mw cells wsl s2 subs = Ok r ->
    stack (fst r) = stack s2 /\ subs_free (snd r).
  Proof.
    intros Hk. induction cells as [|[n content csty] cells IH]; intros wsl s2 subs r s rest HF Ha Es Ho Hd Hs H;
      cbn [cells_loop] in H.
    - injection H as <-. cbn [fst snd]. auto.
    - pose proof (Forall_inv HF) as HF1. pose proof (Forall_inv_tail HF) as HF2. cbn [cell_content] in HF1.
      unfold cells_adm in Ha. cbn [forallb cell_content] in Ha. apply andb_true_iff in Ha.
      destruct Ha as [Ha1 Ha2].
      destruct wsl as [|[cw_|] wsl].
      + injection H as <-. cbn [fst snd]. auto.
      + bind_inv H tp2 Htp. bind_inv H apc Hap. destruct apc as [s4 pcell].
        bind_inv H s5 H5. bind_inv H s6 H6. bind_inv H pp Hpp. destruct pp as [sub s7].
        destruct (top_inv _ _ Htp) as [rest' Es']. rewrite Es in Es'. injection Es' as -> ->.
        assert (RC : Cr k k (push_sub s2 (new_sub_renderer tp2 cw_)) s6 []).
        { eapply Cr0_l; [exact (apply_style_Cr p d o _ _ _ _ _ Hap)|].
          eapply Cr0_l; [exact (render_kids_A _ _ _ _ HF1 Ha1 Hk H5)|].
          exact (unwind_Cr p d o _ _ _ _ H6). }
        destruct (sub_scope_Cr p o k s2 tp2 cw_ s6 sub s7 [] Htp Ho Hd RC Hpp) as (E7 & Ps & Gs).
        destruct (IH wsl s7 (subs ++ [sub]) r tp2 rest' HF2 Ha2) as (A & B); auto.
        { congruence. }
        { apply Forall_app. split; [exact Hs|]. constructor; [auto|constructor]. }
        split; [congruence|exact B].
      + apply (IH wsl s2 subs r s rest HF2 Ha2 Es Ho Hd Hs H).
  Qed.

  Lemma flat_gout_free subs : subs_free subs -> flat_map gout subs = [].
  Proof.
    induction 1 as [|c subs [_ Hc] _ IH]; cbn [flat_map]; [reflexivity|]. rewrite Hc, IH. reflexivity.
  Qed.
  Lemma subs_free_pfc subs : subs_free subs -> Forall pfc subs.
  Proof. apply Forall_impl. intros c [H _]. exact H. Qed.

  Lemma row_body_A k vr col_widths r st st' :
    dok k -> Forall (fun c => Forall node_A (cell_content c)) (row_cells r) ->
    cells_adm (row_cells r) = true ->
    row_body d mw vr col_widths r st = Ok st' -> Cr k k st st' [].
  Proof.
    intros Hk HF Ha H. destruct r as [rcells rstyle]. cbn [row_cells] in *. unfold row_body in H.
    bind_inv H apr Hap. destruct apr as [s1 prow]. bind_inv H cws Hcws. bind_inv H rr Hrr.
    destruct rr as [s8 subs]. bind_inv H s9 H9.
    pose proof (apply_style_Cr p d o k _ _ _ _ Hap) as R1.
    intros s rest Es Ho Hd Hpf.
    destruct (R1 s rest Es Ho Hd Hpf) as (s1' & Es1 & Ho1 & Hd1 & Hpf1 & G1).
    destruct (cells_loop_A k Hk rcells cws s1 [] (s8, subs) s1' rest HF Ha Es1 Ho1 Hd1 (Forall_nil _) Hrr)
      as (E8 & Hfree). cbn [fst snd] in *.
    assert (R9 : Cr k k s8 s9 []).
    { destruct vr.
      - rewrite <- (flat_gout_free _ Hfree).
        exact (with_top_Cr p o _ _ _ _ _ _
                 (gappend_vert_row_op p Hp Hseg subs o k (subs_free_pfc _ Hfree)) H9).
      - destruct (existsb (fun c => negb (sub_empty c)) subs).
        + exact (with_top_Cr p o _ _ _ _ _ _ (gappend_columns_op p Hp Hseg Hvbar subs true o k Hfree) H9).
        + ok_inv H9. apply Cr_refl. }
    pose proof (Cr0_l p o _ _ _ _ _ _ _ R9 (unwind_Cr p d o k _ _ _ H)) as R10.
    destruct (R10 s1' rest) as (s' & E' & O' & D' & P' & G'); [congruence|assumption..|].
    exists s'. repeat (split; [assumption|]). rewrite G', G1, !app_nil_r. reflexivity.
  Qed.

  Ltac startA H k sz ap st1 ps R1 :=
    let Hsz := fresh "Hsz" in let Hap := fresh "Hap" in
    bind_inv H sz Hsz; bind_inv H ap Hap; destruct ap as [st1 ps];
    pose proof (apply_style_Cr p d o k _ _ _ _ Hap) as R1.

  (* THE per-node theorem *)
  Lemma node_A_all : forall n, node_A n.
  Proof.
    apply rnode_ind'. intros i sty IH k st st' Hk Ha H.
    pose proof (adm_kids _ _ Ha) as Hkids.
    destruct i; cbn [direct_kids] in IH, Hkids; cbn [render_node rn_info rn_style] in H;
      cbn [adm rn_info] in Ha.
    - (* IText *)
      startA H k sz ap st1 ps R1. bind_inv H st2 H2. eapply Cr0_l; [exact R1|].
      eapply Cr0_l; [|exact (unwind_Cr p d o k _ _ _ H)].
      pose proof (inline_text_Cr p Hp d o k _ _ _ H2) as R2. rewrite (tfree k _ Hk Ha) in R2. exact R2.
    - (* IContainer *)
      startA H k sz ap st1 ps R1. bind_inv H st2 H2. eapply Cr0_l; [exact R1|].
      eapply Cr0_l; [exact (render_kids_A _ _ _ _ IH Hkids Hk H2)|exact (unwind_Cr p d o k _ _ _ H)].
    - (* ILink *)
      startA H k sz ap st1 ps R1. apply andb_true_iff in Ha. destruct Ha as [Hff Ha].
      apply wrapped_inv in Ha. destruct Ha as (Ta & Tb & _).
      set (st1' := mkrst (stack st1) (links st1 ++ [href])) in H.
      assert (R1' : Cr k k st1 st1' []) by (apply Cr_stack_eq; reflexivity).
      bind_inv H st2 H2. bind_inv H st3 H3. bind_inv H st4 H4. bind_inv H tp H5. bind_inv H st5 H6.
      eapply Cr0_l; [exact R1|]. eapply Cr0_l; [exact R1'|].
      eapply Cr0_l; [exact (with_top_Cr p o _ _ _ _ _ _ (start_deco_A (d_link_start d href) k Hk Ta) H2)|].
      eapply Cr0_l; [exact (render_kids_A _ _ _ _ IH Hkids Hk H3)|].
      eapply Cr0_l; [exact (with_top_Cr p o _ _ _ _ _ _ (end_deco_A (d_link_end d) k Hk Tb) H4)|].
      eapply Cr0_l; [|exact (unwind_Cr p d o k _ _ _ H)].
      (* the reference *)
      intros s rest Es Ho Hd Hpf. destruct (top_inv _ _ H5) as [rest' Es']. rewrite Es in Es'.
      injection Es' as <- <-. rewrite Ho in H6. destruct (o_footnotes o) eqn:Efn.
      + cbn [negb orb] in Hff.
        pose proof (inline_text_Cr p Hp d o k _ _ _ H6) as R6.
        assert (E : gchars (apply_filters k (ftext ([91] ++ dec_N (N.of_nat (length (links st4))) ++ [93]))) = []).
        { apply gchars_filters; [exact Hk|]. apply gnone_gchars, gnone_Forall.
          unfold ftext, of_asciil. apply Forall_forall. intros c Hc. apply in_map_iff in Hc.
          destruct Hc as (x & <- & _). apply (Hfoot Hff). reflexivity. }
        rewrite E in R6. exact (R6 s rest Es Ho Hd Hpf).
      + injection H6 as <-. exact (Cr_refl p o k st4 s rest Es Ho Hd Hpf).
    - (* IEm *)
      startA H k sz ap st1 ps R1. apply wrapped_inv in Ha. destruct Ha as (Ta & Tb & _).
      eapply Cr0_l; [exact R1|].
      exact (wrap_case_A (start_emphasis d) (end_emphasis d) k k cs ps st1 st'
               (start_deco_A _ k Hk Ta) (end_deco_A _ k Hk Tb) IH Hkids Hk H).
    - (* IStrong *)
      startA H k sz ap st1 ps R1. apply wrapped_inv in Ha. destruct Ha as (Ta & Tb & _).
      eapply Cr0_l; [exact R1|].
      exact (wrap_case_A (start_strong d) (end_strong d) k k cs ps st1 st'
               (start_deco_A _ k Hk Ta) (end_deco_A _ k Hk Tb) IH Hkids Hk H).
    - (* IStrikeout *)
      startA H k sz ap st1 ps R1. apply andb_true_iff in Ha. destruct Ha as [Hfs Ha].
      apply wrapped_inv in Ha. destruct Ha as (Ta & Tb & _).
      eapply Cr0_l; [exact R1|].
      refine (wrap_case_A (start_strikeout d) (end_strikeout d) k (sdepth o k) cs ps st1 st'
               _ _ IH Hkids (dok_sdepth k Hfs Hk) H).
      + rewrite <- (tfree k _ Hk Ta). apply gstart_strikeout_op, Hp.
      + rewrite <- (tfree k _ Hk Tb). apply gend_strikeout_op, Hp.
    - (* ICode *)
      startA H k sz ap st1 ps R1. apply wrapped_inv in Ha. destruct Ha as (Ta & Tb & _).
      eapply Cr0_l; [exact R1|].
      exact (wrap_case_A (start_code d) (end_code d) k k cs ps st1 st'
               (start_deco_A _ k Hk Ta) (end_deco_A _ k Hk Tb) IH Hkids Hk H).
    - (* IImg *)
      startA H k sz ap st1 ps R1. bind_inv H st2 H2. eapply Cr0_l; [exact R1|].
      eapply Cr0_l; [|exact (unwind_Cr p d o k _ _ _ H)].
      pose proof (with_top_Cr p o _ _ _ _ _ _ (gadd_image_op p Hp d src title o k) H2) as R2.
      rewrite (tfree k _ Hk Ha) in R2. exact R2.
    - (* IBlock *)
      startA H k sz ap st1 ps R1. eapply Cr0_l; [exact R1|].
      exact (wrap_case_A start_block (fun s => Ok (end_block s)) k k cs ps st1 st'
               (gstart_block_op p Hp o k) (gend_block_op p o k) IH Hkids Hk H).
    - (* IHeader *)
      startA H k sz ap st1 ps R1.
      destruct (swidth (d_header_prefix d level) =? e_prefix sz); cbn [negb] in H; [|discriminate].
      bind_inv H tp Htp. bind_inv H w' Hw. bind_inv H st2 H2. bind_inv H pp Hpp.
      destruct pp as [sub st3]. bind_inv H st4 H4. bind_inv H st5 H5. bind_inv H st6 H6.
      eapply Cr0_l; [exact R1|].
      eapply (scope_A k st1 tp w' st2 sub st3 [] []); [exact Htp|exact (render_kids_A _ _ _ _ IH Hkids Hk H2)|exact Hpp|].
      intros Ps Gs.
      eapply Cr0_l; [exact (with_top_Cr p o _ _ _ _ _ _ (gstart_block_op p Hp o k) H4)|].
      eapply Cr0_l; [exact (append_A k sub _ _ _ _ Ps Gs (Hhdr level) (Hhdr level) H5)|].
      eapply Cr0_l; [exact (with_top'_Cr p o _ _ _ _ _ _ (gend_block_op p o k) H6)|].
      exact (unwind_Cr p d o k _ _ _ H).
    - (* IDiv *)
      startA H k sz ap st1 ps R1. eapply Cr0_l; [exact R1|].
      exact (wrap_case_A new_line new_line k k cs ps st1 st'
               (gflush_wrapping_op p Hp o k) (gflush_wrapping_op p Hp o k) IH Hkids Hk H).
    - (* IBlockQuote *)
      startA H k sz ap st1 ps R1.
      destruct (e_prefix sz =? swidth (d_quote_prefix d)); cbn [negb] in H; [|discriminate].
      bind_inv H iw Hiw.
      bind_inv H tp Htp. bind_inv H w' Hw. bind_inv H st2 H2. bind_inv H pp Hpp.
      destruct pp as [sub st3]. bind_inv H st4 H4. bind_inv H st5 H5. bind_inv H st6 H6.
      eapply Cr0_l; [exact R1|].
      eapply (scope_A k st1 tp w' st2 sub st3 [] []); [exact Htp|exact (render_kids_A _ _ _ _ IH Hkids Hk H2)|exact Hpp|].
      intros Ps Gs.
      eapply Cr0_l; [exact (with_top_Cr p o _ _ _ _ _ _ (gstart_block_op p Hp o k) H4)|].
      eapply Cr0_l; [exact (append_A k sub _ _ _ _ Ps Gs Hquote Hquote H5)|].
      eapply Cr0_l; [exact (with_top'_Cr p o _ _ _ _ _ _ (gend_block_op p o k) H6)|].
      exact (unwind_Cr p d o k _ _ _ H).
    - (* IUl *)
      startA H k sz ap st1 ps R1. bind_inv H st2 H2. eapply Cr0_l; [exact R1|].
      eapply Cr0_l; [|exact (unwind_Cr p d o k _ _ _ H)].
      revert H2.
      apply (fold_Cr0
               (fun item s =>
                  do inner_width <- usub 22 (e_min sz) (swidth (d_ul_prefix d));
                  do tp <- top s;
                  do w <- width_minus tp (swidth (d_ul_prefix d)) inner_width;
                  do s2 <- render_node d mw item (push_sub s (new_sub_renderer tp w));
                  do pp <- pop_sub s2;
                  let '(sub, s3) := pp in
                  with_top s3 (fun t => append_subrender t sub (d_ul_prefix d)
                     (repeat_chr (spacel L_prefix) (N.to_nat (swidth (d_ul_prefix d))))))
               k cs).
      intros item Hitem a a' Hstep.
      bind_inv Hstep iw Hiw. bind_inv Hstep tp Htp. bind_inv Hstep w' Hw.
      bind_inv Hstep s2 Hs2. bind_inv Hstep pp Hpp. destruct pp as [sub s3].
      rewrite Forall_forall in IH. rewrite forallb_forall in Hkids.
      eapply (scope_A k a tp w' s2 sub s3 [] []);
        [exact Htp|exact (IH item Hitem _ _ _ Hk (Hkids item Hitem) Hs2)|exact Hpp|].
      intros Ps Gs. exact (append_A k sub _ _ _ _ Ps Gs Hul (gnone_repeat p _ _ (Hp L_prefix)) Hstep).
    - (* IOl *)
      startA H k sz ap st1 ps R1. bind_inv H r Hr. eapply Cr0_l; [exact R1|].
      eapply Cr0_l; [exact (ol_items_A sz _ k Hk cs st1 start r IH Hkids Hr)|].
      exact (unwind_Cr p d o k _ _ _ H).
    - (* IDl *)
      startA H k sz ap st1 ps R1. bind_inv H st2 H2. bind_inv H st3 H3. eapply Cr0_l; [exact R1|].
      eapply Cr0_l; [exact (with_top_Cr p o _ _ _ _ _ _ (gstart_block_op p Hp o k) H2)|].
      eapply Cr0_l; [exact (render_kids_A _ _ _ _ IH Hkids Hk H3)|exact (unwind_Cr p d o k _ _ _ H)].
    - (* IDt *)
      startA H k sz ap st1 ps R1. apply wrapped_inv in Ha. destruct Ha as (Ta & Tb & _).
      bind_inv H st2 H2. eapply Cr0_l; [exact R1|].
      eapply Cr0_l; [exact (with_top_Cr p o _ _ _ _ _ _ (gflush_wrapping_op p Hp o k) H2)|].
      exact (wrap_case_A (start_emphasis d) (end_emphasis d) k k cs ps st2 st'
               (start_deco_A _ k Hk Ta) (end_deco_A _ k Hk Tb) IH Hkids Hk H).
    - (* IDd *)
      startA H k sz ap st1 ps R1. bind_inv H iw Hiw.
      bind_inv H tp Htp. bind_inv H w' Hw. bind_inv H st2 H2. bind_inv H pp Hpp.
      destruct pp as [sub st3]. bind_inv H st4 H4.
      eapply Cr0_l; [exact R1|].
      eapply (scope_A k st1 tp w' st2 sub st3 [] []); [exact Htp|exact (render_kids_A _ _ _ _ IH Hkids Hk H2)|exact Hpp|].
      intros Ps Gs.
      eapply Cr0_l; [exact (append_A k sub _ _ _ _ Ps Gs gnone_dd gnone_dd H4)|].
      exact (unwind_Cr p d o k _ _ _ H).
    - (* IBreak *)
      startA H k sz ap st1 ps R1. bind_inv H st2 H2. eapply Cr0_l; [exact R1|].
      eapply Cr0_l; [exact (with_top_Cr p o _ _ _ _ _ _ (gnew_line_hard_op p Hp o k) H2)|].
      exact (unwind_Cr p d o k _ _ _ H).
    - (* ITable *)
      startA H k sz ap st1 ps R1.
      bind_inv H col_sizes Hcs. bind_inv H tp Htp.
      set (vr := o_raw (sopts tp)
                 || ((swidth_ tp <? sumN (map e_min col_sizes) + (N.of_nat (length col_sizes) - 1))
                     || (swidth_ tp =? 0))) in *.
      bind_inv H col_widths Hcw. bind_inv H st2 H2. bind_inv H st3 H3. bind_inv H st_rows Hrows.
      eapply Cr0_l; [exact R1|].
      eapply Cr0_l; [exact (with_top_Cr p o _ _ _ _ _ _ (gstart_block_op p Hp o k) H2)|].
      assert (R3 : Cr k k st2 st3 []).
      { match type of H3 with (if ?c then _ else _) = _ => destruct c end.
        - exact (with_top_Cr p o _ _ _ _ _ _ (gadd_horizontal_border_width_op p Hp Hseg _ o k) H3).
        - ok_inv H3. apply Cr_refl. }
      eapply Cr0_l; [exact R3|].
      eapply Cr0_l; [|exact (unwind_Cr p d o k _ _ _ H)].
      assert (Hrows' : fold_left (fun acc r => do s <- acc; row_body d mw vr col_widths r s) rows
                                 (Ok st3) = Ok st_rows) by exact Hrows.
      revert Hrows'. apply (fold_Cr0 (row_body d mw vr col_widths) k rows).
      intros r Hr a a' Hstep.
      apply Forall_flat_map in IH. rewrite Forall_forall in IH. specialize (IH r Hr).
      unfold row_kids in IH. apply Forall_flat_map in IH.
      rewrite forallb_flat_map in Hkids. rewrite forallb_forall in Hkids. specialize (Hkids r Hr).
      unfold row_kids in Hkids. rewrite forallb_flat_map in Hkids.
      exact (row_body_A k vr col_widths r a a' Hk IH Hkids Hstep).
    - (* ITableBody *) bind_inv H sz Hsz. bind_inv H ap Hap. destruct ap. discriminate.
    - (* ITableRow *) bind_inv H sz Hsz. bind_inv H ap Hap. destruct ap. discriminate.
    - (* ITableCell *) bind_inv H sz Hsz. bind_inv H ap Hap. destruct ap. discriminate.
    - (* IFragStart *)
      startA H k sz ap st1 ps R1. bind_inv H st2 H2. eapply Cr0_l; [exact R1|].
      eapply Cr0_l; [exact (with_top'_Cr p o _ _ _ _ _ _ (grecord_frag_start_op p name o k) H2)|].
      exact (unwind_Cr p d o k _ _ _ H).
    - (* IListItem *)
      startA H k sz ap st1 ps R1. eapply Cr0_l; [exact R1|].
      exact (wrap_case_A start_block (fun s => Ok (end_block s)) k k cs ps st1 st'
               (gstart_block_op p Hp o k) (gend_block_op p o k) IH Hkids Hk H).
    - (* ISup *)
      startA H k sz ap st1 ps R1. eapply Cr0_l; [exact R1|].
      destruct (sup_digits cs) as [digitstr|] eqn:Esd.
      + apply andb_true_iff in Ha. destruct Ha as [Ta _]. bind_inv H st2 H2.
        eapply Cr0_l; [|exact (unwind_Cr p d o k _ _ _ H)].
        pose proof (inline_text_Cr p Hp d o k _ _ _ H2) as R2. rewrite (tfree k _ Hk Ta) in R2. exact R2.
      + apply wrapped_inv in Ha. destruct Ha as (Ta & Tb & _).
        exact (wrap_case_A (start_superscript d) (end_superscript d) k k cs ps st1 st'
                 (start_deco_A _ k Hk Ta) (end_deco_A _ k Hk Tb) IH Hkids Hk H).
  Qed.

  (* ---- links: an admissible tree with a link has footnotes off or ff ---- *)
  Lemma flat_map_nonnil {A B} (f : A -> list B) l : flat_map f l <> [] -> exists x, In x l /\ f x <> [].
  Proof.
    induction l as [|a l IH]; cbn [flat_map]; intros H; [congruence|].
    destruct (f a) as [|b fb] eqn:E.
    - destruct (IH H) as (x & Hx & Hf). exists x. split; [right; exact Hx|exact Hf].
    - exists a. split; [left; reflexivity|congruence].
  Qed.

  Lemma all_links_kids i sty : all_links (RN i sty) <> [] ->
    (exists href cs, i = ILink href cs) \/ exists c, In c (direct_kids i) /\ all_links c <> [].
  Proof.
    destruct i; cbn [all_links rn_info direct_kids]; intros H; try congruence;
      try (right; exact (flat_map_nonnil _ _ H)).
    - left. eauto.
    - right. destruct (flat_map_nonnil _ _ H) as ([cells rsty] & Hr & H1).
      destruct (flat_map_nonnil _ _ H1) as ([n content csty] & Hc & H2).
      destruct (flat_map_nonnil _ _ H2) as (x & Hx & H3). exists x. split; [|exact H3].
      apply in_flat_map. exists (RRow cells rsty). split; [exact Hr|]. unfold row_kids. cbn [row_cells].
      apply in_flat_map. exists (RCell n content csty). split; [exact Hc|exact Hx].
  Qed.

  Lemma adm_links : forall n, adm n = true -> all_links n <> [] -> (negb (o_footnotes o) || ff) = true.
  Proof.
    apply (rnode_ind' (fun n => adm n = true -> all_links n <> [] -> (negb (o_footnotes o) || ff) = true)).
    intros i sty IH Ha Hl. destruct (all_links_kids i sty Hl) as [(href & cs & ->)|(c & Hc & Hlc)].
    - cbn [adm rn_info] in Ha. apply andb_true_iff in Ha. tauto.
    - pose proof (adm_kids _ _ Ha) as Hk. rewrite forallb_forall in Hk. rewrite Forall_forall in IH.
      exact (IH c Hc (Hk c Hc) Hlc).
  Qed.

  (* ---- the footnote list ---- *)
  Lemma gentry_groups es q new :
    entry_groups es q new -> gnone q -> Forall (fun e => gnone e) es -> glstream p new = [].
  Proof.
    induction 1 as [q|e es q g rest Hg Eg _ IH]; intros Hq He; [reflexivity|].
    inversion He as [|? ? He1 He2]; subst.
    rewrite glstream_app, (IH (gnone_nil p) He2), app_nil_r. unfold Decorators.glstream. rewrite Eg.
    apply gnone_app; assumption.
  Qed.

  Lemma finalise_entries_free urls : ff = true -> forall k,
    Forall (fun l => gnone (entry_text l)) (finalise_from k urls).
  Proof.
    intros Hf. induction urls as [|u urls IH]; intros k; cbn [finalise_from]; constructor; [|apply IH].
    unfold entry_text. rewrite tl_string_from_string. apply gnone_Forall.
    unfold nl_to_space. apply Forall_forall. intros c Hc. apply in_map_iff in Hc.
    destruct Hc as (x & <- & Hx). destruct (cp x =? 10); [apply Hp|].
    apply (Hfoot Hf). apply in_app_or in Hx. destruct Hx as [Hx|Hx].
    - unfold ftext, of_asciil in Hx. apply in_map_iff in Hx. destruct Hx as (y & <- & _). reflexivity.
    - unfold relabel in Hx. apply in_map_iff in Hx. destruct Hx as (y & <- & _). reflexivity.
  Qed.

  Lemma gfmt_links_out s ls :
    pfc s -> Forall (fun l => gnone (entry_text l)) ls ->
    pfc (fmt_links s ls) /\ gout (fmt_links s ls) = gout s.
  Proof.
    intros Hpf Hl. split; [apply fmt_links_pfc, Hpf|].
    destruct (fmt_links_spec ls s) as (new & A & B & C & _).
    unfold Decorators.gout. rewrite A, C, glstream_app.
    rewrite (gentry_groups _ _ _ B); [rewrite app_nil_r; reflexivity|rewrite Hpf; apply gnone_nil|].
    apply Forall_forall. intros e He. apply in_map_iff in He. destruct He as (l & <- & Hin).
    rewrite Forall_forall in Hl. apply Hl, Hin.
  Qed.

  (* (A), generic form: nothing of class p in the output of render_tree *)
  Theorem tree_free : forall width tree s,
    adm tree = true -> render_tree d mw o width tree = Ok s ->
    pfc s /\ gout s = [] /\
    forall ls, sub_into_lines s = Ok ls -> gnone (flat_map rline_string ls).
  Proof.
    intros width tree s Ha H.
    destruct (render_tree_footnotes d mw o width tree s H) as (st & body & A & B & _ & _ & Eo & F).
    assert (Hb : pfc body /\ gout body = []).
    { destruct (node_A_all tree O _ _ (or_intror eq_refl) Ha A (sub_new width o) [])
        as (s' & E & _ & _ & P & G); try reflexivity.
      rewrite B in E. injection E as <-. split; [exact P|exact G]. }
    destruct Hb as [Pb Gb].
    assert (K : pfc s /\ gout s = []).
    { destruct (if o_footnotes o then link_targets d mw o tree width else []) as [|u L'] eqn:EL.
      - subst s. auto.
      - destruct F as (b1 & Hb1 & ->).
        assert (Hff : ff = true).
        { destruct (o_footnotes o) eqn:Efn; [|discriminate].
          assert (Hal : all_links tree <> []).
          { intros E0. pose proof (link_targets_subseq d mw o tree width) as Hs. rewrite E0, EL in Hs.
            apply subseq_nil_r in Hs. discriminate. }
          pose proof (adm_links tree Ha Hal) as X. rewrite Efn in X. exact X. }
        destruct (gstart_block_s p Hp _ _ Hb1 Pb) as [P1 E1]. rewrite app_nil_r in E1.
        destruct (gfmt_links_out b1 (finalise_from 1 (link_targets d mw o tree width)) P1
                    (finalise_entries_free _ Hff 1)) as (P2 & E2).
        split; [exact P2|congruence]. }
    destruct K as [Ps Gs]. split; [exact Ps|]. split; [exact Gs|].
    intros ls Hls. unfold Decorators.gnone. change (filter p (flat_map rline_string ls)) with (glstream p ls).
    rewrite (gsub_into_lines p Hp _ _ Hls Ps). exact Gs.
  Qed.
End AllFree.

(* ================================================================== *)
(* 5. (A) for the trivial decorator                                     *)
(* ================================================================== *)

(* the box-drawing characters of table borders (BorderHoriz / the vertical bar; "/" separates
   the cells of a row laid out vertically), labelled L_border by the model *)
Definition is_border (c : chr) : bool :=
  (lab c =? L_border) && existsb (N.eqb (cp c)) [9472; 47; 9524; 9516; 9532; 9474].
(* a renderer-made U+0020 that the model does not flag as whitespace: the "  " before a <dd> *)
Definition is_pspace (c : chr) : bool := (cp c =? 32) && (lab c <? 16).
Definition is_strike (c : chr) : bool := (cp c =? 822) && (lab c =? L_strike).
(* "^{" and "}" *)
Definition is_supaffix (c : chr) : bool :=
  (lab c =? L_deco) && existsb (N.eqb (cp c)) [94; 123; 125].
Definition is_foot (c : chr) : bool := lab c =? L_foot.

(* what the trivial decorator may output: whitespace, document characters (label >= 16), table
   borders, and - each only if its flag is set - U+0336, "^{" "}", footnote characters *)
Definition triv_ok (fs fp ff : bool) (c : chr) : bool :=
  ws c || is_pspace c || (16 <=? lab c) || is_border c ||
  (fs && is_strike c) || (fp && is_supaffix c) || (ff && is_foot c).
Definition triv_bad (fs fp ff : bool) (c : chr) : bool := negb (triv_ok fs fp ff c).

(* the side condition (decidable): all leaf texts and alt texts consist of whitespace and
   document-labelled characters; every strikeout node has `o_strike o = false` unless fs; every
   <sup> is the all-digits special case unless fp; every link has `o_footnotes o = false`
   unless ff *)
Definition triv_adm (o : ropts) (fs fp ff : bool) (tree : rnode) : bool :=
  adm (triv_bad fs fp ff) trivial_deco o fs ff tree.

Section Trivial.
  Variables fs fp ff : bool.
  Notation p := (triv_bad fs fp ff).

  Lemma tb_space l : p (spacel l) = false.
  Proof. reflexivity. Qed.
  Lemma tb_seg sg : p (seg_char sg) = false.
  Proof. destruct sg; reflexivity. Qed.
  Lemma tb_vbar : p vbar = false.
  Proof. reflexivity. Qed.
  Lemma tb_dd : p (mkl 32 1 L_prefix) = false.
  Proof. reflexivity. Qed.
  Lemma tb_strike : fs = true -> p strike_chr = false.
  Proof. intros ->. reflexivity. Qed.
  Lemma tb_foot : ff = true -> forall c, lab c = L_foot -> p c = false.
  Proof.
    intros -> c Hc. unfold triv_bad, triv_ok, is_foot. rewrite Hc. cbn [andb].
    replace (L_foot =? L_foot) with true by reflexivity. rewrite !orb_true_r. reflexivity.
  Qed.

  Lemma triv_ok_of_gnone t : gnone p t -> Forall (fun c => triv_ok fs fp ff c = true) t.
  Proof.
    intros H. apply Forall_forall. intros c Hc. pose proof (gnone_In p t H c Hc) as E.
    unfold triv_bad in E. destruct (triv_ok fs fp ff c); [reflexivity|discriminate].
  Qed.

  (* (A) MAIN THEOREM: every character of every output line *)
  Theorem c16_trivial_chars : forall mw o width tree s ls,
    triv_adm o fs fp ff tree = true ->
    render_tree trivial_deco mw o width tree = Ok s -> sub_into_lines s = Ok ls ->
    Forall (fun c => triv_ok fs fp ff c = true) (flat_map rline_string ls).
  Proof.
    intros mw o width tree s ls Ha H Hls. apply triv_ok_of_gnone.
    refine (proj2 (proj2 (tree_free p tb_space tb_seg tb_vbar tb_dd trivial_deco mw o fs ff
                            tb_strike tb_foot _ _ _ _ width tree s Ha H)) ls Hls);
      intros; reflexivity.
  Qed.

  (* ... and of the string route (the line feeds are whitespace) *)
  Theorem c16_trivial_string : forall mw o width tree s t,
    triv_adm o fs fp ff tree = true ->
    render_tree trivial_deco mw o width tree = Ok s -> sub_into_string s = Ok t ->
    Forall (fun c => triv_ok fs fp ff c = true) t.
  Proof.
    intros mw o width tree s t Ha H Ht. unfold sub_into_string in Ht. bind_inv Ht ls Hls. ok_inv Ht.
    pose proof (c16_trivial_chars mw o width tree s ls Ha H Hls) as HF. clear Hls.
    induction ls as [|l ls IH]; cbn [flat_map] in *; [constructor|].
    apply Forall_app in HF. destruct HF as [H1 H2].
    apply Forall_app. split; [apply Forall_app; split; [exact H1|constructor; [reflexivity|constructor]]|].
    apply IH. exact H2.
  Qed.

  (* the characters of the output that are not whitespace / border / one of the flagged
     exceptions are exactly its visible document characters (RenderConserve.docp) *)
  Definition tvis (c : chr) : bool :=
    negb (ws c) && negb (is_pspace c) && negb (is_border c) &&
    negb (fs && is_strike c) && negb (fp && is_supaffix c) && negb (ff && is_foot c).

  Lemma tvis_docp c : triv_ok fs fp ff c = true -> tvis c = docp c.
  Proof.
    unfold triv_ok, tvis, docp, is_pspace, is_border, is_strike, is_supaffix, is_foot,
      L_border, L_strike, L_deco, L_foot.
    destruct (ws c); [reflexivity|]. cbn [negb andb orb].
    destruct (16 <=? lab c) eqn:E16.
    - replace (lab c <? 16) with false by lia. replace (lab c =? 4) with false by lia.
      replace (lab c =? 7) with false by lia. replace (lab c =? 5) with false by lia.
      replace (lab c =? 6) with false by lia. rewrite !andb_false_r. reflexivity.
    - replace (lab c <? 16) with true by lia. rewrite andb_true_r. cbn [orb].
      intros H.
      destruct (cp c =? 32); [reflexivity|]. cbn [negb andb orb] in *.
      destruct ((lab c =? 4) && existsb (N.eqb (cp c)) [9472; 47; 9524; 9516; 9532; 9474]);
        [reflexivity|]. cbn [negb andb orb] in *.
      destruct (fs && ((cp c =? 822) && (lab c =? 7))); [reflexivity|]. cbn [negb andb orb] in *.
      destruct (fp && ((lab c =? 5) && existsb (N.eqb (cp c)) [94; 123; 125])); [reflexivity|].
      cbn [negb andb orb] in *. rewrite H. reflexivity.
  Qed.

  Lemma filter_tvis_docp t :
    Forall (fun c => triv_ok fs fp ff c = true) t -> filter tvis t = filter docp t.
  Proof.
    induction 1 as [|c t Hc _ IH]; cbn [filter]; [reflexivity|]. rewrite (tvis_docp c Hc), IH. reflexivity.
  Qed.

  (* (A) combined with C03: what is left of the output after deleting whitespace, borders and
     the flagged exceptions is a permutation of the visible document characters of the tree
     (RenderConserve.tree_stream: the leaves in document order, minus the table cells that get no
     width); without tables (or in raw mode) it is that stream itself *)
  Theorem c16_trivial_perm : forall mw o width tree s ls,
    triv_adm o fs fp ff tree = true ->
    Forall posw (tree_stream trivial_deco mw o tree width) ->
    render_tree trivial_deco mw o width tree = Ok s -> sub_into_lines s = Ok ls ->
    Permutation (filter tvis (flat_map rline_string ls)) (tree_stream trivial_deco mw o tree width).
  Proof.
    intros mw o width tree s ls Ha Hpos H Hls.
    rewrite (filter_tvis_docp _ (c16_trivial_chars mw o width tree s ls Ha H Hls)).
    exact (proj2 (c03_render_tree_perm trivial_deco mw o width tree s prefix_made_trivial Hpos H) ls Hls).
  Qed.

  Theorem c16_trivial_exact : forall mw o width tree s ls,
    triv_adm o fs fp ff tree = true -> no_table tree = true ->
    render_tree trivial_deco mw o width tree = Ok s -> sub_into_lines s = Ok ls ->
    filter tvis (flat_map rline_string ls) = leaf_stream tree.
  Proof.
    intros mw o width tree s ls Ha Hn H Hls.
    rewrite (filter_tvis_docp _ (c16_trivial_chars mw o width tree s ls Ha H Hls)).
    exact (c03_render_tree_leaves trivial_deco mw o width tree s ls deco_made_trivial Hn H Hls).
  Qed.
End Trivial.
Print Assumptions c16_trivial_chars.
Print Assumptions c16_trivial_string.
Print Assumptions c16_trivial_perm.
Print Assumptions c16_trivial_exact.

(* ================================================================== *)
(* 6. (B) every decorator: the stream of ALL visible characters         *)
(* ================================================================== *)

(* what add_inline_text keeps of a text at strikeout-filter depth k: the characters that are
   not whitespace and have a width entry (Conserve.kept), each followed by k U+0336 marks if it
   has a positive width *)
Definition vis (k : nat) (t : text) : text := kept (apply_filters k t).

Lemma gchars_nonws t : gchars nonws t = kept t.
Proof. exact (filter_nonws_kept t). Qed.

Section KidsFs.
  Variable f : rnode -> nat -> text.
  (* the children one after the other; nl = number of links seen so far *)
  Fixpoint kids_fs (cs : list rnode) (nl : nat) : text :=
    match cs with
    | [] => []
    | c :: cs' => f c nl ++ kids_fs cs' (nl + length (all_links c))
    end.
End KidsFs.

Section FullStream.
  Variable d : deco.
  Variable o : ropts.

  (* full_stream k n nl: ALL visible characters (document and decorator-made) that rendering n
     produces when the strikeout-filter depth is k and nl links precede n, in order:
     the start affix, the children, the end affix; for a link, with footnotes on, the reference
     "[m]" where m = number of links up to and including those INSIDE the link. *)
  Fixpoint full_stream (k : nat) (n : rnode) (nl : nat) {struct n} : text :=
    let kids (k' : nat) (cs : list rnode) (nl' : nat) : text :=
        kids_fs (fun c m => full_stream k' c m) cs nl' in
    let wrapped (a b : text) (cs : list rnode) : text := vis k a ++ kids k cs nl ++ vis k b in
    match rn_info n with
    | IText t => vis k t
    | IImg src title => vis k (fst (d_image d src title))
    | IBreak | IFragStart _ => []
    | ILink href cs =>
      vis k (fst (d_link_start d href)) ++ kids k cs (S nl) ++ vis k (d_link_end d) ++
      (if o_footnotes o
       then vis k (ftext ([91] ++ dec_N (N.of_nat (S nl + length (flat_map all_links cs))) ++ [93]))
       else [])
    | IEm cs | IDt cs => wrapped (fst (d_em_start d)) (d_em_end d) cs
    | IStrong cs => wrapped (fst (d_strong_start d)) (d_strong_end d) cs
    | IStrikeout cs =>
      vis k (fst (d_strike_start d)) ++ kids (sdepth o k) cs nl ++ vis k (d_strike_end d)
    | ICode cs => wrapped (fst (d_code_start d)) (d_code_end d) cs
    | ISup cs =>
      match sup_digits cs with
      | Some ds => vis k ds
      | None => wrapped (fst (d_sup_start d)) (d_sup_end d) cs
      end
    | IContainer cs | IBlock cs | IListItem cs | IDiv cs | IDl cs => kids k cs nl
    | IHeader _ _ | IBlockQuote _ | IUl _ | IOl _ _ | IDd _
    | ITable _ _ | ITableRow _ | ITableBody _ | ITableCell _ => []      (* outside the theorem *)
    end.

  Definition kids_full (k : nat) (cs : list rnode) (nl : nat) : text :=
    kids_fs (fun c m => full_stream k c m) cs nl.
End FullStream.

(* trees without prefixed blocks (heading, quote, lists, dd) and tables: inline content below
   any nesting of p/div/span/dl/dt/li-like flow containers *)
Fixpoint flow (n : rnode) {struct n} : bool :=
  match rn_info n with
  | IText _ | IImg _ _ | IBreak | IFragStart _ => true
  | ILink _ cs | IEm cs | IStrong cs | IStrikeout cs | ICode cs | ISup cs | IDt cs
  | IContainer cs | IBlock cs | IListItem cs | IDiv cs | IDl cs => forallb flow cs
  | IHeader _ _ | IBlockQuote _ | IUl _ | IOl _ _ | IDd _
  | ITable _ _ | ITableRow _ | ITableBody _ | ITableCell _ => false
  end.

Lemma flow_kids i sty : flow (RN i sty) = true -> forallb flow (direct_kids i) = true.
Proof. destruct i; cbn [flow rn_info direct_kids]; intros H; try exact H; try reflexivity; discriminate. Qed.

Lemma flow_no_table : forall n, flow n = true -> no_table n = true.
Proof.
  apply (rnode_ind' (fun n => flow n = true -> no_table n = true)). intros i sty IH Hf.
  pose proof (flow_kids _ _ Hf) as Hk.
  assert (K : forallb no_table (direct_kids i) = true).
  { apply forallb_forall. intros c Hc. rewrite Forall_forall in IH. rewrite forallb_forall in Hk.
    exact (IH c Hc (Hk c Hc)). }
  destruct i; cbn [flow rn_info] in Hf; try discriminate; cbn [no_table rn_info direct_kids] in *;
    first [exact K|reflexivity].
Qed.

Lemma sup_digits_links_nil cs t : sup_digits cs = Some t -> flat_map all_links cs = [].
Proof.
  unfold sup_digits. destruct cs as [|n [|n' cs]]; try discriminate.
  destruct n as [i sty]. cbn [rn_info]. destruct i; try discriminate. intros _. reflexivity.
Qed.

Section FlowStream.
  Variable d : deco.
  Variable mw : N.
  Variable o : ropts.

  Notation p := nonws.
  Notation Cr := (Cr nonws o).
  Notation fsn := (full_stream d o).

  Definition CrL (k k' : nat) (st st' : rstate) (t : text) (L : list text) : Prop :=
    Cr k k' st st' t /\ links st' = links st ++ L.

  Lemma CrL_trans k k1 k2 a b c t1 t2 L1 L2 :
    CrL k k1 a b t1 L1 -> CrL k1 k2 b c t2 L2 -> CrL k k2 a c (t1 ++ t2) (L1 ++ L2).
  Proof.
    intros [A1 A2] [B1 B2]. split; [eapply Cr_trans; eassumption|].
    rewrite B2, A2, app_assoc. reflexivity.
  Qed.
  Lemma CrL0_l k k1 k2 a b c t L : CrL k k1 a b [] [] -> CrL k1 k2 b c t L -> CrL k k2 a c t L.
  Proof. intros A B. exact (CrL_trans _ _ _ _ _ _ _ _ _ _ A B). Qed.
  Lemma CrL0_r k k1 k2 a b c t L : CrL k k1 a b t L -> CrL k1 k2 b c [] [] -> CrL k k2 a c t L.
  Proof.
    intros A B. pose proof (CrL_trans _ _ _ _ _ _ _ _ _ _ A B) as C. rewrite !app_nil_r in C. exact C.
  Qed.
  Lemma CrL_refl k st : CrL k k st st [] [].
  Proof. split; [apply Cr_refl|rewrite app_nil_r; reflexivity]. Qed.

  Lemma with_top_CrL k k' f t st st' : opG p o k k' f t -> with_top st f = Ok st' -> CrL k k' st st' t [].
  Proof.
    intros Hf H. split; [eapply with_top_Cr; eassumption|].
    destruct (with_top_inv _ _ _ H) as (s & rest & s' & _ & _ & ->). cbn [links]. rewrite app_nil_r. reflexivity.
  Qed.
  Lemma with_top'_CrL k k' g t st st' :
    opG p o k k' (fun s => Ok (g s)) t -> with_top' st g = Ok st' -> CrL k k' st st' t [].
  Proof. unfold with_top'. apply with_top_CrL. Qed.

  Lemma apply_style_CrL k st cs st' pu : apply_style d st cs = Ok (st', pu) -> CrL k k st st' [] [].
  Proof.
    intros H. split; [eapply apply_style_Cr, H|]. exact (proj2 (Footnotes.apply_style_T d _ _ _ _ H)).
  Qed.
  Lemma unwind_CrL k pu st st' : unwind d pu st = Ok st' -> CrL k k st st' [] [].
  Proof. intros H. split; [eapply unwind_Cr, H|]. exact (proj2 (Footnotes.unwind_T d _ _ _ H)). Qed.

  Lemma inline_text_CrL k t st st' : inline_text d st t = Ok st' -> CrL k k st st' (vis k t) [].
  Proof.
    unfold inline_text. intros H. unfold vis. rewrite <- gchars_nonws.
    exact (with_top_CrL _ _ _ _ _ _ (gadd_inline_text_op p nonws_spacel d t o k) H).
  Qed.

  Lemma CrL_len k k' st st' t L : CrL k k' st st' t L -> length (links st') = (length (links st) + length L)%nat.
  Proof. intros [_ E]. rewrite E, app_length. reflexivity. Qed.

  Definition node_B (n : rnode) : Prop :=
    forall k st st', flow n = true -> render_node d mw n st = Ok st' ->
                     CrL k k st st' (fsn k n (length (links st))) (all_links n).

  Lemma render_kids_B k : forall cs st st',
    Forall node_B cs -> forallb flow cs = true ->
    fold_left (fun acc c => do s <- acc; render_node d mw c s) cs (Ok st) = Ok st' ->
    CrL k k st st' (kids_full d o k cs (length (links st))) (flat_map all_links cs).
  Proof.
    induction cs as [|c cs IH]; intros st st' HF Ha H.
    - cbn [fold_left] in H. ok_inv H. apply CrL_refl.
    - apply fold_bind_cons in H. destruct H as (a1 & H1 & H).
      pose proof (Forall_inv HF) as HF1. pose proof (Forall_inv_tail HF) as HF2.
      cbn [forallb] in Ha. apply andb_true_iff in Ha. destruct Ha as [Ha1 Ha2].
      pose proof (HF1 k _ _ Ha1 H1) as R1. pose proof (IH _ _ HF2 Ha2 H) as R2.
      rewrite (CrL_len _ _ _ _ _ _ R1) in R2.
      unfold kids_full in *. cbn [kids_fs flat_map]. eapply CrL_trans; eassumption.
  Qed.

  Lemma wrap_case_B (f1 f2 : subr -> res subr) t1 t2 k k1 cs ps st1 st' :
    opG p o k k1 f1 t1 -> opG p o k1 k f2 t2 -> Forall node_B cs -> forallb flow cs = true ->
    (do a <- with_top st1 f1;
     do b <- fold_left (fun acc c => do s <- acc; render_node d mw c s) cs (Ok a);
     do c <- with_top b f2; unwind d ps c) = Ok st' ->
    CrL k k st1 st' (t1 ++ kids_full d o k1 cs (length (links st1)) ++ t2) (flat_map all_links cs).
  Proof.
    intros K1 K2 HF Ha H. bind_inv H a H1. bind_inv H b H2. bind_inv H c H3.
    pose proof (with_top_CrL _ _ _ _ _ _ K1 H1) as Ra.
    pose proof (render_kids_B k1 _ _ _ HF Ha H2) as Rb.
    rewrite (CrL_len _ _ _ _ _ _ Ra), Nat.add_0_r in Rb.
    pose proof (with_top_CrL _ _ _ _ _ _ K2 H3) as Rc.
    pose proof (unwind_CrL k _ _ _ H) as Rd.
    pose proof (CrL_trans _ _ _ _ _ _ _ _ _ _ Ra (CrL_trans _ _ _ _ _ _ _ _ _ _ Rb (CrL0_r _ _ _ _ _ _ _ _ Rc Rd))) as R.
    cbn [app] in R. rewrite app_nil_r in R. exact R.
  Qed.

  Lemma deco_ops_B q e k :
    opG p o k k (fun s => start_deco d s q) (vis k (fst q)) /\
    opG p o k k (fun s => end_deco d s e) (vis k e).
  Proof.
    unfold vis. rewrite <- !gchars_nonws. split; [apply gstart_deco_op|apply gend_deco_op]; exact nonws_spacel.
  Qed.

  Ltac startB H k sz ap st1 ps R1 :=
    let Hsz := fresh "Hsz" in let Hap := fresh "Hap" in
    bind_inv H sz Hsz; bind_inv H ap Hap; destruct ap as [st1 ps];
    pose proof (apply_style_CrL k _ _ _ _ Hap) as R1;
    let E := fresh "El" in
    pose proof (CrL_len _ _ _ _ _ _ R1) as E; rewrite Nat.add_0_r in E.

  (* THE per-node theorem of (B) *)
  Lemma node_B_all : forall n, node_B n.
  Proof.
    apply rnode_ind'. intros i sty IH k st st' Ha H.
    pose proof (flow_kids _ _ Ha) as Hkids.
    destruct i; cbn [direct_kids] in IH, Hkids; cbn [flow rn_info] in Ha; try discriminate Ha;
      cbn [render_node rn_info rn_style] in H; cbn [full_stream all_links rn_info].
    - (* IText *)
      startB H k sz ap st1 ps R1. bind_inv H st2 H2. eapply CrL0_l; [exact R1|].
      eapply CrL0_r; [exact (inline_text_CrL k _ _ _ H2)|exact (unwind_CrL k _ _ _ H)].
    - (* IContainer *)
      startB H k sz ap st1 ps R1. bind_inv H st2 H2. eapply CrL0_l; [exact R1|].
      rewrite <- El. eapply CrL0_r; [exact (render_kids_B k _ _ _ IH Hkids H2)|exact (unwind_CrL k _ _ _ H)].
    - (* ILink *)
      startB H k sz ap st1 ps R1.
      set (st1' := mkrst (stack st1) (links st1 ++ [href])) in H.
      assert (R1' : CrL k k st1 st1' [] [href]).
      { split; [apply Cr_stack_eq; reflexivity|reflexivity]. }
      bind_inv H st2 H2. bind_inv H st3 H3. bind_inv H st4 H4. bind_inv H tp H5. bind_inv H st5 H6.
      destruct (deco_ops_B (d_link_start d href) (d_link_end d) k) as [K1 K2].
      pose proof (with_top_CrL _ _ _ _ _ _ K1 H2) as R2.
      pose proof (render_kids_B k _ _ _ IH Hkids H3) as R3.
      pose proof (with_top_CrL _ _ _ _ _ _ K2 H4) as R4.
      assert (E2 : length (links st2) = S (length (links st))).
      { rewrite (CrL_len _ _ _ _ _ _ R2). unfold st1'. cbn [links]. rewrite app_length, El. cbn [length]. lia. }
      rewrite E2 in R3.
      assert (E4 : length (links st4) = (S (length (links st)) + length (flat_map all_links cs))%nat).
      { rewrite (CrL_len _ _ _ _ _ _ R4), (CrL_len _ _ _ _ _ _ R3), E2. cbn [length]. lia. }
      assert (R5 : CrL k k st4 st5
                     (if o_footnotes o
                      then vis k (ftext ([91] ++ dec_N (N.of_nat (S (length (links st)) + length (flat_map all_links cs))) ++ [93]))
                      else []) []).
      { split.
        - intros s rest Es Ho Hd Hpf. destruct (top_inv _ _ H5) as [rest' Es']. rewrite Es in Es'.
          injection Es' as <- <-. rewrite Ho in H6. destruct (o_footnotes o).
          + rewrite E4 in H6. exact (proj1 (inline_text_CrL k _ _ _ H6) s rest Es Ho Hd Hpf).
          + injection H6 as <-. exact (Cr_refl p o k st4 s rest Es Ho Hd Hpf).
        - destruct (top_inv _ _ H5) as [rest' Es']. destruct (o_footnotes (sopts tp)).
          + exact (proj2 (inline_text_CrL k _ _ _ H6)).
          + injection H6 as <-. rewrite app_nil_r. reflexivity. }
      pose proof (unwind_CrL k _ _ _ H) as R6.
      pose proof (CrL0_l _ _ _ _ _ _ _ _ R1
                    (CrL_trans _ _ _ _ _ _ _ _ _ _ R1'
                       (CrL_trans _ _ _ _ _ _ _ _ _ _ R2
                          (CrL_trans _ _ _ _ _ _ _ _ _ _ R3
                             (CrL_trans _ _ _ _ _ _ _ _ _ _ R4 (CrL0_r _ _ _ _ _ _ _ _ R5 R6)))))) as R.
      cbn [app] in R. rewrite !app_nil_r in R. exact R.
    - (* IEm *)
      startB H k sz ap st1 ps R1. eapply CrL0_l; [exact R1|]. rewrite <- El.
      destruct (deco_ops_B (d_em_start d) (d_em_end d) k) as [K1 K2].
      exact (wrap_case_B (start_emphasis d) (end_emphasis d) _ _ k k cs ps st1 st' K1 K2 IH Hkids H).
    - (* IStrong *)
      startB H k sz ap st1 ps R1. eapply CrL0_l; [exact R1|]. rewrite <- El.
      destruct (deco_ops_B (d_strong_start d) (d_strong_end d) k) as [K1 K2].
      exact (wrap_case_B (start_strong d) (end_strong d) _ _ k k cs ps st1 st' K1 K2 IH Hkids H).
    - (* IStrikeout *)
      startB H k sz ap st1 ps R1. eapply CrL0_l; [exact R1|]. rewrite <- El.
      refine (wrap_case_B (start_strikeout d) (end_strikeout d) _ _ k (sdepth o k) cs ps st1 st' _ _ IH Hkids H).
      + unfold vis. rewrite <- gchars_nonws. apply gstart_strikeout_op, nonws_spacel.
      + unfold vis. rewrite <- gchars_nonws. apply gend_strikeout_op, nonws_spacel.
    - (* ICode *)
      startB H k sz ap st1 ps R1. eapply CrL0_l; [exact R1|]. rewrite <- El.
      destruct (deco_ops_B (d_code_start d) (d_code_end d) k) as [K1 K2].
      exact (wrap_case_B (start_code d) (end_code d) _ _ k k cs ps st1 st' K1 K2 IH Hkids H).
    - (* IImg *)
      startB H k sz ap st1 ps R1. bind_inv H st2 H2. eapply CrL0_l; [exact R1|].
      eapply CrL0_r; [|exact (unwind_CrL k _ _ _ H)].
      unfold vis. rewrite <- gchars_nonws.
      exact (with_top_CrL _ _ _ _ _ _ (gadd_image_op p nonws_spacel d src title o k) H2).
    - (* IBlock *)
      startB H k sz ap st1 ps R1. eapply CrL0_l; [exact R1|]. rewrite <- El.
      pose proof (wrap_case_B start_block (fun s => Ok (end_block s)) _ _ k k cs ps st1 st'
                    (gstart_block_op p nonws_spacel o k) (gend_block_op p o k) IH Hkids H) as X.
      cbn [app] in X. rewrite app_nil_r in X. exact X.
    - (* IDiv *)
      startB H k sz ap st1 ps R1. eapply CrL0_l; [exact R1|]. rewrite <- El.
      pose proof (wrap_case_B new_line new_line _ _ k k cs ps st1 st'
                    (gflush_wrapping_op p nonws_spacel o k) (gflush_wrapping_op p nonws_spacel o k) IH Hkids H) as X.
      cbn [app] in X. rewrite app_nil_r in X. exact X.
    - (* IDl *)
      startB H k sz ap st1 ps R1. bind_inv H st2 H2. bind_inv H st3 H3. eapply CrL0_l; [exact R1|].
      pose proof (with_top_CrL _ _ _ _ _ _ (gstart_block_op p nonws_spacel o k) H2) as R2.
      eapply CrL0_l; [exact R2|].
      pose proof (render_kids_B k _ _ _ IH Hkids H3) as R3.
      rewrite (CrL_len _ _ _ _ _ _ R2), Nat.add_0_r, El in R3.
      eapply CrL0_r; [exact R3|exact (unwind_CrL k _ _ _ H)].
    - (* IDt *)
      startB H k sz ap st1 ps R1. bind_inv H st2 H2. eapply CrL0_l; [exact R1|].
      pose proof (with_top_CrL _ _ _ _ _ _ (gflush_wrapping_op p nonws_spacel o k) H2) as R2.
      eapply CrL0_l; [exact R2|].
      destruct (deco_ops_B (d_em_start d) (d_em_end d) k) as [K1 K2].
      pose proof (wrap_case_B (start_emphasis d) (end_emphasis d) _ _ k k cs ps st2 st' K1 K2 IH Hkids H) as X.
      rewrite (CrL_len _ _ _ _ _ _ R2), Nat.add_0_r, El in X. exact X.
    - (* IBreak *)
      startB H k sz ap st1 ps R1. bind_inv H st2 H2. eapply CrL0_l; [exact R1|].
      eapply CrL0_l; [exact (with_top_CrL _ _ _ _ _ _ (gnew_line_hard_op p nonws_spacel o k) H2)|].
      exact (unwind_CrL k _ _ _ H).
    - (* IFragStart *)
      startB H k sz ap st1 ps R1. bind_inv H st2 H2. eapply CrL0_l; [exact R1|].
      eapply CrL0_l; [exact (with_top'_CrL _ _ _ _ _ _ (grecord_frag_start_op p name o k) H2)|].
      exact (unwind_CrL k _ _ _ H).
    - (* IListItem *)
      startB H k sz ap st1 ps R1. eapply CrL0_l; [exact R1|]. rewrite <- El.
      pose proof (wrap_case_B start_block (fun s => Ok (end_block s)) _ _ k k cs ps st1 st'
                    (gstart_block_op p nonws_spacel o k) (gend_block_op p o k) IH Hkids H) as X.
      cbn [app] in X. rewrite app_nil_r in X. exact X.
    - (* ISup *)
      startB H k sz ap st1 ps R1. eapply CrL0_l; [exact R1|].
      destruct (sup_digits cs) as [digitstr|] eqn:Esd.
      + bind_inv H st2 H2. rewrite (sup_digits_links_nil _ _ Esd).
        eapply CrL0_r; [exact (inline_text_CrL k _ _ _ H2)|exact (unwind_CrL k _ _ _ H)].
      + rewrite <- El. destruct (deco_ops_B (d_sup_start d) (d_sup_end d) k) as [K1 K2].
        exact (wrap_case_B (start_superscript d) (end_superscript d) _ _ k k cs ps st1 st' K1 K2 IH Hkids H).
  Qed.
End FlowStream.

(* ---- the footnote list, exactly ---- *)
Lemma entry_groups_concat es q new :
  entry_groups es q new -> q = [] -> flat_map rline_string new = concat es.
Proof.
  induction 1 as [q|e es q g rest Hg Eg _ IH]; intros ->; [reflexivity|].
  rewrite flat_map_app, Eg, (IH eq_refl). reflexivity.
Qed.

(* fmt_links is only ever called on a flushed sub-renderer *)
Lemma gfmt_links_exact (p : chr -> bool) s ls :
  pfc s -> wrapping s = None ->
  pfc (fmt_links s ls) /\
  gout p (fmt_links s ls) = gout p s ++ filter p (concat (map entry_text ls)).
Proof.
  intros Hpf Hw. split; [apply fmt_links_pfc, Hpf|].
  destruct (fmt_links_spec ls s) as (new & A & B & C & _).
  unfold gout. rewrite A, C, Hw, glstream_app. cbn [gwstream]. rewrite !app_nil_r. unfold glstream at 2.
  rewrite (entry_groups_concat _ _ _ B Hpf). reflexivity.
Qed.

(* the visible characters of the footnote list: "[k]: " (the space after the colon is made by
   format!, not flagged as whitespace in the model) and the visible characters of the targets *)
Definition foot_stream (o : ropts) (L : list text) : text :=
  if o_footnotes o then filter nonws (concat (map entry_text (finalise_from 1 L))) else [].

(* (B) MAIN THEOREM, node level: any start state whose pending fragments are markers only *)
Theorem c16_affixes_node : forall d mw o n st st' s rest,
  flow n = true -> stack st = s :: rest -> sopts s = o -> pfc s ->
  render_node d mw n st = Ok st' ->
  exists s', stack st' = s' :: rest /\ sopts s' = o /\ filter_depth s' = filter_depth s /\ pfc s' /\
             gout nonws s' = gout nonws s ++ full_stream d o (filter_depth s) n (length (links st)) /\
             links st' = links st ++ all_links n.
Proof.
  intros d mw o n st st' s rest Hf Es Ho Hpf H.
  destruct (node_B_all d mw o n (filter_depth s) st st' Hf H) as [C L].
  destruct (C s rest Es Ho eq_refl Hpf) as (s' & A1 & A2 & A3 & A4 & A5).
  exists s'. repeat (split; [assumption|]). exact L.
Qed.
Print Assumptions c16_affixes_node.

(* (B) MAIN THEOREM, whole tree: the non-whitespace characters of the output, top to bottom,
   left to right, are the full stream of the tree followed by the footnote list *)
Theorem c16_affixes_tree : forall d mw o width tree s ls,
  flow tree = true ->
  render_tree d mw o width tree = Ok s -> sub_into_lines s = Ok ls ->
  filter nonws (flat_map rline_string ls) = full_stream d o 0 tree 0 ++ foot_stream o (all_links tree).
Proof.
  intros d mw o width tree s ls Hf H Hls.
  destruct (render_tree_footnotes d mw o width tree s H) as (st & body & A & B & _ & _ & Eo & F).
  rewrite (link_targets_no_table d mw o tree (flow_no_table tree Hf) width) in F.
  destruct (c16_affixes_node d mw o tree (mkrst [sub_new width o] []) st (sub_new width o) [] Hf eq_refl eq_refl eq_refl A)
    as (s' & E & _ & _ & Pb & Gb & _).
  rewrite B in E. injection E as <-. cbn [sub_new filter_depth links length] in Gb.
  change (gout nonws (mksub width o [] [] false None [] 0 0 [])) with (@nil chr) in Gb. cbn [app] in Gb.
  assert (K : pfc s /\ gout nonws s = full_stream d o 0 tree 0 ++ foot_stream o (all_links tree)).
  { unfold foot_stream. destruct (o_footnotes o).
    - destruct (all_links tree) as [|u L'] eqn:EL.
      + subst s. cbn [finalise_from map concat filter]. rewrite app_nil_r. auto.
      + destruct F as (b1 & Hb1 & ->).
        destruct (gstart_block_s nonws nonws_spacel _ _ Hb1 Pb) as [P1 E1]. rewrite app_nil_r in E1.
        destruct (gfmt_links_exact nonws b1 (finalise_from 1 (u :: L')) P1 (start_block_none _ _ Hb1))
          as [P2 E2].
        split; [exact P2|]. rewrite E2, E1, Gb. reflexivity.
    - subst s. rewrite app_nil_r. auto. }
  destruct K as [Ps Gs]. rewrite <- Gs. exact (gsub_into_lines nonws nonws_spacel _ _ Hls Ps).
Qed.
Print Assumptions c16_affixes_tree.

(* ================================================================== *)
(* 7. Non-vacuity examples and findings                                 *)
(* ================================================================== *)

Definition dx_ot : ropts := render_options cfg_trivial.        (* trivial: strikeout on, footnotes off *)
Definition dx_otf : ropts := render_options (set_footnotes cfg_trivial true).
Definition dx_labs (r : res subr) : res (list (list (N * N))) :=
  do s <- r; do ls <- sub_into_lines s;
  Ok (map (fun l => map (fun c => (cp c, lab c)) (rline_string l)) ls).

(* ---- (A): <p>ab <a href=u>cd</a> <s>x y</s> e<sup>12</sup></p>
   <table><tr><td>aa bb<td>cc<tr><td>e<td>f</table> <dl><dt>T<dd>D d</dl>
   <ul><li>one two</ul><ol><li>z</ol><h1>H</h1><blockquote>q</blockquote>, trivial decorator,
   width 9 ---- *)
Definition dx_tA : rnode :=
  cx_n (IContainer
    [ cx_n (IBlock [cx_t 30 [97;98;32]; cx_n (ILink (Al 200 [117]) [cx_t 40 [99;100]]); cx_t 45 [32];
                    cx_n (IStrikeout [cx_t 50 [120;32;121]]); cx_t 55 [32;101];
                    cx_n (ISup [cx_t 60 [49;50]])]);
      cx_n (ITable [RRow [cx_cell 70 [97;97;32;98;98]; cx_cell 80 [99;99]] cstyle0;
                    RRow [cx_cell 90 [101]; cx_cell 95 [102]] cstyle0] 2);
      cx_n (IDl [cx_n (IDt [cx_t 100 [84]]); cx_n (IDd [cx_t 110 [68;32;100]])]);
      cx_n (IUl [cx_n (IListItem [cx_t 120 [111;110;101;32;116;119;111]])]);
      cx_n (IOl 1 [cx_n (IListItem [cx_t 130 [122]])]);
      cx_n (IHeader 1 [cx_t 140 [72]]);
      cx_n (IBlockQuote [cx_t 150 [113]]) ]).

Example dx_tA_output :
  cx_show (render_tree trivial_deco 3 dx_ot 9 dx_tA) =
  Ok [[97; 98; 32; 99; 100; 32; 120; 822; 32; 121; 822]; [101; 185; 178]; [];   (* ab cd x̶ y̶ / e¹² *)
      [9472; 9472; 9472; 9472; 9472; 9516; 9472; 9472];
      [97; 97; 32; 98; 98; 9474; 99; 99];
      [9472; 9472; 9472; 9472; 9472; 9532; 9472; 9472];
      [101; 32; 32; 32; 32; 9474; 102; 32];
      [9472; 9472; 9472; 9472; 9472; 9524; 9472; 9472]; []; [84];
      [32; 32; 68; 32; 100]; [111; 110; 101; 32; 116; 119; 111]; [122]; []; [72]; []; [113]].
Proof. vm_compute. reflexivity. Qed.

(* the side condition holds with the strikeout flag (the tree has <s> and the option is on), and
   not without it *)
Example dx_tA_adm :
  triv_adm dx_ot true false false dx_tA = true /\ triv_adm dx_ot false false false dx_tA = false.
Proof. split; vm_compute; reflexivity. Qed.

Example dx_tA_theorem : forall s ls,
  render_tree trivial_deco 3 dx_ot 9 dx_tA = Ok s -> sub_into_lines s = Ok ls ->
  Forall (fun c => triv_ok true false false c = true) (flat_map rline_string ls) /\
  Permutation (filter (tvis true false false) (flat_map rline_string ls))
              (tree_stream trivial_deco 3 dx_ot dx_tA 9).
Proof.
  intros s ls H Hls. split.
  - exact (c16_trivial_chars true false false 3 dx_ot 9 dx_tA s ls eq_refl H Hls).
  - refine (c16_trivial_perm true false false 3 dx_ot 9 dx_tA s ls eq_refl _ H Hls).
    apply posw_forallb. vm_compute. reflexivity.
Qed.

(* without the <s>: the pure statement (all flags off): whitespace, document text, borders only *)
Definition dx_tA0 : rnode :=
  cx_n (IContainer
    [ cx_n (IBlock [cx_t 30 [97;98;32]; cx_n (ILink (Al 200 [117]) [cx_t 40 [99;100]]); cx_t 55 [32;101];
                    cx_n (ISup [cx_t 60 [49;50]])]);
      cx_n (ITable [RRow [cx_cell 70 [97;97;32;98;98]; cx_cell 80 [99;99]] cstyle0] 2);
      cx_n (IDl [cx_n (IDt [cx_t 100 [84]]); cx_n (IDd [cx_t 110 [68;32;100]])]) ]).
Example dx_tA0_theorem : forall s ls,
  render_tree trivial_deco 3 dx_ot 9 dx_tA0 = Ok s -> sub_into_lines s = Ok ls ->
  Forall (fun c => triv_ok false false false c = true) (flat_map rline_string ls).
Proof. intros s ls H Hls. exact (c16_trivial_chars false false false 3 dx_ot 9 dx_tA0 s ls eq_refl H Hls). Qed.
Example dx_tA0_runs : exists s, render_tree trivial_deco 3 dx_ot 9 dx_tA0 = Ok s.
Proof. eexists. vm_compute. reflexivity. Qed.

(* ---- FINDING trivial_sup_markup: the trivial decorator inherits the default
   decorate_superscript_start/end: <p>x<sup>ab</sup></p> renders "x^{ab}" - three characters
   that are neither document text, whitespace nor borders (confirmed on the implementation:
   harness `one 0 20 3 '<p>x<sup>ab</sup></p>'` prints "x^{ab}\n").  Hence flag fp. ---- *)
Definition dx_sup : rnode := cx_n (IBlock [cx_t 16 [120]; cx_n (ISup [cx_t 20 [97;98]])]).
Example trivial_sup_markup :
  dx_labs (render_tree trivial_deco 3 dx_ot 20 dx_sup) =
  Ok [[(120, 16); (94, L_deco); (123, L_deco); (97, 20); (98, 21); (125, L_deco)]] /\
  triv_adm dx_ot false false false dx_sup = false /\ triv_adm dx_ot false true false dx_sup = true.
Proof. repeat split; vm_compute; reflexivity. Qed.

(* ---- FINDING trivial_footnotes: the trivial decorator does NOT override `finalise`, and the
   "[n]" reference is written by the renderer itself, so with link_footnotes(true) it produces
   references and the footnote list: <p><a href="u">cd</a></p> renders "cd[1]", "", "[1]: u"
   (confirmed on the implementation: harness `one 0 20 3 '<p><a href="u">cd</a></p>' footnotes`
   prints "cd[1]\n\n[1]: u\n").  With the default configuration of the trivial decorator
   (footnotes off) there is no reference and no list: flag ff = false is admissible. ---- *)
Definition dx_lnk : rnode := cx_n (IBlock [cx_n (ILink (Al 200 [117]) [cx_t 40 [99;100]])]).
Example trivial_footnotes :
  cx_show (render_tree trivial_deco 3 dx_otf 20 dx_lnk) = Ok [[99; 100; 91; 49; 93]; []; [91; 49; 93; 58; 32; 117]] /\
  cx_show (render_tree trivial_deco 3 dx_ot 20 dx_lnk) = Ok [[99; 100]] /\
  triv_adm dx_otf false false false dx_lnk = false /\ triv_adm dx_otf false false true dx_lnk = true /\
  triv_adm dx_ot false false false dx_lnk = true.
Proof. repeat split; vm_compute; reflexivity. Qed.

(* ---- (B): a decorator with non-ASCII and wide affixes:
   link ‹ ›, em § §, strong 〖 〗 (width 2), strikeout ~ ~, code ` `, image « »;
   <p>ab <em>c <strong>de</strong> f</em> <a href=u>g<code>h</code></a> <s>i <em>j</em></s>
   <img src=s alt=pic></p>, footnotes and unicode strikeout on, width 12 ---- *)
Definition dx_c1 (c : N) : chr := mkchr c (Some 1) false 0.
Definition dx_dB : deco :=
  custom_deco [dx_c1 8249] [dx_c1 8250] [dx_c1 167] [dx_c1 167]
              [mkchr 12310 (Some 2) false 0] [mkchr 12311 (Some 2) false 0]
              [dx_c1 126] [dx_c1 126] [dx_c1 96] [dx_c1 96] [dx_c1 171] [dx_c1 187] [] [] [] [].
Definition dx_tB : rnode :=
  cx_n (IBlock [cx_t 16 [97;98;32];
                cx_n (IEm [cx_t 20 [99;32]; cx_n (IStrong [cx_t 30 [100;101]]); cx_t 35 [32;102]]);
                cx_t 40 [32];
                cx_n (ILink (Al 200 [117]) [cx_t 50 [103]; cx_n (ICode [cx_t 55 [104]])]); cx_t 60 [32];
                cx_n (IStrikeout [cx_t 70 [105;32]; cx_n (IEm [cx_t 75 [106]])]); cx_t 80 [32];
                cx_n (IImg (Al 210 [115]) (Al 90 [112;105;99]))]).

Example dx_tB_output :
  cx_show (render_tree dx_dB 3 dx_otf 12 dx_tB) =
  Ok [[97; 98; 32; 167; 99; 32; 12310; 100; 101; 12311];                   (* ab §c 〖de〗 *)
      [102; 167; 32; 8249; 103; 96; 104; 96; 8250; 91; 49; 93];            (* f§ ‹g`h`›[1] *)
      [126; 105; 822; 32; 167; 822; 106; 822; 167; 822; 126];              (* ~i̶ §̶j̶§̶~ *)
      [171; 112; 105; 99; 187]; []; [91; 49; 93; 58; 32; 117]].            (* «pic» / [1]: u *)
Proof. vm_compute. reflexivity. Qed.

Example dx_tB_stream :
  flow dx_tB = true /\
  cps (full_stream dx_dB dx_otf 0 dx_tB 0) =
  [97; 98; 167; 99; 12310; 100; 101; 12311; 102; 167; 8249; 103; 96; 104; 96; 8250; 91; 49; 93;
   126; 105; 822; 167; 822; 106; 822; 167; 822; 126; 171; 112; 105; 99; 187] /\
  cps (foot_stream dx_otf (all_links dx_tB)) = [91; 49; 93; 58; 32; 117].
Proof. repeat split; vm_compute; reflexivity. Qed.

Example dx_tB_theorem : forall s ls,
  render_tree dx_dB 3 dx_otf 12 dx_tB = Ok s -> sub_into_lines s = Ok ls ->
  filter nonws (flat_map rline_string ls) =
  full_stream dx_dB dx_otf 0 dx_tB 0 ++ foot_stream dx_otf (all_links dx_tB).
Proof. intros s ls H Hls. exact (c16_affixes_tree dx_dB 3 dx_otf 12 dx_tB s ls eq_refl H Hls). Qed.

(* ---- OBSERVATIONS about "verbatim" (none loses, duplicates or reorders a visible character:
   that is the theorem; they concern whitespace, width-less characters and strikeout) ---- *)
Definition dx_sp : chr := mkchr 32 (Some 1) true 0.
Definition dx_abc : rnode := cx_n (IBlock [cx_t 16 [97]; cx_n (IEm [cx_t 20 [98]]); cx_t 30 [99]]).
(* (1) whitespace inside an affix is treated like document whitespace: runs collapse, and a
   whitespace-only affix at the start of a line disappears: em = "<  " ... "  >" gives "a< b >c";
   em = " " ... " " gives "a b c" but "b c" at the start of the block *)
Example affix_whitespace_collapsed :
  cx_show (render_tree (custom_deco [] [] [dx_c1 60; dx_sp; dx_sp] [dx_sp; dx_sp; dx_c1 62]
                                    [] [] [] [] [] [] [] [] [] [] [] []) 3 dx_ot 20 dx_abc)
  = Ok [[97; 60; 32; 98; 32; 62; 99]] /\
  cx_show (render_tree (custom_deco [] [] [dx_sp] [dx_sp] [] [] [] [] [] [] [] [] [] [] [] []) 3 dx_ot 20
                       (cx_n (IBlock [cx_n (IEm [cx_t 20 [98]]); cx_t 30 [99]])))
  = Ok [[98; 32; 99]].
Proof. split; vm_compute; reflexivity. Qed.
(* (2) an affix character without a display width (a control character: UnicodeWidthChar::width
   = None) is dropped silently, like such a character in document text: em = "\a<" ... ">\a" *)
Definition dx_bel : chr := mkchr 7 None false 0.
Example affix_control_char_dropped :
  cx_show (render_tree (custom_deco [] [] [dx_bel; dx_c1 60] [dx_c1 62; dx_bel]
                                    [] [] [] [] [] [] [] [] [] [] [] []) 3 dx_ot 20 dx_abc)
  = Ok [[97; 60; 98; 62; 99]].
Proof. vm_compute. reflexivity. Qed.
(* (3) with unicode strikeout the affixes (and the footnote reference) of elements nested in
   <s>/<del> are struck too: every affix character of positive width is followed by U+0336
   (third line of dx_tB_output: §̶j̶§̶).  The strikeout's own affixes are not. *)
(* (4) an affix is part of the word it touches: it is never separated from the element text by a
   line break unless the word is longer than the line (then the hard cut may fall anywhere, also
   inside a multi-character affix); a wide affix that does not fit at all makes the render
   TooNarrow like a wide document character *)
Example affix_hard_cut :
  cx_show (render_tree (custom_deco [] [] [dx_c1 60] [dx_c1 62] [] [] [] [] [] [] [] [] [] [] [] []) 3 dx_ot 3
                       (cx_n (IBlock [cx_t 16 [97;97;32]; cx_n (IEm [cx_t 20 [98;98;98]]); cx_t 30 [32;99]])))
  = Ok [[97; 97]; [60; 98; 98]; [98; 62]; [99]] /\
  cx_show (render_tree (custom_deco [] [] [mkchr 12310 (Some 2) false 0] [] [] [] [] [] [] [] [] [] [] [] [] [])
                       3 dx_ot 1 (cx_n (IBlock [cx_n (IEm [cx_t 20 [98]])])))
  = TooNarrow.
Proof. split; vm_compute; reflexivity. Qed.

Print Assumptions node_A_all.
Print Assumptions tree_free.
Print Assumptions node_B_all.
Print Assumptions dx_tA_theorem.
Print Assumptions dx_tB_theorem.

(* ---- the public routes (Api.v) with the trivial decorator ---- *)
Theorem c16_trivial_string_from_read : forall fs fp ff ist dr (c : config) doc width tree t,
  c_deco c = trivial_deco -> to_render_tree ist dr c doc = Ok tree ->
  triv_adm (render_options c) fs fp ff tree = true ->
  string_from_read ist dr c doc width = Ok t ->
  Forall (fun x => triv_ok fs fp ff x = true) t.
Proof.
  intros fs fp ff ist dr c doc width tree t Hd Ht Ha H. unfold string_from_read in H. rewrite Ht in H.
  cbn [bind] in H. bind_inv H s Hs. unfold render_with_context in Hs.
  destruct (width =? 0); [discriminate|]. rewrite Hd in Hs.
  exact (c16_trivial_string fs fp ff _ _ _ _ _ _ Ha Hs H).
Qed.
Print Assumptions c16_trivial_string_from_read.

Theorem c16_trivial_lines_from_read : forall fs fp ff ist dr (c : config) doc width tree tls,
  c_deco c = trivial_deco -> to_render_tree ist dr c doc = Ok tree ->
  triv_adm (render_options c) fs fp ff tree = true ->
  lines_from_read ist dr c doc width = Ok tls ->
  Forall (fun x => triv_ok fs fp ff x = true) (flat_map tl_string tls).
Proof.
  intros fs fp ff ist dr c doc width tree tls Hd Ht Ha H. unfold lines_from_read in H. rewrite Ht in H.
  cbn [bind] in H. bind_inv H s Hs. unfold render_with_context in Hs.
  destruct (width =? 0); [discriminate|]. bind_inv H ls Hls. ok_inv H. rewrite Hd in Hs.
  rewrite flat_map_concat_map, map_map, <- flat_map_concat_map.
  rewrite (flat_map_ext _ _ tl_string_into_tagged).
  exact (c16_trivial_chars fs fp ff _ _ _ _ _ _ Ha Hs Hls).
Qed.
Print Assumptions c16_trivial_lines_from_read.

(* <p>a <s>b</s></p><table><tr><td>c<td>d</table> through string_from_read with cfg_trivial *)
Definition dx_dom : list node :=
  [cx_el [112] [NText (Al 16 [97;32]); cx_el [115] [NText (Al 30 [98])]];
   cx_el [116;97;98;108;101] [cx_el [116;98;111;100;121]
     [cx_el [116;114] [cx_el [116;100] [NText (Al 40 [99])]; cx_el [116;100] [NText (Al 50 [100])]]]]].
Example dx_dom_string :
  option_map cps (match string_from_read cx_ist cx_dr cfg_trivial dx_dom 20 with Ok t => Some t | _ => None end)
  = Some [97; 32; 98; 822; 10; 10; 9472; 9516; 9472; 10; 99; 9474; 100; 10; 9472; 9524; 9472; 10].
Proof. vm_compute. reflexivity. Qed.
Example dx_dom_theorem : forall tree t,
  to_render_tree cx_ist cx_dr cfg_trivial dx_dom = Ok tree ->
  string_from_read cx_ist cx_dr cfg_trivial dx_dom 20 = Ok t ->
  Forall (fun x => triv_ok true false false x = true) t.
Proof.
  intros tree t Ht H.
  refine (c16_trivial_string_from_read true false false cx_ist cx_dr cfg_trivial dx_dom 20 tree t eq_refl Ht _ H).
  vm_compute in Ht. injection Ht as <-. vm_compute. reflexivity.
Qed.

(* ================================================================== *)
(* SUMMARY                                                              *)
(* ==================================================================

   METHOD.  RenderConserve's stream development is redone for an ARBITRARY character class p that
   rejects the spaces the renderer makes (p (spacel l) = false; the WrappedBlock layer of
   Proofs/Conserve.v is already generic in p):  gout p s = the p-characters of the lines of the
   sub-renderer s followed by those of its open block;  opG p o k k' f t = "f, run on a
   sub-renderer with options o and strikeout-filter depth k, appends exactly the p-characters t
   and leaves depth k'";  Cr p o k k' st st' t = the same for the top of the render stack.
   Two instances:  p = triv_bad (everything the trivial decorator must NOT output; all t = [],
   any tree, tables included: sections 3-5)  and  p = nonws (every visible character; trees
   without prefixed blocks and tables: section 6).

   (A) TRIVIAL DECORATOR
     triv_ok fs fp ff c := ws c || is_pspace c || (16 <=? lab c) || is_border c
                           || (fs && is_strike c) || (fp && is_supaffix c) || (ff && is_foot c)
       whitespace | a made U+0020 (the "  " before <dd>, which the model does not flag ws) |
       document character | L_border-labelled ─ ┴ ┬ ┼ │ "/" | U+0336 | "^{" "}" | L_foot-labelled
     triv_adm o fs fp ff tree (bool) := every text leaf / alt text of the tree consists of
       whitespace and document-labelled characters (CSS `content` text is labelled L_deco by
       Dom.v and is therefore NOT admissible: it is not produced by the decorator but it is not
       document text either);  a strikeout node needs o_strike o = false or fs;  a <sup> that is
       not the all-digits special case needs fp;  a link needs o_footnotes o = false or ff.
     c16_trivial_chars:  triv_adm o fs fp ff tree = true ->
         render_tree trivial_deco mw o width tree = Ok s -> sub_into_lines s = Ok ls ->
         Forall (fun c => triv_ok fs fp ff c = true) (flat_map rline_string ls)
     c16_trivial_string (sub_into_string), c16_trivial_string_from_read / _lines_from_read (Api).
     c16_trivial_perm:   ... Forall posw (tree_stream ..) ->
         Permutation (filter (tvis fs fp ff) output) (tree_stream trivial_deco mw o tree width)
     c16_trivial_exact:  ... no_table tree = true -> filter (tvis fs fp ff) output = leaf_stream tree
       (tvis = not whitespace, not border, not one of the flagged exceptions; on an output that
        satisfies triv_ok it coincides with RenderConserve.docp: filter_tvis_docp).
     With fs = fp = ff = false this is the property's sentence verbatim.  The generic form
     (tree_free / node_A_all, Section AllFree) holds for ANY decorator d and class p such that the
     prefixes of d and all texts handed to add_inline_text are p-free: "the renderer invents
     nothing but spaces, borders, U+0336 and footnote text".
     All trees (tables, lists, quotes, headings, dd, nested), all options, all widths; induction
     over render_node (node_A_all); no hypothesis beyond the decidable triv_adm.

   (B) EVERY DECORATOR, flow trees (flow n: text, img, br, markers, a, em, strong, s, code, sup,
       span, p, div, li-content, dl, dt; NOT heading/quote/ul/ol/dd/table)
     full_stream d o k n nl  (Section FullStream): start affix, children, end affix, recursively;
       every text t contributes vis k t = kept (apply_filters k t) (kept: not whitespace, has a
       width entry; k U+0336 marks after every character of positive width inside k nested
       unicode strikeouts); link with footnotes on: "[m]", m = nl + 1 + links inside the link.
     c16_affixes_node:  flow n = true -> stack st = s :: rest -> sopts s = o -> pfc s ->
         render_node d mw n st = Ok st' ->
         exists s', stack st' = s' :: rest /\ sopts s' = o /\ filter_depth s' = filter_depth s /\
                    pfc s' /\ gout nonws s' = gout nonws s ++ full_stream d o (filter_depth s) n
                                                                 (length (links st)) /\
                    links st' = links st ++ all_links n
     c16_affixes_tree:  flow tree = true -> render_tree d mw o width tree = Ok s ->
         sub_into_lines s = Ok ls ->
         filter nonws (flat_map rline_string ls) =
         full_stream d o 0 tree 0 ++ foot_stream o (all_links tree)
     i.e. every visible character of every affix appears exactly once, at its place, in order,
     for any strings (non-ASCII, wide, zero-width), any width, any wrapping (hard cuts included),
     all options.  Not `_partial`: no restriction on line cuts.  Hypothesis flow: inside a
     prefixed block the prefix is repeated on every line, so the stream depends on the line
     breaks (that is C07, Proofs/Compose.v); side-by-side table rows interleave cells (C03).
     pfc s (node level only): pending_frags of the start state holds markers only (true of every
     reachable state).

   FINDINGS (each with an Example above)
     trivial_sup_markup   the trivial decorator prints "^{" "}" around a non-digit <sup>
                          (inherits the default decorate_superscript_start, _end); confirmed on the
                          implementation: <p>x<sup>ab</sup></p> -> "x^{ab}".
     trivial_footnotes    the trivial decorator does not override finalise and the "[n]"
                          reference is renderer-made: with link_footnotes(true) it prints
                          references and the list; confirmed: "cd[1]\n\n[1]: u\n".  (Default
                          configuration of the trivial decorator: footnotes off -> nothing.)
     unicode strikeout    adds U+0336 with the trivial decorator too (by design: flag fs).
     affix_whitespace_collapsed / affix_control_char_dropped: whitespace in an affix is
                          collapsed/dropped like document whitespace and width-less characters
                          are dropped, so "verbatim" holds for the visible characters only.
     affixes nested in <s> are struck (dx_tB_output) - the affix is altered, not lost.
     No case of a lost, duplicated or reordered visible affix character exists (theorem B);
     an end affix is never separated from its element except by a hard cut (affix_hard_cut).

   NOT PROVED HERE
     - (B) for prefixed blocks and tables (covered, for the document characters, by C03/C07);
     - positions of the whitespace around affixes (C13 territory);
     - anything about Dom.v (the theorems start from the render tree). *)
