(* Proofs/DomBlocks.v -- the DOM -> render tree step (`process` / `build_element`) for the block
   elements themselves: headers h1..h6, blockquote/ul/div/p, ol/dl (filters), tr/td/th
   (cells, colspan).  Everything is stated about the real `process`, for all inputs. *)
From H2T Require Import Base Tagged Wrap Css Dom Api CssParse.
From H2T Require Import Proofs.Prune.
From Coq Require Import Lia ZifyN ZifyBool ZifyNat.
From Coq Require String Ascii.
Local Arguments N.add : simpl never.
Local Arguments N.sub : simpl never.
Local Arguments N.leb : simpl never.
Local Arguments N.ltb : simpl never.
Local Arguments N.eqb : simpl never.
Local Arguments N.max : simpl never.
Local Arguments N.min : simpl never.

(* names as lists of code points *)
Module Nm.
Import String Ascii.
Fixpoint lN (s : string) : list N :=
  match s with EmptyString => [] | String a s' => N_of_ascii a :: lN s' end.
Local Open Scope string_scope.
Definition h1 := lN "h1". Definition h2 := lN "h2". Definition h3 := lN "h3".
Definition h4 := lN "h4". Definition h5 := lN "h5". Definition h6 := lN "h6".
Definition blockquote := lN "blockquote". Definition ul := lN "ul". Definition div := lN "div".
Definition p := lN "p". Definition ol := lN "ol". Definition dl := lN "dl".
Definition tr := lN "tr". Definition td := lN "td". Definition th := lN "th".
Definition table := lN "table". Definition thead := lN "thead". Definition tbody := lN "tbody".
End Nm.

(* ---------------------------------------------------------------------- *)
(* 0. small definitions                                                     *)
(* ---------------------------------------------------------------------- *)
(* display: none *)
Definition hidden_style (c : cstyle) : bool :=
  match ws_val (c_display (cs_core c)) with Some true => true | _ => false end.

(* what `process` does after the element-specific part: ::before/::after and the fragment *)
Definition finish (computed : cstyle) (html : bool) (name : text) (attrs : list (text * text))
           (base : option rnode) : option rnode :=
  let wrapped := match base with
                 | Some nd => Some (wrap_pseudo computed nd)
                 | None => None
                 end in
  match fragment_of name (html && names [[97]] name) attrs with
  | None => wrapped
  | Some frag =>
    match wrapped with
    | None => Some (rn_new (IFragStart frag))
    | Some nd => Some (insert_child (rn_new (IFragStart frag)) nd true)
    end
  end.

(* the elements that never look at their children *)
Definition childless (name : text) : bool :=
  names [[105;109;103]] name || names [[98;114]] name ||
  names [[108;105;110;107]; [109;101;116;97]; [104;114]; [115;99;114;105;112;116];
         [115;116;121;108;101]; [104;101;97;100]] name.

(* no ::before / ::after content and no id / name fragment *)
Definition plain (computed : cstyle) (name : text) (attrs : list (text * text)) : Prop :=
  cs_before computed = None /\ cs_after computed = None /\
  fragment_of name (names [[97]] name) attrs = None.

Lemma finish_plain : forall c name attrs base,
  plain c name attrs -> finish c true name attrs base = base.
Proof.
  intros c name attrs base (Hb & Ha & Hf). unfold finish. cbn [andb]. rewrite Hf.
  destruct base as [nd|]; [|reflexivity]. unfold wrap_pseudo. rewrite Hb, Ha. reflexivity.
Qed.

Definition ol_start (attrs : list (text * text)) : Z :=
  match find_attr attrs s_start with
  | Some v => match parse_i64 v with Some z => z | None => 1%Z end
  | None => 1%Z
  end.
Definition is_li (i : rinfo) : bool := match i with IListItem _ => true | _ => false end.
Definition is_dtdd (i : rinfo) : bool := match i with IDt _ | IDd _ => true | _ => false end.
Definition cells_of (cs : list rnode) : list rcell :=
  flat_map (fun n => match rn_info n with ITableCell c => [c] | _ => [] end) cs.

Lemma names_cps : forall l name, names l name = existsb (lN_eqb (cps name)) l.
Proof. reflexivity. Qed.

(* ---------------------------------------------------------------------- *)
(* 1. heading_level                                                         *)
(* ---------------------------------------------------------------------- *)
Lemma heading_level_spec : forall name,
  heading_level name =
  match cps name with
  | [a; d] => if (a =? 104) && (49 <=? d) && (d <=? 54) then Some (d - 48) else None
  | _ => None
  end.
Proof.
  intros name. unfold heading_level.
  destruct (cps name) as [|a [|d [|e l]]]; try reflexivity.
  - destruct a as [|q]; [reflexivity|].
    do 7 (try (destruct q as [q|q|]; try reflexivity)).
  - destruct a as [|q]; [reflexivity|].
    do 7 (try (destruct q as [q|q|]; try reflexivity)).
  - destruct a as [|q]; [reflexivity|].
    do 7 (try (destruct q as [q|q|]; try reflexivity)).
Qed.

Lemma heading_level_some : forall name n,
  heading_level name = Some n <->
  exists d, cps name = [104; d] /\ 49 <= d <= 54 /\ n = d - 48.
Proof.
  intros name n. rewrite heading_level_spec. split.
  - destruct (cps name) as [|a [|d [|e l]]]; try discriminate.
    destruct ((a =? 104) && (49 <=? d) && (d <=? 54)) eqn:E; [|discriminate].
    intros H. injection H as H. exists d. repeat split; try lia. f_equal. lia.
  - intros (d & -> & Hd & ->).
    replace ((104 =? 104) && (49 <=? d) && (d <=? 54)) with true by lia. reflexivity.
Qed.

(* all six, exactly *)
Lemma heading_level_six : forall name,
  (cps name = Nm.h1 -> heading_level name = Some 1) /\
  (cps name = Nm.h2 -> heading_level name = Some 2) /\
  (cps name = Nm.h3 -> heading_level name = Some 3) /\
  (cps name = Nm.h4 -> heading_level name = Some 4) /\
  (cps name = Nm.h5 -> heading_level name = Some 5) /\
  (cps name = Nm.h6 -> heading_level name = Some 6).
Proof.
  intros name. rewrite heading_level_spec. repeat split; intros ->; reflexivity.
Qed.

Lemma heading_level_range : forall name n, heading_level name = Some n ->
  (n = 1 /\ cps name = Nm.h1) \/ (n = 2 /\ cps name = Nm.h2) \/ (n = 3 /\ cps name = Nm.h3) \/
  (n = 4 /\ cps name = Nm.h4) \/ (n = 5 /\ cps name = Nm.h5) \/ (n = 6 /\ cps name = Nm.h6).
Proof.
  intros name n H. apply heading_level_some in H. destruct H as (d & Hc & Hd & ->).
  rewrite Hc.
  assert (Hd' : d = 49 \/ d = 50 \/ d = 51 \/ d = 52 \/ d = 53 \/ d = 54) by lia.
  destruct Hd' as [->|[->|[->|[->|[->| ->]]]]]; vm_compute; tauto.
Qed.

(* ---------------------------------------------------------------------- *)
(* 2. build_element by element name                                         *)
(* ---------------------------------------------------------------------- *)
Definition noempty (cs : list rnode) (i : rinfo) (computed : cstyle) : res (option rnode) :=
  match cs with [] => Ok None | _ => Ok (Some (RN i computed)) end.

Ltac be_name H :=
  unfold build_element; rewrite ?heading_level_spec, ?names_cps, H; reflexivity.

Lemma be_header : forall name attrs c cs n, heading_level name = Some n ->
  build_element name attrs c cs = Ok (Some (RN (IHeader n cs) c)).
Proof.
  intros name attrs c cs n H. apply heading_level_range in H.
  destruct H as [[-> H]|[[-> H]|[[-> H]|[[-> H]|[[-> H]|[-> H]]]]]]; be_name H.
Qed.

Lemma be_blockquote : forall name attrs c cs, cps name = Nm.blockquote ->
  build_element name attrs c cs = noempty cs (IBlockQuote cs) c.
Proof. intros name attrs c cs H. be_name H. Qed.
Lemma be_ul : forall name attrs c cs, cps name = Nm.ul ->
  build_element name attrs c cs = noempty cs (IUl cs) c.
Proof. intros name attrs c cs H. be_name H. Qed.
Lemma be_div : forall name attrs c cs, cps name = Nm.div ->
  build_element name attrs c cs = noempty cs (IDiv cs) c.
Proof. intros name attrs c cs H. be_name H. Qed.
Lemma be_p : forall name attrs c cs, cps name = Nm.p ->
  build_element name attrs c cs = noempty cs (IBlock cs) c.
Proof. intros name attrs c cs H. be_name H. Qed.
(* NOTE: the emptiness test is on ALL processed children, the filter comes after it *)
Lemma be_ol : forall name attrs c cs, cps name = Nm.ol ->
  build_element name attrs c cs = noempty cs (IOl (ol_start attrs) (filter_info is_li cs)) c.
Proof. intros name attrs c cs H. be_name H. Qed.
Lemma be_dl : forall name attrs c cs, cps name = Nm.dl ->
  build_element name attrs c cs = noempty cs (IDl (filter_info is_dtdd cs)) c.
Proof. intros name attrs c cs H. be_name H. Qed.
Lemma be_tr : forall name attrs c cs, cps name = Nm.tr ->
  build_element name attrs c cs = Ok (Some (RN (ITableRow (RRow (cells_of cs) c)) c)).
Proof. intros name attrs c cs H. be_name H. Qed.
Lemma be_td : forall name attrs c cs, cps name = Nm.td \/ cps name = Nm.th ->
  build_element name attrs c cs = Ok (Some (RN (ITableCell (RCell (td_colspan attrs) cs c)) c)).
Proof. intros name attrs c cs [H|H]; be_name H. Qed.

(* any other name is not a header; only td / th give a cell *)
Definition is_header (n : rnode) : bool := match rn_info n with IHeader _ _ => true | _ => false end.
Definition is_cell (n : rnode) : bool := match rn_info n with ITableCell _ => true | _ => false end.

Lemma be_inv : forall name attrs c cs nd,
  build_element name attrs c cs = Ok (Some nd) ->
  (is_header nd = true -> exists n, heading_level name = Some n /\ nd = RN (IHeader n cs) c) /\
  (is_cell nd = true -> names [[116;104]; [116;100]] name = true).
Proof.
  intros name attrs c cs nd. unfold build_element.
  repeat match goal with
  | |- context [if names ?l name then _ else _] => destruct (names l name) eqn:?
  | |- context [match heading_level name with _ => _ end] => destruct (heading_level name) eqn:?
  end;
  try (destruct cs; intros H; try discriminate H; injection H as <-;
       split; intros H1; try discriminate H1; eauto; fail).
  - destruct (find_attr attrs s_href); [destruct (existsb _ cs)|]; intros H; try discriminate H;
      injection H as <-; split; intros H1; discriminate H1.
  - destruct (flat_map _ cs); [discriminate|].
    destruct (render_table_new _) as [t| | |] eqn:E; cbn [bind]; try discriminate.
    unfold render_table_new in E.
    destruct (all_positions _); cbn [bind] in E; try discriminate E.
    destruct (remap_rows _ _); cbn [bind] in E; try discriminate E. injection E as <-.
    intros H; injection H as <-; split; intros H1; discriminate H1.
  - destruct cs; [discriminate|]. destruct (tbody_rows _); cbn [bind]; try discriminate.
    intros H; injection H as <-; split; intros H1; discriminate H1.
Qed.
