(* Proofs/DomBlocks.v -- the DOM -> render tree step (`process` / `build_element`) for the block
   elements themselves: headers h1..h6, blockquote/ul/div/p, ol/dl (filters), tr/td/th
   (cells, colspan).  Everything is stated about the real `process`, for all inputs. *)
From H2T Require Import Base Tagged Wrap Css Dom Api CssParse.
From H2T Require Import Proofs.Prune.
From Coq Require Import Lia ZifyN ZifyBool ZifyNat.
From Coq Require String Ascii.
Local Arguments N.add : simpl never.
Local Arguments N.sub : simpl never.
Local Arguments N.leb : simpl never.
Local Arguments N.ltb : simpl never.
Local Arguments N.eqb : simpl never.
Local Arguments N.max : simpl never.
Local Arguments N.min : simpl never.

(* names as lists of code points *)
Module Nm.
Import String Ascii.
Fixpoint lN (s : string) : list N :=
  match s with EmptyString => [] | String a s' => N_of_ascii a :: lN s' end.
Local Open Scope string_scope.
Definition h1 := lN "h1". Definition h2 := lN "h2". Definition h3 := lN "h3".
Definition h4 := lN "h4". Definition h5 := lN "h5". Definition h6 := lN "h6".
Definition blockquote := lN "blockquote". Definition ul := lN "ul". Definition div := lN "div".
Definition p := lN "p". Definition ol := lN "ol". Definition dl := lN "dl".
Definition tr := lN "tr". Definition td := lN "td". Definition th := lN "th".
Definition table := lN "table". Definition thead := lN "thead". Definition tbody := lN "tbody".
End Nm.

(* ---------------------------------------------------------------------- *)
(* 0. small definitions                                                     *)
(* ---------------------------------------------------------------------- *)
(* display: none *)
Definition hidden_style (c : cstyle) : bool :=
  match ws_val (c_display (cs_core c)) with Some true => true | _ => false end.

(* what `process` does after the element-specific part: ::before/::after and the fragment *)
Definition finish (computed : cstyle) (html : bool) (name : text) (attrs : list (text * text))
           (base : option rnode) : option rnode :=
  let wrapped := match base with
                 | Some nd => Some (wrap_pseudo computed nd)
                 | None => None
                 end in
  match fragment_of name (html && names [[97]] name) attrs with
  | None => wrapped
  | Some frag =>
    match wrapped with
    | None => Some (rn_new (IFragStart frag))
    | Some nd => Some (insert_child (rn_new (IFragStart frag)) nd true)
    end
  end.

(* the elements that never look at their children *)
Definition childless (name : text) : bool :=
  names [[105;109;103]] name || names [[98;114]] name ||
  names [[108;105;110;107]; [109;101;116;97]; [104;114]; [115;99;114;105;112;116];
         [115;116;121;108;101]; [104;101;97;100]] name.

(* no ::before / ::after content and no id / name fragment *)
Definition plain (computed : cstyle) (name : text) (attrs : list (text * text)) : Prop :=
  cs_before computed = None /\ cs_after computed = None /\
  fragment_of name (names [[97]] name) attrs = None.

Lemma finish_plain : forall c name attrs base,
  plain c name attrs -> finish c true name attrs base = base.
Proof.
  intros c name attrs base (Hb & Ha & Hf). unfold finish. cbn [andb]. rewrite Hf.
  destruct base as [nd|]; [|reflexivity]. unfold wrap_pseudo. rewrite Hb, Ha. reflexivity.
Qed.

Definition ol_start (attrs : list (text * text)) : Z :=
  match find_attr attrs s_start with
  | Some v => match parse_i64 v with Some z => z | None => 1%Z end
  | None => 1%Z
  end.
Definition is_li (i : rinfo) : bool := match i with IListItem _ => true | _ => false end.
Definition is_dtdd (i : rinfo) : bool := match i with IDt _ | IDd _ => true | _ => false end.
Definition cells_of (cs : list rnode) : list rcell :=
  flat_map (fun n => match rn_info n with ITableCell c => [c] | _ => [] end) cs.

Lemma names_cps : forall l name, names l name = existsb (lN_eqb (cps name)) l.
Proof. reflexivity. Qed.

(* ---------------------------------------------------------------------- *)
(* 1. heading_level                                                         *)
(* ---------------------------------------------------------------------- *)
Lemma heading_level_spec : forall name,
  heading_level name =
  match cps name with
  | [a; d] => if (a =? 104) && (49 <=? d) && (d <=? 54) then Some (d - 48) else None
  | _ => None
  end.
Proof.
  intros name. unfold heading_level.
  destruct (cps name) as [|a [|d [|e l]]]; try reflexivity.
  - destruct a as [|q]; [reflexivity|].
    do 7 (try (destruct q as [q|q|]; try reflexivity)).
  - destruct a as [|q]; [reflexivity|].
    do 7 (try (destruct q as [q|q|]; try reflexivity)).
  - destruct a as [|q]; [reflexivity|].
    do 7 (try (destruct q as [q|q|]; try reflexivity)).
Qed.

Lemma heading_level_some : forall name n,
  heading_level name = Some n <->
  exists d, cps name = [104; d] /\ 49 <= d <= 54 /\ n = d - 48.
Proof.
  intros name n. rewrite heading_level_spec. split.
  - destruct (cps name) as [|a [|d [|e l]]]; try discriminate.
    destruct ((a =? 104) && (49 <=? d) && (d <=? 54)) eqn:E; [|discriminate].
    intros H. injection H as H. exists d. repeat split; try lia. f_equal. lia.
  - intros (d & -> & Hd & ->).
    replace ((104 =? 104) && (49 <=? d) && (d <=? 54)) with true by lia. reflexivity.
Qed.

(* all six, exactly *)
Lemma heading_level_six : forall name,
  (cps name = Nm.h1 -> heading_level name = Some 1) /\
  (cps name = Nm.h2 -> heading_level name = Some 2) /\
  (cps name = Nm.h3 -> heading_level name = Some 3) /\
  (cps name = Nm.h4 -> heading_level name = Some 4) /\
  (cps name = Nm.h5 -> heading_level name = Some 5) /\
  (cps name = Nm.h6 -> heading_level name = Some 6).
Proof.
  intros name. rewrite heading_level_spec. repeat split; intros ->; reflexivity.
Qed.

Lemma heading_level_range : forall name n, heading_level name = Some n ->
  (n = 1 /\ cps name = Nm.h1) \/ (n = 2 /\ cps name = Nm.h2) \/ (n = 3 /\ cps name = Nm.h3) \/
  (n = 4 /\ cps name = Nm.h4) \/ (n = 5 /\ cps name = Nm.h5) \/ (n = 6 /\ cps name = Nm.h6).
Proof.
  intros name n H. apply heading_level_some in H. destruct H as (d & Hc & Hd & ->).
  rewrite Hc.
  assert (Hd' : d = 49 \/ d = 50 \/ d = 51 \/ d = 52 \/ d = 53 \/ d = 54) by lia.
  destruct Hd' as [->|[->|[->|[->|[->| ->]]]]]; vm_compute; tauto.
Qed.

(* ---------------------------------------------------------------------- *)
(* 2. build_element by element name                                         *)
(* ---------------------------------------------------------------------- *)
Definition noempty (cs : list rnode) (i : rinfo) (computed : cstyle) : res (option rnode) :=
  match cs with [] => Ok None | _ => Ok (Some (RN i computed)) end.

Ltac be_name H :=
  unfold build_element; rewrite ?heading_level_spec, ?names_cps, H; reflexivity.

Lemma be_header : forall name attrs c cs n, heading_level name = Some n ->
  build_element name attrs c cs = Ok (Some (RN (IHeader n cs) c)).
Proof.
  intros name attrs c cs n H. apply heading_level_range in H.
  destruct H as [[-> H]|[[-> H]|[[-> H]|[[-> H]|[[-> H]|[-> H]]]]]]; be_name H.
Qed.

Lemma be_blockquote : forall name attrs c cs, cps name = Nm.blockquote ->
  build_element name attrs c cs = noempty cs (IBlockQuote cs) c.
Proof. intros name attrs c cs H. be_name H. Qed.
Lemma be_ul : forall name attrs c cs, cps name = Nm.ul ->
  build_element name attrs c cs = noempty cs (IUl cs) c.
Proof. intros name attrs c cs H. be_name H. Qed.
Lemma be_div : forall name attrs c cs, cps name = Nm.div ->
  build_element name attrs c cs = noempty cs (IDiv cs) c.
Proof. intros name attrs c cs H. be_name H. Qed.
Lemma be_p : forall name attrs c cs, cps name = Nm.p ->
  build_element name attrs c cs = noempty cs (IBlock cs) c.
Proof. intros name attrs c cs H. be_name H. Qed.
(* NOTE: the emptiness test is on ALL processed children, the filter comes after it *)
Lemma be_ol : forall name attrs c cs, cps name = Nm.ol ->
  build_element name attrs c cs = noempty cs (IOl (ol_start attrs) (filter_info is_li cs)) c.
Proof. intros name attrs c cs H. be_name H. Qed.
Lemma be_dl : forall name attrs c cs, cps name = Nm.dl ->
  build_element name attrs c cs = noempty cs (IDl (filter_info is_dtdd cs)) c.
Proof. intros name attrs c cs H. be_name H. Qed.
Lemma be_tr : forall name attrs c cs, cps name = Nm.tr ->
  build_element name attrs c cs = Ok (Some (RN (ITableRow (RRow (cells_of cs) c)) c)).
Proof. intros name attrs c cs H. be_name H. Qed.
Lemma be_td : forall name attrs c cs, cps name = Nm.td \/ cps name = Nm.th ->
  build_element name attrs c cs = Ok (Some (RN (ITableCell (RCell (td_colspan attrs) cs c)) c)).
Proof. intros name attrs c cs [H|H]; be_name H. Qed.

(* any other name is not a header; only td / th give a cell *)
Definition is_header (n : rnode) : bool := match rn_info n with IHeader _ _ => true | _ => false end.
Definition is_cell (n : rnode) : bool := match rn_info n with ITableCell _ => true | _ => false end.

Lemma be_inv : forall name attrs c cs nd,
  build_element name attrs c cs = Ok (Some nd) ->
  (is_header nd = true -> exists n, heading_level name = Some n /\ nd = RN (IHeader n cs) c) /\
  (is_cell nd = true -> names [[116;104]; [116;100]] name = true).
Proof.
  intros name attrs c cs nd. unfold build_element.
  repeat match goal with
  | |- context [if names ?l name then _ else _] => destruct (names l name) eqn:?
  | |- context [match heading_level name with _ => _ end] => destruct (heading_level name) eqn:?
  end;
  try (destruct cs; intros H; try discriminate H; injection H as <-;
       split; intros H1; try discriminate H1; eauto; fail).
  - destruct (find_attr attrs s_href); [destruct (existsb _ cs)|]; intros H; try discriminate H;
      injection H as <-; split; intros H1; discriminate H1.
  - destruct (flat_map _ cs); [discriminate|].
    destruct (render_table_new _) as [t| | |] eqn:E; cbn [bind]; try discriminate.
    unfold render_table_new in E.
    destruct (all_positions _); cbn [bind] in E; try discriminate E.
    destruct (remap_rows _ _); cbn [bind] in E; try discriminate E. injection E as <-.
    intros H; injection H as <-; split; intros H1; discriminate H1.
  - destruct cs; [discriminate|]. destruct (tbody_rows _); cbn [bind]; try discriminate.
    intros H; injection H as <-; split; intros H1; discriminate H1.
Qed.

(* finish keeps "is a cell" (the fragment marker and the pseudo content go INTO the cell) and
   never creates a header or a cell *)
Lemma insert_child_cell : forall x nd b, is_cell (insert_child x nd b) = is_cell nd.
Proof.
  intros x [i s] b. unfold insert_child, is_cell.
  destruct i; try reflexivity; try (destruct b; reflexivity).
  - destruct r; reflexivity.
  - destruct c; reflexivity.
Qed.
Lemma wrap_pseudo_cell : forall c nd, is_cell (wrap_pseudo c nd) = is_cell nd.
Proof.
  intros c nd. unfold wrap_pseudo.
  destruct (cs_after c) as [a|]; [destruct (ws_val (c_content a))|];
    (destruct (cs_before c) as [b|]; [destruct (ws_val (c_content b))|]);
    rewrite ?insert_child_cell; reflexivity.
Qed.
Lemma insert_child_colspan : forall x n k s st b, exists k',
  insert_child x (RN (ITableCell (RCell n k s)) st) b = RN (ITableCell (RCell n k' s)) st.
Proof. intros. eexists. reflexivity. Qed.

Section Blocks.
  Variable sd : styledata.
  Variable udc : bool.
  Variable inl : list (text * text) -> res (list styledecl).
  Notation process := (process sd udc inl).
  Notation process_kids := (process_kids sd udc inl).

  (* ---- 1. unfolding of `process` on an html element ---- *)
  Theorem process_elem_unfold : forall name attrs kids p idx,
    process (NElem true name attrs kids) p idx =
    let me := mkanc name attrs idx :: p in
    do inls <- (if udc then inl attrs else Ok []);
    let computed := computed_style sd me inls in
    if hidden_style computed then Ok None
    else
      do base <-
         (if names [[105;109;103]] name then
            match img_attrs attrs None None with
            | (Some title, Some src) => Ok (Some (RN (IImg src title) computed))
            | _ => Ok None
            end
          else if names [[98;114]] name then Ok (Some (RN IBreak computed))
          else if names [[108;105;110;107]; [109;101;116;97]; [104;114]; [115;99;114;105;112;116];
                         [115;116;121;108;101]; [104;101;97;100]] name then Ok None
          else do cs <- process_kids kids me 1%Z; build_element name attrs computed cs);
      Ok (finish computed true name attrs base).
  Proof.
    intros name attrs kids p idx. cbv zeta. rewrite process_eq, process_kids_eq. unfold pbody.
    destruct (if udc then inl attrs else Ok []) as [inls| | |]; cbn [bind]; try reflexivity.
    unfold hidden_style.
    destruct (ws_val (c_display (cs_core (computed_style sd (mkanc name attrs idx :: p) inls))))
      as [[|]|]; try reflexivity; cbn [negb];
    (match goal with |- (do base <- ?e; _) = _ => destruct e as [[b|]| | |] end;
     cbn [bind]; try reflexivity; unfold finish; cbn [andb];
     destruct (fragment_of _ _ _); reflexivity).
  Qed.

  (* the elements that look at their children: given the inline declarations, a visible
     computed style and the processed children *)
  Theorem process_elem_children : forall name attrs kids p idx inls cs,
    let me := mkanc name attrs idx :: p in
    let computed := computed_style sd me inls in
    (if udc then inl attrs else Ok []) = Ok inls ->
    hidden_style computed = false ->
    childless name = false ->
    process_kids kids me 1%Z = Ok cs ->
    process (NElem true name attrs kids) p idx =
    (do base <- build_element name attrs computed cs; Ok (finish computed true name attrs base)).
  Proof.
    intros name attrs kids p idx inls cs me computed Hi Hh Hc Hk.
    rewrite process_elem_unfold. cbv zeta. rewrite Hi. cbn [bind].
    fold me. fold computed. rewrite Hh. unfold childless in Hc.
    apply Bool.orb_false_iff in Hc. destruct Hc as (Hc & Hc3).
    apply Bool.orb_false_iff in Hc. destruct Hc as (Hc1 & Hc2).
    rewrite Hc1, Hc2, Hc3, Hk. reflexivity.
  Qed.

  (* hidden: nothing at all, whatever the name *)
  Theorem process_elem_hidden : forall name attrs kids p idx inls,
    (if udc then inl attrs else Ok []) = Ok inls ->
    hidden_style (computed_style sd (mkanc name attrs idx :: p) inls) = true ->
    process (NElem true name attrs kids) p idx = Ok None.
  Proof.
    intros name attrs kids p idx inls Hi Hh. rewrite process_elem_unfold. cbv zeta.
    rewrite Hi. cbn [bind]. rewrite Hh. reflexivity.
  Qed.

  Lemma childless_cps : forall name s, cps name = s ->
    childless name = (existsb (lN_eqb s) [[105;109;103]] || existsb (lN_eqb s) [[98;114]] ||
                      existsb (lN_eqb s) [[108;105;110;107]; [109;101;116;97]; [104;114];
                        [115;99;114;105;112;116]; [115;116;121;108;101]; [104;101;97;100]]).
  Proof. intros name s <-. reflexivity. Qed.

  Lemma header_not_childless : forall name n, heading_level name = Some n -> childless name = false.
  Proof.
    intros name n H. apply heading_level_range in H.
    destruct H as [[_ H]|[[_ H]|[[_ H]|[[_ H]|[[_ H]|[_ H]]]]]];
      rewrite (childless_cps _ _ H); reflexivity.
  Qed.

  (* ---- 2a. headers ---- *)
  Section OneElement.
    Variables (name : text) (attrs : list (text * text)) (kids : list node) (p : list anc) (idx : Z).
    Variables (inls : list styledecl) (cs : list rnode).
    Let me := mkanc name attrs idx :: p.
    Let computed := computed_style sd me inls.
    Hypothesis Hinl : (if udc then inl attrs else Ok []) = Ok inls.
    Hypothesis Hvis : hidden_style computed = false.
    Hypothesis Hkids : process_kids kids me 1%Z = Ok cs.

    Theorem process_header : forall n, heading_level name = Some n ->
      process (NElem true name attrs kids) p idx =
      Ok (finish computed true name attrs (Some (RN (IHeader n cs) computed))).
    Proof.
      intros n H. unfold computed, me.
      rewrite (process_elem_children name attrs kids p idx inls cs Hinl Hvis
                 (header_not_childless _ _ H) Hkids).
      rewrite (be_header _ _ _ _ _ H). reflexivity.
    Qed.

    Corollary process_header_plain : forall n, heading_level name = Some n ->
      plain computed name attrs ->
      process (NElem true name attrs kids) p idx = Ok (Some (RN (IHeader n cs) computed)).
    Proof. intros n H Hp. rewrite (process_header n H), finish_plain by exact Hp. reflexivity. Qed.

    (* the general form for the other names *)
    Lemma process_by_name : forall s r,
      cps name = s ->
      (existsb (lN_eqb s) [[105;109;103]] || existsb (lN_eqb s) [[98;114]] ||
       existsb (lN_eqb s) [[108;105;110;107]; [109;101;116;97]; [104;114];
          [115;99;114;105;112;116]; [115;116;121;108;101]; [104;101;97;100]]) = false ->
      build_element name attrs computed cs = Ok r ->
      process (NElem true name attrs kids) p idx = Ok (finish computed true name attrs r).
    Proof.
      intros s r Hs Hc Hb. unfold computed, me.
      rewrite (process_elem_children name attrs kids p idx inls cs Hinl Hvis); auto.
      - fold me. fold computed. rewrite Hb. reflexivity.
      - rewrite (childless_cps _ _ Hs). exact Hc.
    Qed.

    Definition noempty_opt (i : rinfo) : option rnode :=
      match cs with [] => None | _ => Some (RN i computed) end.
    Lemma noempty_ok : forall i, noempty cs i computed = Ok (noempty_opt i).
    Proof. intros i. unfold noempty, noempty_opt. destruct cs; reflexivity. Qed.

    (* ---- 2b. blockquote, ul, div, p: ALL processed children, nothing when there are none ---- *)
    Theorem process_blockquote : cps name = Nm.blockquote ->
      process (NElem true name attrs kids) p idx =
      Ok (finish computed true name attrs (noempty_opt (IBlockQuote cs))).
    Proof.
      intros H. apply (process_by_name _ _ H); [reflexivity|].
      rewrite (be_blockquote _ _ _ _ H). apply noempty_ok.
    Qed.
    Theorem process_ul : cps name = Nm.ul ->
      process (NElem true name attrs kids) p idx =
      Ok (finish computed true name attrs (noempty_opt (IUl cs))).
    Proof.
      intros H. apply (process_by_name _ _ H); [reflexivity|].
      rewrite (be_ul _ _ _ _ H). apply noempty_ok.
    Qed.
    Theorem process_div : cps name = Nm.div ->
      process (NElem true name attrs kids) p idx =
      Ok (finish computed true name attrs (noempty_opt (IDiv cs))).
    Proof.
      intros H. apply (process_by_name _ _ H); [reflexivity|].
      rewrite (be_div _ _ _ _ H). apply noempty_ok.
    Qed.
    Theorem process_p : cps name = Nm.p ->
      process (NElem true name attrs kids) p idx =
      Ok (finish computed true name attrs (noempty_opt (IBlock cs))).
    Proof.
      intros H. apply (process_by_name _ _ H); [reflexivity|].
      rewrite (be_p _ _ _ _ H). apply noempty_ok.
    Qed.

    (* ---- 2c. ol, dl: only list items / dt, dd are kept, in order ---- *)
    Theorem process_ol : cps name = Nm.ol ->
      process (NElem true name attrs kids) p idx =
      Ok (finish computed true name attrs
            (noempty_opt (IOl (ol_start attrs) (filter_info is_li cs)))).
    Proof.
      intros H. apply (process_by_name _ _ H); [reflexivity|].
      rewrite (be_ol _ _ _ _ H). apply noempty_ok.
    Qed.
    Theorem process_dl : cps name = Nm.dl ->
      process (NElem true name attrs kids) p idx =
      Ok (finish computed true name attrs (noempty_opt (IDl (filter_info is_dtdd cs)))).
    Proof.
      intros H. apply (process_by_name _ _ H); [reflexivity|].
      rewrite (be_dl _ _ _ _ H). apply noempty_ok.
    Qed.

    (* ---- 2d. tr, td, th ---- *)
    Theorem process_tr : cps name = Nm.tr ->
      process (NElem true name attrs kids) p idx =
      Ok (finish computed true name attrs
            (Some (RN (ITableRow (RRow (cells_of cs) computed)) computed))).
    Proof.
      intros H. apply (process_by_name _ _ H); [reflexivity|]. apply (be_tr _ _ _ _ H).
    Qed.
    Theorem process_td : cps name = Nm.td \/ cps name = Nm.th ->
      process (NElem true name attrs kids) p idx =
      Ok (finish computed true name attrs
            (Some (RN (ITableCell (RCell (td_colspan attrs) cs computed)) computed))).
    Proof.
      intros H. pose proof (be_td name attrs computed cs H) as Hb.
      destruct H as [H|H]; apply (process_by_name _ _ H); try reflexivity; exact Hb.
    Qed.
  End OneElement.
End Blocks.

(* ---------------------------------------------------------------------- *)
(* 3. indentation clause of C13 for ol / dl                                 *)
(* ---------------------------------------------------------------------- *)
Definition opt_list {A} (o : option A) : list A := match o with Some x => [x] | None => [] end.

Lemma pk_insert : forall proc l1 x l2 i r,
  is_elem x = false -> proc x (i + count_elems l1)%Z = Ok r ->
  pk_of proc (l1 ++ x :: l2) i =
  (do r1 <- pk_of proc l1 i; do r2 <- pk_of proc l2 (i + count_elems l1)%Z;
   Ok (r1 ++ opt_list r ++ r2)).
Proof.
  intros proc l1 x l2 i r Hx Hr. rewrite pk_app.
  destruct (pk_of proc l1 i) as [r1| | |]; cbn [bind]; try reflexivity.
  cbn [pk_of]. rewrite Hr. cbn [bind].
  change (match x with NElem _ _ _ _ => true | _ => false end) with (is_elem x). rewrite Hx.
  destruct (pk_of proc l2 _) as [r2| | |]; cbn [bind]; try reflexivity.
  destruct r; reflexivity.
Qed.

(* a non-element node: its processed result, never an element of the render tree other than text *)
Definition nonelem_result (x : node) : option rnode :=
  match x with NText t => Some (rn_new (IText t)) | _ => None end.

Section Indent.
  Variable sd : styledata.
  Variable udc : bool.
  Variable inl : list (text * text) -> res (list styledecl).
  Notation process := (process sd udc inl).
  Notation process_kids := (process_kids sd udc inl).

  Lemma process_nonelem : forall x p i, is_elem x = false -> process x p i = Ok (nonelem_result x).
  Proof. intros [h n a k|t| |] p i H; try discriminate H; reflexivity. Qed.

  (* generic: if the element-specific constructor does not see the inserted result, `process`
     does not see the inserted node *)
  Lemma process_insert_gen : forall name attrs l1 x l2 p idx,
    is_elem x = false ->
    (forall c cs1 cs2,
       process_kids (l1 ++ l2) (mkanc name attrs idx :: p) 1%Z = Ok (cs1 ++ cs2) ->
       build_element name attrs c (cs1 ++ opt_list (nonelem_result x) ++ cs2) =
       build_element name attrs c (cs1 ++ cs2)) ->
    process (NElem true name attrs (l1 ++ x :: l2)) p idx =
    process (NElem true name attrs (l1 ++ l2)) p idx.
  Proof.
    intros name attrs l1 x l2 p idx Hx Hb. rewrite !process_eq.
    set (me := mkanc name attrs idx :: p) in *.
    rewrite process_kids_eq in Hb.
    rewrite (pk_insert _ l1 x l2 1%Z (nonelem_result x) Hx (process_nonelem x me _ Hx)).
    rewrite pk_app in *.
    destruct (pk_of _ l1 1%Z) as [cs1| | |]; cbn [bind] in *; [|reflexivity..].
    destruct (pk_of _ l2 _) as [cs2| | |]; cbn [bind] in *; [|reflexivity..].
    unfold pbody. destruct (if udc then inl attrs else Ok []) as [inls| | |]; cbn [bind]; [|reflexivity..].
    cbn [negb]. rewrite (Hb _ cs1 cs2 eq_refl). reflexivity.
  Qed.

  Lemma filter_info_insert : forall f cs1 cs2 x,
    f (rn_info x) = false ->
    filter_info f (cs1 ++ x :: cs2) = filter_info f (cs1 ++ cs2).
  Proof.
    intros f cs1 cs2 x H. unfold filter_info. rewrite !filter_app. cbn [filter]. rewrite H.
    reflexivity.
  Qed.

  (* SIDE CONDITION `<> Ok []`: the emptiness test of `ol` / `dl` (pending_noempty) is made on
     ALL processed children, before the filter.  So "<ol></ol>" gives nothing while
     "<ol> </ol>" gives an `IOl` without items (see ex_ol_empty_differs): the clause is
     false without the condition that some child of the shorter list yields a node. *)
  Theorem ol_insert_nonelem : forall name attrs l1 x l2 p idx,
    cps name = Nm.ol -> is_elem x = false ->
    process_kids (l1 ++ l2) (mkanc name attrs idx :: p) 1%Z <> Ok [] ->
    process (NElem true name attrs (l1 ++ x :: l2)) p idx =
    process (NElem true name attrs (l1 ++ l2)) p idx.
  Proof.
    intros name attrs l1 x l2 p idx Hn Hx Hne. apply process_insert_gen; [exact Hx|].
    intros c cs1 cs2 Hk. rewrite !(be_ol _ _ _ _ Hn). unfold noempty.
    destruct (cs1 ++ cs2) eqn:E; [congruence|].
    destruct x as [h n a k|t| |]; try discriminate Hx; cbn [nonelem_result opt_list app];
      rewrite ?E; try reflexivity.
    rewrite (filter_info_insert is_li cs1 cs2 (rn_new (IText t)) eq_refl), E.
    destruct cs1; cbn [app]; reflexivity.
  Qed.

  Theorem dl_insert_nonelem : forall name attrs l1 x l2 p idx,
    cps name = Nm.dl -> is_elem x = false ->
    process_kids (l1 ++ l2) (mkanc name attrs idx :: p) 1%Z <> Ok [] ->
    process (NElem true name attrs (l1 ++ x :: l2)) p idx =
    process (NElem true name attrs (l1 ++ l2)) p idx.
  Proof.
    intros name attrs l1 x l2 p idx Hn Hx Hne. apply process_insert_gen; [exact Hx|].
    intros c cs1 cs2 Hk. rewrite !(be_dl _ _ _ _ Hn). unfold noempty.
    destruct (cs1 ++ cs2) eqn:E; [congruence|].
    destruct x as [h n a k|t| |]; try discriminate Hx; cbn [nonelem_result opt_list app];
      rewrite ?E; try reflexivity.
    rewrite (filter_info_insert is_dtdd cs1 cs2 (rn_new (IText t)) eq_refl), E.
    destruct cs1; cbn [app]; reflexivity.
  Qed.

  (* comments, doctypes: no side condition, for every element name *)
  Theorem any_insert_comment : forall name attrs l1 x l2 p idx,
    x = NComment \/ x = NOther ->
    process (NElem true name attrs (l1 ++ x :: l2)) p idx =
    process (NElem true name attrs (l1 ++ l2)) p idx.
  Proof.
    intros name attrs l1 x l2 p idx Hx. apply process_insert_gen.
    - destruct Hx as [-> | ->]; reflexivity.
    - intros c cs1 cs2 _. destruct Hx as [-> | ->]; reflexivity.
  Qed.

  (* a sufficient, syntactic form of the side condition: some other child is a text node *)
  Lemma pk_text_nonempty : forall kids p i t, In (NText t) kids -> process_kids kids p i <> Ok [].
  Proof.
    induction kids as [|k kids IH]; intros p i t Hin; [destruct Hin|destruct Hin as [->|Hin]].
    - cbn [process_kids Dom.process bind].
      destruct (process_kids kids p i) as [rs| | |]; cbn [bind]; discriminate.
    - cbn [process_kids]. destruct (process k p i) as [r| | |]; cbn [bind]; try discriminate.
      specialize (IH p (if match k with NElem _ _ _ _ => true | _ => false end then (i + 1)%Z else i) t Hin).
      destruct (process_kids kids p _) as [rs| | |]; cbn [bind]; try discriminate.
      destruct r; [discriminate|]. exact IH.
  Qed.
End Indent.

(* ---------------------------------------------------------------------- *)
(* 4. td_colspan                                                            *)
(* ---------------------------------------------------------------------- *)
(* value of one colspan attribute: parse::<usize>() (ASCII digits, optional '+', no spaces,
   non-empty, fits usize) else 1; capped at 1000; "0" stays 0 (fixed up later in tbody) *)
Definition colspan_val (v : text) : N :=
  match parse_usize v with Some n => N.min n 1000 | None => 1 end.

Lemma td_colspan_snoc : forall attrs kv,
  td_colspan (attrs ++ [kv]) =
  if attr_is (fst kv) s_colspan then colspan_val (snd kv) else td_colspan attrs.
Proof. intros attrs kv. unfold td_colspan. rewrite fold_left_app. reflexivity. Qed.

(* the LAST colspan attribute wins; absent = 1 *)
Theorem td_colspan_spec : forall attrs,
  td_colspan attrs =
  match find (fun kv => attr_is (fst kv) s_colspan) (rev attrs) with
  | Some kv => colspan_val (snd kv)
  | None => 1
  end.
Proof.
  induction attrs as [|kv attrs IH] using rev_ind; [reflexivity|].
  rewrite td_colspan_snoc, rev_app_distr. cbn [rev app find].
  destruct (attr_is (fst kv) s_colspan); [reflexivity|exact IH].
Qed.

Theorem td_colspan_bound : forall attrs, td_colspan attrs <= 1000.
Proof.
  intros attrs. rewrite td_colspan_spec. destruct (find _ _) as [kv|]; [|lia].
  unfold colspan_val. destruct (parse_usize _); lia.
Qed.
Print Assumptions td_colspan_spec.

(* ---------------------------------------------------------------------- *)
(* 5. Examples                                                              *)
(* ---------------------------------------------------------------------- *)
Module DomBlocksExamples.
Import PruneExamples.
Import String Ascii.
Local Open Scope string_scope.

Definition sd0 := styledata0.
Definition proc (n : node) := process sd0 true inline_styles n [] 1%Z.
Definition st0 (name : string) attrs :=
  computed_style sd0 [mkanc (t name) (List.map (fun kv => (t (fst kv), t (snd kv))) attrs) 1%Z] [].
Definition txn (s : string) : rnode := rn_new (IText (t s)).

(* colspan values *)
Example ex_colspan :
  List.map (fun v => td_colspan [(t "colspan", t v)]) ["3"; "+3"; "0"; ""; "abc"; " 2"; "2 "; "-1"; "2000"; "1.5"]
  = [3; 3; 0; 1; 1; 1; 1; 1; 1000; 1]
  /\ td_colspan [] = 1
  /\ td_colspan [(t "colspan", t "2"); (t "x", t "y"); (t "colspan", t "5")] = 5
  /\ td_colspan [(t "colspan", t "2"); (t "colspan", t "zz")] = 1.
Proof. vm_compute. repeat split. Qed.

(* all six headers, h7 is not one *)
Example ex_headers :
  List.map (fun nm => match proc (el nm [] [tx "x"]) with
                      | Ok (Some (RN (IHeader n [c]) _)) => Some n | _ => None end)
           ["h1"; "h2"; "h3"; "h4"; "h5"; "h6"; "h7"; "h0"; "h"; "h11"]
  = [Some 1; Some 2; Some 3; Some 4; Some 5; Some 6; None; None; None; None].
Proof. vm_compute. reflexivity. Qed.

Example ex_header_thm :
  proc (el "h6" [] [tx "x"]) = Ok (Some (RN (IHeader 6 [txn "x"]) (st0 "h6" []))).
Proof.
  unfold proc, el. eapply process_header_plain with (inls := []); try (vm_compute; reflexivity).
  vm_compute. auto.
Qed.

(* ul does NOT filter (its text child stays); ol and dl do *)
Example ex_ul_no_filter :
  proc (el "ul" [] [tx " "; el "li" [] [tx "a"]; tx "b"]) =
  Ok (Some (RN (IUl [txn " "; RN (IListItem [txn "a"]) (st0 "li" []); txn "b"]) (st0 "ul" []))).
Proof. vm_compute. reflexivity. Qed.
Example ex_ol_filter :
  proc (el "ol" [("start", "4")] [tx " "; el "li" [] [tx "a"]; tx "b"; el "p" [] [tx "q"]]) =
  Ok (Some (RN (IOl 4 [RN (IListItem [txn "a"]) (st0 "li" [])]) (st0 "ol" [("start", "4")]))).
Proof. vm_compute. reflexivity. Qed.
Example ex_ol_start :
  List.map (fun v => ol_start [(t "start", t v)]) ["4"; "-2"; "+7"; "x"; ""; "3 "] =
  [4; -2; 7; 1; 1; 1]%Z /\ ol_start [] = 1%Z
  /\ ol_start [(t "start", t "x"); (t "start", t "9")] = 1%Z.   (* FIRST start attribute *)
Proof. vm_compute. repeat split. Qed.
Example ex_dl_filter :
  proc (el "dl" [] [tx " "; el "dt" [] [tx "a"]; el "li" [] []; el "dd" [] [tx "b"]]) =
  Ok (Some (RN (IDl [RN (IDt [txn "a"]) (st0 "dt" []); RN (IDd [txn "b"]) (st0 "dd" [])])
               (st0 "dl" []))).
Proof. vm_compute. reflexivity. Qed.

(* the indentation theorem on a concrete <ol> ... *)
Example ex_ol_insert :
  proc (el "ol" [] ([el "li" [] [tx "a"]] ++ tx "  " :: [el "li" [] [tx "b"]])) =
  proc (el "ol" [] ([el "li" [] [tx "a"]] ++ [el "li" [] [tx "b"]])).
Proof.
  unfold proc, el. apply ol_insert_nonelem; try reflexivity. vm_compute. discriminate.
Qed.
(* ... and the necessity of its side condition: <ol></ol> is nothing, <ol> </ol> is a list
   without items (the emptiness test comes before the filter) *)
Example ex_ol_empty_differs :
  proc (el "ol" [] []) = Ok None /\
  proc (el "ol" [] [tx " "]) = Ok (Some (RN (IOl 1 []) (st0 "ol" []))) /\
  proc (el "dl" [] []) = Ok None /\
  proc (el "dl" [] [tx " "]) = Ok (Some (RN (IDl []) (st0 "dl" []))).
Proof. vm_compute. repeat split. Qed.

(* blockquote / div / p: nothing without children *)
Example ex_noempty :
  List.map (fun nm => proc (el nm [] [])) ["blockquote"; "ul"; "div"; "p"] =
  [Ok None; Ok None; Ok None; Ok None] /\
  proc (el "blockquote" [] [tx "q"]) = Ok (Some (RN (IBlockQuote [txn "q"]) (st0 "blockquote" []))).
Proof. vm_compute. repeat split. Qed.

(* tr: a td without children still gives a cell; text and comments between cells are dropped;
   a hidden cell gives none *)
Example ex_tr :
  proc (el "tr" [] [tx " "; el "td" [] []; NComment; el "th" [("colspan", "2")] [tx "x"];
                    el "td" hide [tx "h"]; el "p" [] [tx "lost"]]) =
  Ok (Some (RN (ITableRow (RRow [RCell 1 [] (st0 "td" []);
                                 RCell 2 [txn "x"]
                                   (computed_style sd0 [mkanc (t "th") [(t "colspan", t "2")] 2%Z;
                                                        mkanc (t "tr") [] 1%Z] [])]
                                (st0 "tr" []))) (st0 "tr" []))).
Proof. vm_compute. reflexivity. Qed.
End DomBlocksExamples.

(* ---------------------------------------------------------------------- *)
(* 6. the cells of a row = the visible td / th children                      *)
(* ---------------------------------------------------------------------- *)
Definition is_tdth (k : node) : bool :=
  match k with NElem true nm _ _ => names [[116;104]; [116;100]] nm | _ => false end.

Lemma finish_cell : forall c h name attrs base nd,
  finish c h name attrs base = Some nd ->
  is_cell nd = match base with Some b => is_cell b | None => false end.
Proof.
  intros c h name attrs base nd. unfold finish.
  destruct base as [b|]; destruct (fragment_of _ _ _); intros H; try discriminate H; injection H as <-;
    rewrite ?insert_child_cell, ?wrap_pseudo_cell; reflexivity.
Qed.

(* finish keeps the colspan of a cell *)
Lemma wrap_pseudo_colspan : forall c n k s st, exists k',
  wrap_pseudo c (RN (ITableCell (RCell n k s)) st) = RN (ITableCell (RCell n k' s)) st.
Proof.
  intros c n k s st. unfold wrap_pseudo.
  destruct (cs_before c) as [b|]; [destruct (ws_val (c_content b))|];
    (destruct (cs_after c) as [a|]; [destruct (ws_val (c_content a))|]);
    cbn [insert_child]; eexists; reflexivity.
Qed.
Lemma finish_colspan : forall c h name attrs n k s st, exists k',
  finish c h name attrs (Some (RN (ITableCell (RCell n k s)) st)) =
  Some (RN (ITableCell (RCell n k' s)) st).
Proof.
  intros c h name attrs n k s st. unfold finish.
  destruct (wrap_pseudo_colspan c n k s st) as (k' & ->).
  destruct (fragment_of _ _ _); cbn [insert_child]; eexists; reflexivity.
Qed.

Lemma lN_eqb_true : forall a b, lN_eqb a b = true -> a = b.
Proof.
  induction a as [|x a IH]; intros [|y b] H; cbn [lN_eqb] in H; try discriminate; [reflexivity|].
  apply Bool.andb_true_iff in H. destruct H as (H1 & H2). apply N.eqb_eq in H1.
  rewrite (IH _ H2), H1. reflexivity.
Qed.
Lemma tdth_cps : forall name, names [[116;104]; [116;100]] name = true ->
  cps name = Nm.td \/ cps name = Nm.th.
Proof.
  intros name H. rewrite names_cps in H. cbn [existsb] in H.
  apply Bool.orb_true_iff in H. destruct H as [H|H]; [right; exact (lN_eqb_true _ _ H)|].
  apply Bool.orb_true_iff in H. destruct H as [H|H]; [left; exact (lN_eqb_true _ _ H)|discriminate].
Qed.

Section RowCells.
  Variable sd : styledata.
  Variable udc : bool.
  Variable inl : list (text * text) -> res (list styledecl).
  Notation process := (process sd udc inl).
  Notation process_kids := (process_kids sd udc inl).

  (* a cell comes only from an html td / th element *)
  Theorem cell_only_from_tdth : forall k p i nd,
    process k p i = Ok (Some nd) -> is_cell nd = true -> is_tdth k = true.
  Proof.
    intros [h name attrs kids|t| |] p i nd H Hc; try discriminate H.
    2:{ injection H as <-. discriminate Hc. }
    destruct h.
    - rewrite process_elem_unfold in H. cbv zeta in H.
      destruct (if udc then inl attrs else Ok []) as [inls| | |]; cbn [bind] in H; try discriminate H.
      destruct (hidden_style _); [discriminate H|].
      match type of H with (do base <- ?e; _) = _ => destruct e as [base| | |] eqn:E end;
        cbn [bind] in H; try discriminate H.
      injection H as H. rewrite (finish_cell _ _ _ _ _ _ H) in Hc.
      destruct base as [b|]; [|discriminate Hc]. cbn [is_tdth].
      destruct (names [[105;109;103]] name).
      { destruct (img_attrs attrs None None) as [[ti|] [sr|]]; try discriminate E.
        injection E as <-. discriminate Hc. }
      destruct (names [[98;114]] name). { injection E as <-. discriminate Hc. }
      destruct (names _ name) in E; [discriminate E|].
      destruct (process_kids _ _ _) as [cs| | |]; cbn [bind] in E; try discriminate E.
      apply be_inv in E. destruct E as (_ & E). exact (E Hc).
    - exfalso. rewrite process_eq in H. unfold pbody in H.
      destruct (if udc then inl attrs else Ok []) as [inls| | |]; cbn [bind] in H; try discriminate H.
      cbn [negb andb] in H.
      match type of H with
        match ?d with _ => _ end = _ => destruct d as [[|]|]; try discriminate H
      end;
      (destruct (pk_of _ kids 1%Z) as [[|c0 cs]| | |]; cbn [bind] in H; try discriminate H;
       destruct (fragment_of _ _ _); try discriminate H; injection H as <-;
       rewrite ?insert_child_cell, ?wrap_pseudo_cell in Hc; discriminate Hc).
  Qed.

  (* a td / th that yields anything yields a cell with colspan td_colspan attrs: also when
     it has no children *)
  Theorem tdth_gives_cell : forall name attrs kids p i nd,
    names [[116;104]; [116;100]] name = true ->
    process (NElem true name attrs kids) p i = Ok (Some nd) ->
    exists k s, rn_info nd = ITableCell (RCell (td_colspan attrs) k s).
  Proof.
    intros name attrs kids p i nd Hn H. apply tdth_cps in Hn.
    rewrite process_elem_unfold in H. cbv zeta in H.
    destruct (if udc then inl attrs else Ok []) as [inls| | |]; cbn [bind] in H; try discriminate H.
    destruct (hidden_style _); [discriminate H|].
    assert (Hc : childless name = false)
      by (destruct Hn as [Hn|Hn]; rewrite (childless_cps _ _ Hn); reflexivity).
    unfold childless in Hc.
    apply Bool.orb_false_iff in Hc. destruct Hc as (Hc & Hc3).
    apply Bool.orb_false_iff in Hc. destruct Hc as (Hc1 & Hc2).
    rewrite Hc1, Hc2, Hc3 in H.
    destruct (process_kids _ _ _) as [cs| | |]; cbn [bind] in H; try discriminate H.
    rewrite (be_td _ _ _ _ Hn) in H. cbn [bind] in H. injection H as H.
    destruct (finish_colspan (computed_style sd (mkanc name attrs i :: p) inls) true name attrs
                (td_colspan attrs) cs (computed_style sd (mkanc name attrs i :: p) inls)
                (computed_style sd (mkanc name attrs i :: p) inls)) as (k' & Hf).
    rewrite Hf in H. injection H as <-. cbn [rn_info]. eexists. eexists. reflexivity.
  Qed.

  (* the children that give a cell *)
  Definition cell_kid (me : list anc) (k : node) (i : Z) : bool :=
    is_tdth k && match process k me i with Ok None => false | _ => true end.
  Fixpoint count_cells (me : list anc) (kids : list node) (i : Z) : nat :=
    match kids with
    | [] => O
    | k :: kids' => ((if cell_kid me k i then 1 else 0) +
                     count_cells me kids' (if is_elem k then (i + 1)%Z else i))%nat
    end.

  Theorem row_cell_count : forall kids me i cs,
    process_kids kids me i = Ok cs ->
    length (cells_of cs) = count_cells me kids i.
  Proof.
    induction kids as [|k kids IH]; intros me i cs H.
    - injection H as <-. reflexivity.
    - cbn [process_kids] in H. cbn [count_cells]. unfold cell_kid.
      change (match k with NElem _ _ _ _ => true | _ => false end) with (is_elem k) in H.
      destruct (process k me i) as [r| | |] eqn:Ek; cbn [bind] in H; try discriminate H.
      destruct (process_kids kids me _) as [rs| | |] eqn:Er; cbn [bind] in H; try discriminate H.
      injection H as <-. specialize (IH _ _ _ Er). rewrite <- IH.
      destruct r as [nd|].
      + unfold cells_of. cbn [flat_map]. rewrite app_length. f_equal.
        destruct (is_tdth k) eqn:Et; cbn [andb].
        * destruct k as [[|] name attrs kk|t| |]; try discriminate Et.
          destruct (tdth_gives_cell _ _ _ _ _ _ Et Ek) as (k' & s & ->). reflexivity.
        * destruct (rn_info nd) eqn:Ei; try reflexivity.
          assert (Hc : is_cell nd = true) by (unfold is_cell; rewrite Ei; reflexivity).
          rewrite (cell_only_from_tdth _ _ _ _ Ek Hc) in Et. discriminate Et.
      + rewrite Bool.andb_false_r. reflexivity.
  Qed.
End RowCells.
Print Assumptions row_cell_count.

Module DomBlocksExamples2.
Import PruneExamples DomBlocksExamples.
Import String Ascii.
Local Open Scope string_scope.
(* 4 element children (two visible cells, one hidden cell, one p), text and comment: 2 cells *)
Example ex_row_count :
  let kids := [tx " "; el "td" [] []; NComment; el "th" [("colspan", "2")] [tx "x"];
               el "td" hide [tx "h"]; el "p" [] [tx "lost"]] in
  count_cells sd0 true inline_styles [mkanc (t "tr") [] 1%Z] kids 1%Z = 2%nat /\
  exists cs, process_kids sd0 true inline_styles kids [mkanc (t "tr") [] 1%Z] 1%Z = Ok cs /\
             List.length (cells_of cs) = 2%nat.
Proof. split; [vm_compute; reflexivity|]. eexists. split; vm_compute; reflexivity. Qed.
End DomBlocksExamples2.

Print Assumptions process_elem_unfold.
Print Assumptions process_header_plain.
Print Assumptions be_inv.
Print Assumptions heading_level_range.
Print Assumptions process_blockquote.
Print Assumptions process_ul.
Print Assumptions process_div.
Print Assumptions process_p.
Print Assumptions process_ol.
Print Assumptions process_dl.
Print Assumptions process_tr.
Print Assumptions process_td.
Print Assumptions ol_insert_nonelem.
Print Assumptions dl_insert_nonelem.
Print Assumptions any_insert_comment.
Print Assumptions cell_only_from_tdth.
Print Assumptions tdth_gives_cell.
Print Assumptions DomBlocksExamples.ex_ol_empty_differs.

(* ---------------------------------------------------------------------- *)
(* 7. text / comment nodes directly inside tr and table are not content       *)
(*    (no side condition; thead / tbody have the same emptiness-before-filter *)
(*    behaviour as ol: "<tbody> </tbody>" is an empty body, "<tbody></tbody>" *)
(*    is nothing - not proved here)                                           *)
(* ---------------------------------------------------------------------- *)
Section IndentTable.
  Variable sd : styledata.
  Variable udc : bool.
  Variable inl : list (text * text) -> res (list styledecl).
  Notation process := (process sd udc inl).

  Lemma flat_map_insert_nonelem : forall {B} (f : rnode -> list B) cs1 cs2 x,
    is_elem x = false -> (forall t, f (rn_new (IText t)) = []) ->
    flat_map f (cs1 ++ opt_list (nonelem_result x) ++ cs2) = flat_map f (cs1 ++ cs2).
  Proof.
    intros B f cs1 cs2 x Hx Hf. rewrite !flat_map_app. f_equal.
    destruct x as [h n a k|t| |]; try discriminate Hx; cbn [nonelem_result opt_list flat_map app];
      rewrite ?Hf; reflexivity.
  Qed.

  Theorem tr_insert_nonelem : forall name attrs l1 x l2 p idx,
    cps name = Nm.tr -> is_elem x = false ->
    process (NElem true name attrs (l1 ++ x :: l2)) p idx =
    process (NElem true name attrs (l1 ++ l2)) p idx.
  Proof.
    intros name attrs l1 x l2 p idx Hn Hx. apply process_insert_gen; [exact Hx|].
    intros c cs1 cs2 _. rewrite !(be_tr _ _ _ _ Hn). unfold cells_of.
    rewrite (flat_map_insert_nonelem _ cs1 cs2 x Hx); reflexivity.
  Qed.

  Lemma be_table : forall name attrs c cs, cps name = Nm.table ->
    build_element name attrs c cs =
    let rows := flat_map (fun n => match rn_info n with ITableBody b => b | _ => [] end) cs in
    match rows with
    | [] => Ok None
    | _ => do t <- render_table_new rows; Ok (Some (RN t c))
    end.
  Proof. intros name attrs c cs H. unfold build_element; rewrite ?heading_level_spec, ?names_cps, H; reflexivity. Qed.

  Theorem table_insert_nonelem : forall name attrs l1 x l2 p idx,
    cps name = Nm.table -> is_elem x = false ->
    process (NElem true name attrs (l1 ++ x :: l2)) p idx =
    process (NElem true name attrs (l1 ++ l2)) p idx.
  Proof.
    intros name attrs l1 x l2 p idx Hn Hx. apply process_insert_gen; [exact Hx|].
    intros c cs1 cs2 _. rewrite !(be_table _ _ _ _ Hn). cbv zeta.
    rewrite (flat_map_insert_nonelem _ cs1 cs2 x Hx); reflexivity.
  Qed.
End IndentTable.
Print Assumptions tr_insert_nonelem.
Print Assumptions table_insert_nonelem.

Module DomBlocksExamples3.
Import PruneExamples DomBlocksExamples.
Import String Ascii.
Local Open Scope string_scope.
Example ex_tr_insert :
  proc (el "tr" [] ([el "td" [] [tx "a"]] ++ tx "
   " :: [el "td" [] [tx "b"]])) =
  proc (el "tr" [] ([el "td" [] [tx "a"]] ++ [el "td" [] [tx "b"]])).
Proof. unfold proc, el. apply tr_insert_nonelem; reflexivity. Qed.
(* thead / tbody: same emptiness-before-filter behaviour as ol *)
Example ex_tbody_empty_differs :
  proc (el "tbody" [] []) = Ok None /\
  proc (el "tbody" [] [tx " "]) = Ok (Some (RN (ITableBody []) (st0 "tbody" []))).
Proof. vm_compute. split; reflexivity. Qed.
End DomBlocksExamples3.
