(* DomInline.v -- the DOM -> render-tree step (`Dom.process` / `build_element`) for the INLINE
   elements, and the list of hyperlinks of the render tree in terms of the DOM.

   Part 1: what `process` returns for a visible HTML element, per element name.
   Part 2: `all_links` (Footnotes.v) of the tree `process` builds = `dlinks` of the DOM.     *)
From H2T Require Import Base Tagged Wrap Sub Css Dom Render Api CssParse.
From H2T Require Import Proofs.RenderWidth Proofs.Footnotes Proofs.Prune Proofs.DomRel.
From Coq Require Import Lia ZifyN ZifyBool ZifyNat.
Import ListNotations.

Local Arguments N.add : simpl never.
Local Arguments N.sub : simpl never.
Local Arguments N.mul : simpl never.
Local Arguments N.leb : simpl never.
Local Arguments N.ltb : simpl never.
Local Arguments N.eqb : simpl never.
Local Arguments N.min : simpl never.
Local Arguments N.max : simpl never.
Local Open Scope N_scope.

(* ================================================================== *)
(* 0. How names are matched; find_attr; img_attrs; is_shallow_empty     *)
(* ================================================================== *)

Lemma lN_eqb_eq : forall a b, lN_eqb a b = true <-> a = b.
Proof.
  induction a as [|x a IH]; intros [|y b]; cbn [lN_eqb]; split; intros H;
    try reflexivity; try discriminate.
  - apply andb_true_iff in H. destruct H as [H1 H2]. apply N.eqb_eq in H1. apply IH in H2.
    subst. reflexivity.
  - injection H as -> ->. rewrite N.eqb_refl. cbn [andb]. apply IH. reflexivity.
Qed.

(* NAMES: an element / attribute name matches a literal iff its sequence of code points is
   EXACTLY the literal (all literals are lower-case ASCII): no case folding in `process`
   (the HTML parser has lower-cased the names of HTML elements and attributes before). *)
Lemma names_spec l n : names l n = true <-> In (cps n) l.
Proof.
  unfold names. rewrite existsb_exists. split.
  - intros (x & Hin & Hx). unfold is_ascii_str in Hx. apply lN_eqb_eq in Hx. subst. exact Hin.
  - intros Hin. exists (cps n). split; [exact Hin|]. unfold is_ascii_str. apply lN_eqb_eq. reflexivity.
Qed.
Lemma attr_is_spec k l : attr_is k l = true <-> cps k = l.
Proof. unfold attr_is, is_ascii_str. apply lN_eqb_eq. Qed.

Lemma names_ext l n1 n2 : cps n1 = cps n2 -> names l n1 = names l n2.
Proof. intros H. unfold names, is_ascii_str. rewrite H. reflexivity. Qed.

(* the kind of an element depends on the code points of its name only *)
Lemma kind_of_ext n1 n2 : cps n1 = cps n2 -> kind_of n1 = kind_of n2.
Proof.
  intros H. unfold kind_of, heading_level. rewrite H.
  repeat rewrite (names_ext _ n1 n2 H). reflexivity.
Qed.
Lemma cps_of_ascii l : cps (of_ascii l) = l.
Proof.
  unfold cps, of_ascii. rewrite map_map. induction l as [|c l IH]; [reflexivity|].
  cbn [map]. rewrite IH. reflexivity.
Qed.
Lemma kind_by_cps name l : cps name = l -> kind_of name = kind_of (of_ascii l).
Proof. intros H. apply kind_of_ext. rewrite cps_of_ascii. exact H. Qed.

(* the table of names (a, em, i, ins, strong, s, del, code, sup, span, br, img,
   head, script, style, link, meta, hr, html, body, an unknown name "x", "A" (upper case)) *)
Example kind_table :
  map (fun l => kind_of (of_ascii l))
      [[97]; [101;109]; [105]; [105;110;115]; [115;116;114;111;110;103]; [115]; [100;101;108];
       [99;111;100;101]; [115;117;112]; [115;112;97;110]; [98;114]; [105;109;103];
       [104;101;97;100]; [115;99;114;105;112;116]; [115;116;121;108;101]; [108;105;110;107];
       [109;101;116;97]; [104;114]; [104;116;109;108]; [98;111;100;121]; [120]; [65]] =
  [KA; KEm; KEm; KEm; KStrong; KStrike; KStrike; KCode; KSup; KSpan; KBr; KImg;
   KSkip; KSkip; KSkip; KSkip; KSkip; KSkip; KRoot; KRoot; KOther; KOther].
Proof. vm_compute. reflexivity. Qed.

(* find_attr: the FIRST attribute (in attribute order) whose name is exactly k *)
Lemma find_attr_spec attrs k :
  match find_attr attrs k with
  | Some v => exists l1 kn l2, attrs = l1 ++ (kn, v) :: l2 /\ cps kn = k /\
                               forall kv, In kv l1 -> cps (fst kv) <> k
  | None => forall kv, In kv attrs -> cps (fst kv) <> k
  end.
Proof.
  unfold find_attr. induction attrs as [|[kn v] attrs IH]; cbn [find]; [intros kv []|].
  cbn [fst]. destruct (attr_is kn k) eqn:E.
  - cbn [snd]. exists [], kn, attrs. split; [reflexivity|]. split; [apply attr_is_spec, E|intros kv []].
  - assert (Hne : cps kn <> k). { intros Hc. apply attr_is_spec in Hc. congruence. }
    destruct (find (fun kv => attr_is (fst kv) k) attrs) as [kv0|].
    + destruct IH as (l1 & kn' & l2 & -> & Hk & Hl1). exists ((kn, v) :: l1), kn', l2.
      split; [reflexivity|]. split; [exact Hk|]. intros kv [<-|Hin]; [exact Hne|apply Hl1, Hin].
    + intros kv [<-|Hin]; [exact Hne|apply IH, Hin].
Qed.

(* img_attrs: scans the attributes in order and STOPS as soon as both a non-empty alt and a
   non-empty src have been seen; until then a later non-empty alt (src) replaces an earlier one.
   Empty values are ignored.  So for attribute lists without repeated names: the non-empty alt
   and the non-empty src.  With neither repeated: *)
Definition nonempty (v : text) : bool := negb (match v with [] => true | _ => false end).
Lemma img_attrs_step k v attrs title src :
  img_attrs ((k, v) :: attrs) title src =
  let title' := if attr_is k s_alt && nonempty v then Some v else title in
  let src' := if attr_is k s_src && nonempty v then Some v else src in
  match title', src' with
  | Some _, Some _ => (title', src')
  | _, _ => img_attrs attrs title' src'
  end.
Proof. reflexivity. Qed.
(* an <img> gives a node iff the scan ends with both *)
Lemma img_attrs_none_l attrs : forall title src,
  (forall kv, In kv attrs -> attr_is (fst kv) s_alt && nonempty (snd kv) = false) ->
  title = None -> fst (img_attrs attrs title src) = None.
Proof.
  induction attrs as [|[k v] attrs IH]; intros title src H Ht; [exact Ht|].
  rewrite img_attrs_step. cbv zeta. pose proof (H (k, v) (or_introl eq_refl)) as Hk. cbn [fst snd] in Hk.
  rewrite Hk. subst title. apply IH; [|reflexivity]. intros kv Hin. apply H. right. exact Hin.
Qed.
Lemma img_attrs_none_r attrs : forall title src,
  (forall kv, In kv attrs -> attr_is (fst kv) s_src && nonempty (snd kv) = false) ->
  src = None -> snd (img_attrs attrs title src) = None.
Proof.
  induction attrs as [|[k v] attrs IH]; intros title src H Ht; [exact Ht|].
  rewrite img_attrs_step. cbv zeta. pose proof (H (k, v) (or_introl eq_refl)) as Hk. cbn [fst snd] in Hk.
  rewrite Hk. subst src.
  destruct (if attr_is k s_alt && nonempty v then Some v else title);
    apply IH; try reflexivity; intros kv Hin; apply H; right; exact Hin.
Qed.

(* is_shallow_empty, exactly: a text or an image whose text (alt) is all white space; a line
   break; a fragment marker; an element-like node with NO children at all (one level only: an
   element-like node that has any child - even a blank text or an empty container - is NOT
   shallow-empty); table parts never. *)
Lemma shallow_empty_spec x :
  is_shallow_empty x =
  match rn_info x with
  | IText t | IImg _ t => all_ws t
  | IBreak | IFragStart _ => true
  | ITable _ _ | ITableRow _ | ITableBody _ | ITableCell _ => false
  | IContainer v | ILink _ v | IEm v | IStrong v | IStrikeout v | ICode v | IBlock v
  | IListItem v | IDiv v | IBlockQuote v | IDl v | IDt v | IDd v | IUl v | IOl _ v | ISup v
  | IHeader _ v => match v with [] => true | _ => false end
  end.
Proof.
  destruct x as [i st]. unfold is_shallow_empty. cbn [rn_info].
  destruct i; try reflexivity; apply trim_nil_iff.
Qed.

(* ================================================================== *)
(* 1. PART 1: `process` on a visible HTML element                       *)
(* ================================================================== *)
Section Elem.
  Variable sd : styledata.
  Variable udc : bool.
  Variable inl : list (text * text) -> res (list styledecl).
  Notation process := (process sd udc inl).

  (* the processed children of an element whose ancestor chain (itself first) is me *)
  Definition kids_of (me : list anc) (kids : list node) : res (list rnode) :=
    pk_of (fun k i => process k me i) kids 1%Z.

  (* the computed style of the element (None when its style attribute fails to parse) *)
  Definition style_of (name : text) (attrs : list (text * text)) (p : list anc) (idx : Z)
    : res cstyle :=
    do inls <- (if udc then inl attrs else Ok []);
    Ok (computed_style sd (mkanc name attrs idx :: p) inls).
  Definition shown (c : cstyle) : bool :=
    match ws_val (c_display (cs_core c)) with Some true => false | _ => true end.

  (* GENERAL FORM.  `post` (DomRel) = pseudo-element content (wrap_pseudo) + fragment marker
     for id= (and name= on <a>); `base_of` (DomRel) = the table of element kinds. *)
  Theorem process_html_element name attrs kids p idx computed :
    style_of name attrs p idx = Ok computed -> shown computed = true ->
    process (NElem true name attrs kids) p idx =
    (do base <- (if kind_leaf (kind_of name) then base_of (kind_of name) attrs computed []
                 else do cs <- kids_of (mkanc name attrs idx :: p) kids;
                      base_of (kind_of name) attrs computed cs);
     Ok (post computed (fragment_of name (names [[97]] name) attrs) base)).
  Proof.
    intros Hs Hsh. unfold style_of in Hs. bind_inv Hs inls Hi. ok_inv Hs.
    rewrite process_eq. unfold pbody. rewrite Hi. cbn [bind]. unfold shown in Hsh.
    set (computed := computed_style sd (mkanc name attrs idx :: p) inls) in *.
    assert (Hm : forall (X : Type) (a b : X),
               match ws_val (c_display (cs_core computed)) with Some true => a | _ => b end = b).
    { intros X a b. destruct (ws_val (c_display (cs_core computed))) as [[|]|];
        [discriminate Hsh|reflexivity|reflexivity]. }
    rewrite Hm. cbn [negb andb]. rewrite html_base_eq. unfold kids_of.
    match goal with |- (do base <- ?e; _) = _ => destruct e as [base| | |] end; cbn [bind]; try reflexivity.
    unfold post. destruct (fragment_of name (names [[97]] name) attrs); [|reflexivity].
    destruct base; reflexivity.
  Qed.

  (* hidden element (display: none wins): Nothing, with all its content, whatever it is *)
  Theorem process_hidden_element html name attrs kids p idx computed :
    style_of name attrs p idx = Ok computed -> shown computed = false ->
    process (NElem html name attrs kids) p idx = Ok None.
  Proof.
    intros Hs Hsh. apply process_hidden. unfold hidden. unfold style_of in Hs.
    bind_inv Hs inls Hi. ok_inv Hs. rewrite Hi. unfold shown in Hsh.
    destruct (ws_val (c_display (cs_core (computed_style sd (mkanc name attrs idx :: p) inls)))) as [[|]|];
      [reflexivity|discriminate Hsh|discriminate Hsh].
  Qed.

  (* ---- per element ---- *)
  Section PerElement.
    Variables (name : text) (attrs : list (text * text)) (kids : list node) (p : list anc) (idx : Z).
    Variable computed : cstyle.
    Hypothesis Hstyle : style_of name attrs p idx = Ok computed.
    Hypothesis Hshown : shown computed = true.
    Let me := mkanc name attrs idx :: p.
    Let fin (base : option rnode) : res (option rnode) :=
      Ok (post computed (fragment_of name (names [[97]] name) attrs) base).
    Let mk (i : rinfo) : option rnode := Some (RN i computed).
    Let this := process (NElem true name attrs kids) p idx.

    (* <a href=..>: a link exactly when some processed child is not shallow-empty; NOTHING is
       asked about what the text says *)
    Theorem process_a_href href cs :
      kind_of name = KA -> find_attr attrs s_href = Some href -> kids_of me kids = Ok cs ->
      this = fin (if existsb (fun c => negb (is_shallow_empty c)) cs
                  then mk (ILink href cs) else None).
    Proof.
      intros Hk Hh Hc. unfold this. rewrite (process_html_element _ _ _ _ _ _ Hstyle Hshown).
      rewrite Hk. cbn [kind_leaf base_of]. fold me. rewrite Hc, Hh. cbn [bind].
      destruct (existsb _ cs); reflexivity.
    Qed.
    (* <a> without href: a container, kept even when it has no children *)
    Theorem process_a_plain cs :
      kind_of name = KA -> find_attr attrs s_href = None -> kids_of me kids = Ok cs ->
      this = fin (mk (IContainer cs)).
    Proof.
      intros Hk Hh Hc. unfold this. rewrite (process_html_element _ _ _ _ _ _ Hstyle Hshown).
      rewrite Hk. cbn [kind_leaf base_of]. fold me. rewrite Hc, Hh. reflexivity.
    Qed.

    Theorem process_inline cs :
      kids_of me kids = Ok cs ->
      (kind_of name = KEm -> this = fin (mk (IEm cs))) /\
      (kind_of name = KStrong -> this = fin (mk (IStrong cs))) /\
      (kind_of name = KStrike -> this = fin (mk (IStrikeout cs))) /\
      (kind_of name = KCode -> this = fin (mk (ICode cs))) /\
      (kind_of name = KSup -> this = fin (mk (ISup cs))) /\
      (kind_of name = KSpan -> this = fin (match cs with [] => None | _ => mk (IContainer cs) end)) /\
      (kind_of name = KOther -> this = fin (match cs with [] => None | _ => mk (IContainer cs) end)) /\
      (kind_of name = KRoot -> this = fin (mk (IContainer cs))).
    Proof.
      intros Hc. unfold this. rewrite (process_html_element _ _ _ _ _ _ Hstyle Hshown). fold me.
      repeat split; intros Hk; rewrite Hk; cbn [kind_leaf base_of]; rewrite Hc; cbn [bind];
        try reflexivity; destruct cs; reflexivity.
    Qed.

    (* elements whose children are never looked at *)
    Theorem process_leaf :
      (kind_of name = KBr -> this = fin (mk IBreak)) /\
      (kind_of name = KSkip -> this = fin None) /\
      (kind_of name = KImg ->
       this = fin (match img_attrs attrs None None with
                   | (Some title, Some src) => mk (IImg src title)
                   | _ => None
                   end)).
    Proof.
      unfold this. rewrite (process_html_element _ _ _ _ _ _ Hstyle Hshown).
      repeat split; intros Hk; rewrite Hk; cbn [kind_leaf base_of bind]; try reflexivity.
      destruct (img_attrs attrs None None) as [[t|] [s|]]; reflexivity.
    Qed.
  End PerElement.

  (* a child that is a text with a non-white-space character makes the link stay *)
  Lemma kids_of_text_kept me : forall kids i cs t,
    In (NText t) kids -> all_ws t = false ->
    pk_of (fun k i => process k me i) kids i = Ok cs ->
    existsb (fun c => negb (is_shallow_empty c)) cs = true.
  Proof.
    induction kids as [|k kids IH]; intros i cs t Hin Hw H; [destruct Hin|].
    cbn [pk_of] in H. bind_inv H r Hr. bind_inv H rs Hrs. ok_inv H.
    destruct Hin as [->|Hin].
    - cbn [Dom.process] in Hr. ok_inv Hr. cbn [existsb]. rewrite shallow_empty_spec.
      unfold rn_new. cbn [rn_info]. rewrite Hw. reflexivity.
    - specialize (IH _ _ _ Hin Hw Hrs). destruct r; [|exact IH]. cbn [existsb]. rewrite IH.
      apply orb_true_r.
  Qed.

  (* THE SEEDED CHANGE: <a href=u> with a text child that has a visible character - whatever
     the text is, in particular when it is u itself - is an ILink u *)
  Theorem a_href_text_is_link name attrs kids p idx computed href t :
    style_of name attrs p idx = Ok computed -> shown computed = true ->
    cps name = [97] -> find_attr attrs s_href = Some href ->
    In (NText t) kids -> all_ws t = false ->
    forall r, process (NElem true name attrs kids) p idx = Ok r ->
    exists cs, kids_of (mkanc name attrs idx :: p) kids = Ok cs /\
      r = post computed (fragment_of name true attrs) (Some (RN (ILink href cs) computed)).
  Proof.
    intros Hs Hsh Hn Hh Hin Hw r H.
    assert (Hk : kind_of name = KA) by (rewrite (kind_by_cps name _ Hn); reflexivity).
    assert (Hna : names [[97]] name = true) by (apply names_spec; rewrite Hn; left; reflexivity).
    pose proof H as H0. rewrite (process_html_element _ _ _ _ _ _ Hs Hsh) in H0.
    rewrite Hk in H0. cbn [kind_leaf] in H0. bind_inv H0 base Hb. bind_inv Hb cs Hcs.
    exists cs. split; [exact Hcs|].
    rewrite (process_a_href _ _ _ _ _ _ Hs Hsh href cs Hk Hh Hcs) in H.
    rewrite (kids_of_text_kept _ _ _ _ _ Hin Hw Hcs) in H. rewrite Hna in H. ok_inv H. reflexivity.
  Qed.
End Elem.
Print Assumptions process_html_element.
Print Assumptions process_a_href.
Print Assumptions process_inline.
Print Assumptions process_leaf.
Print Assumptions a_href_text_is_link.

(* ================================================================== *)
(* 2. PART 2: the links of the tree = the links of the DOM              *)
(* ================================================================== *)
(* tree side: Footnotes.all_links (pre-order list of the hrefs of all ILink nodes; for
   table-free trees Footnotes.link_targets_all_no_table-style theorems identify it with the
   list `render_node` threads, i.e. with the footnote list) *)
Definition links_opt (r : option rnode) : list text :=
  match r with Some x => all_links x | None => [] end.

Lemma all_links_container cs st : all_links (RN (IContainer cs) st) = flat_map all_links cs.
Proof. reflexivity. Qed.

Lemma all_links_ins_row b a rows :
  all_links a = [] ->
  flat_map (fun r => match r with
                     | RRow cells _ =>
                       flat_map (fun c => match c with RCell _ k _ => flat_map all_links k end) cells
                     end) (ins_first_row b a rows) =
  flat_map (fun r => match r with
                     | RRow cells _ =>
                       flat_map (fun c => match c with RCell _ k _ => flat_map all_links k end) cells
                     end) rows.
Proof.
  intros H. destruct rows as [|[cells s] rows]; [reflexivity|]. cbn [ins_first_row flat_map]. f_equal.
  destruct cells as [|[n k st] cells]; [reflexivity|]. cbn [ins_first_cell flat_map]. f_equal.
  apply (flat_map_ins all_links), H.
Qed.

(* inserting a node without links (a fragment marker, pseudo-element text) changes no link *)
Lemma insert_child_links a n b : all_links a = [] -> all_links (insert_child a n b) = all_links n.
Proof.
  intros H. destruct n as [i st].
  destruct i; cbn [insert_child];
    try (apply (flat_map_ins all_links); exact H);
    try (destruct b; unfold rn_new; rewrite all_links_container; cbn [flat_map]; rewrite H, ?app_nil_r;
         reflexivity).
  - (* ITable *) apply (all_links_ins_row b a rows H).
  - (* ITableBody *) reflexivity.
  - (* ITableRow *) destruct r; reflexivity.
  - (* ITableCell *) destruct c; reflexivity.
Qed.

Lemma wrap_pseudo_links computed n : all_links (wrap_pseudo computed n) = all_links n.
Proof.
  unfold wrap_pseudo.
  set (n1 := match cs_before computed with
             | Some c => match ws_val (c_content c) with
                         | Some t => insert_child (rn_new (IText (relabel L_deco t))) n true
                         | None => n
                         end
             | None => n
             end).
  assert (E1 : all_links n1 = all_links n).
  { subst n1. destruct (cs_before computed) as [c|]; [|reflexivity].
    destruct (ws_val (c_content c)); [|reflexivity]. apply insert_child_links. reflexivity. }
  destruct (cs_after computed) as [c|]; [|exact E1].
  destruct (ws_val (c_content c)); [|exact E1]. rewrite insert_child_links; [exact E1|reflexivity].
Qed.

Lemma post_links computed frag base : links_opt (post computed frag base) = links_opt base.
Proof.
  unfold post. destruct base as [b|]; destruct frag as [f|]; cbn [links_opt]; try reflexivity.
  - rewrite insert_child_links; [apply wrap_pseudo_links|reflexivity].
  - apply wrap_pseudo_links.
Qed.

Lemma post_ktag computed frag base x :
  post computed frag base = Some x ->
  ktag x = match base with Some b => ktag b | None => 0%nat end.
Proof.
  unfold post. destruct base as [b|]; destruct frag as [f|]; intros H; try discriminate H;
    injection H as <-; rewrite ?insert_child_ktag, ?wrap_pseudo_ktag; reflexivity.
Qed.

(* DOM side *)
Definition lk_of (f : node -> Z -> list text) : list node -> Z -> list text :=
  fix go (kids : list node) (idx : Z) {struct kids} : list text :=
    match kids with
    | [] => []
    | k :: kids' => f k idx ++ go kids' (if is_elem k then (idx + 1)%Z else idx)
    end.

(* the children an <ol> (1: li) and a <dl> (2: dt, 3: dd) keep *)
Definition dtag (n : node) : nat :=
  match n with
  | NElem true name _ _ => match kind_of name with KLi => 1 | KDt => 2 | KDd => 3 | _ => 0 end
  | _ => 0
  end%nat.
Definition f_all (t : nat) : bool := true.
Definition f_li (t : nat) : bool := Nat.eqb t 1.
Definition f_dtdd (t : nat) : bool := Nat.eqb t 2 || Nat.eqb t 3.
Definition dsub (f : nat -> bool) (dl : node -> Z -> list text) (kids : list node) : list text :=
  lk_of (fun k i => if f (dtag k) then dl k i else []) kids 1%Z.

Definition table_kind (k : ekd) : bool :=
  match k with KTable | KSection | KTr | KCell => true | _ => false end.
(* no HTML table / thead / tbody / tr / th / td element anywhere *)
Fixpoint table_free (n : node) : bool :=
  match n with
  | NElem html name _ kids => negb (html && table_kind (kind_of name)) && forallb table_free kids
  | _ => true
  end.

Lemma filter_all {A} (l : list A) : filter (fun _ => true) l = l.
Proof. induction l as [|a l IH]; [reflexivity|]. cbn [filter]. rewrite IH. reflexivity. Qed.

Lemma pk_links (proc : node -> Z -> res (option rnode)) (dl : node -> Z -> list text)
      (f : nat -> bool) : forall kids,
  Forall (fun k => forall i r, proc k i = Ok r ->
                     links_opt r = dl k i /\ (forall x, r = Some x -> ktag x = dtag k)) kids ->
  forall i cs, pk_of proc kids i = Ok cs ->
  flat_map all_links (filter (fun x => f (ktag x)) cs) =
  lk_of (fun k i => if f (dtag k) then dl k i else []) kids i.
Proof.
  induction kids as [|k kids IH]; intros HF i cs H.
  - cbn [pk_of] in H. ok_inv H. reflexivity.
  - inversion HF as [|? ? Hk Hkids]; subst.
    cbn [pk_of] in H. bind_inv H r Hr. bind_inv H rs0 Hrs. ok_inv H.
    change (match k with NElem _ _ _ _ => true | _ => false end) with (is_elem k) in Hrs.
    specialize (IH Hkids _ _ Hrs). destruct (Hk _ _ Hr) as [Hl Ht]. cbn [lk_of]. rewrite <- IH.
    destruct r as [x|]; cbn [links_opt] in Hl.
    + rewrite <- Hl, <- (Ht x eq_refl). cbn [filter]. destruct (f (ktag x)); reflexivity.
    + rewrite <- Hl. destruct (f (dtag k)); reflexivity.
Qed.

Lemma filter_info_li cs :
  filter_info (fun i => match i with IListItem _ => true | _ => false end) cs =
  filter (fun x => f_li (ktag x)) cs.
Proof. unfold filter_info. apply filter_ext. intros [i st]. destruct i; reflexivity. Qed.
Lemma filter_info_dtdd cs :
  filter_info (fun i => match i with IDt _ | IDd _ => true | _ => false end) cs =
  filter (fun x => f_dtdd (ktag x)) cs.
Proof. unfold filter_info. apply filter_ext. intros [i st]. destruct i; reflexivity. Qed.

Section Links.
  Variable sd : styledata.
  Variable udc : bool.
  Variable inl : list (text * text) -> res (list styledecl).
  Notation process := (process sd udc inl).

  (* an <a href> is kept iff some processed child is not shallow-empty (Part 1; sufficient:
     a text child with a visible character, kids_of_text_kept) *)
  Definition a_kept (me : list anc) (kids : list node) : bool :=
    match kids_of sd udc inl me kids with
    | Ok cs => existsb (fun c => negb (is_shallow_empty c)) cs
    | _ => false
    end.

  (* the hrefs of the kept <a href> elements in document order; nothing from hidden elements,
     from img/br/head/script/style/link/meta/hr, from a dropped <a href>, from the non-<li>
     children of <ol> and the non-<dt>/<dd> children of <dl>.  Same traversal (ancestor chain,
     element indices) as `process`. *)
  Fixpoint dlinks (n : node) (p : list anc) (idx : Z) {struct n} : list text :=
    match n with
    | NElem html name attrs kids =>
      let me := mkanc name attrs idx :: p in
      if hidden sd udc inl me attrs then []
      else if negb html then dsub f_all (fun k i => dlinks k me i) kids
      else match kind_of name with
           | KImg | KBr | KSkip => []
           | KTable | KSection | KTr | KCell => []        (* excluded by table_free *)
           | KA => match find_attr attrs s_href with
                   | Some href =>
                     if a_kept me kids then href :: dsub f_all (fun k i => dlinks k me i) kids else []
                   | None => dsub f_all (fun k i => dlinks k me i) kids
                   end
           | KOl => dsub f_li (fun k i => dlinks k me i) kids
           | KDl => dsub f_dtdd (fun k i => dlinks k me i) kids
           | _ => dsub f_all (fun k i => dlinks k me i) kids
           end
    | _ => []
    end.
  Definition dom_links (doc : list node) : list text :=
    lk_of (fun k i => dlinks k [] i) doc 1%Z.
End Links.

Section LinksProof.
  Variable sd : styledata.
  Variable udc : bool.
  Variable inl : list (text * text) -> res (list styledecl).
  Notation process := (process sd udc inl).
  Notation dlinks := (dlinks sd udc inl).

  Lemma process_links_tag : forall n p idx r,
    table_free n = true -> process n p idx = Ok r ->
    links_opt r = dlinks n p idx /\ (forall x, r = Some x -> ktag x = dtag n).
  Proof.
    apply (node_ind' (fun n => forall p idx r,
             table_free n = true -> process n p idx = Ok r ->
             links_opt r = dlinks n p idx /\ (forall x, r = Some x -> ktag x = dtag n))).
    2:{ intros t p idx r _ H. cbn [Dom.process] in H. ok_inv H. split; [reflexivity|].
        intros x Hx. injection Hx as <-. reflexivity. }
    2:{ intros p idx r _ H. cbn [Dom.process] in H. ok_inv H. split; [reflexivity|]. intros x Hx. discriminate Hx. }
    2:{ intros p idx r _ H. cbn [Dom.process] in H. ok_inv H. split; [reflexivity|]. intros x Hx. discriminate Hx. }
    intros html name attrs kids IH p idx r Htf H.
    cbn [table_free] in Htf. apply andb_true_iff in Htf. destruct Htf as [Htk Htf].
    assert (KF : Forall (fun k => forall i r, process k (mkanc name attrs idx :: p) i = Ok r ->
                   links_opt r = dlinks k (mkanc name attrs idx :: p) i /\
                   (forall x, r = Some x -> ktag x = dtag k)) kids).
    { rewrite Forall_forall in *. rewrite forallb_forall in Htf. intros k Hk i r0 Hr0.
      apply (IH k Hk _ _ _ (Htf k Hk) Hr0). }
    clear IH Htf.
    cbn [DomInline.dlinks].
    destruct (hidden sd udc inl (mkanc name attrs idx :: p) attrs) eqn:Eh.
    { rewrite (process_hidden sd udc inl _ _ _ _ _ _ Eh) in H. ok_inv H. split; [reflexivity|].
      intros x Hx. discriminate Hx. }
    rewrite process_eq in H. unfold pbody in H. unfold hidden in Eh.
    bind_inv H inls Hinl. rewrite Hinl in Eh.
    set (me := mkanc name attrs idx :: p) in *.
    set (computed := computed_style sd me inls) in *.
    assert (Hm : forall (X : Type) (a b : X),
               match ws_val (c_display (cs_core computed)) with Some true => a | _ => b end = b).
    { intros X a b. destruct (ws_val (c_display (cs_core computed))) as [[|]|];
        [discriminate Eh|reflexivity|reflexivity]. }
    rewrite Hm in H. clear Hm Eh.
    bind_inv H base Hbase.
    assert (Er : r = post computed (fragment_of name (html && names [[97]] name) attrs) base).
    { unfold post. destruct (fragment_of name (html && names [[97]] name) attrs) as [f|].
      - destruct base; ok_inv H; reflexivity.
      - ok_inv H. reflexivity. }
    clear H. subst r. rewrite post_links.
    assert (HP : forall (L : list text) (T : nat),
               links_opt base = L -> (match base with Some b => ktag b | None => 0%nat end = T) ->
               links_opt base = L /\
               (forall x, post computed (fragment_of name (html && names [[97]] name) attrs) base = Some x ->
                          ktag x = T)).
    { intros L T HL HT. split; [exact HL|]. intros x Hx. rewrite (post_ktag _ _ _ _ Hx). exact HT. }
    assert (PL : forall f cs, pk_of (fun k i => process k me i) kids 1%Z = Ok cs ->
                 flat_map all_links (filter (fun x => f (ktag x)) cs) =
                 dsub f (fun k i => dlinks k me i) kids).
    { intros f cs Hcs. unfold dsub.
      apply (pk_links (fun k i => process k me i) (fun k i => dlinks k me i) f kids KF 1%Z cs Hcs). }
    destruct html; cbn [negb andb] in *.
    - (* HTML element *)
      rewrite html_base_eq in Hbase. cbn [dtag].
      destruct (kind_of name) eqn:Ek; cbn [table_kind negb] in Htk; try discriminate Htk;
        cbn [kind_leaf base_of] in Hbase.
      + (* img *) destruct (img_attrs attrs None None) as [[t|] [s|]]; ok_inv Hbase; apply HP; reflexivity.
      + (* br *) ok_inv Hbase; apply HP; reflexivity.
      + (* skip *) ok_inv Hbase; apply HP; reflexivity.
      + (* root *) bind_inv Hbase cs Hcs. unfold mk_ in Hbase. ok_inv Hbase. apply HP; [|reflexivity].
        cbn [links_opt]. rewrite all_links_container. rewrite <- (PL f_all cs Hcs). unfold f_all.
        rewrite filter_all. reflexivity.
      + (* span *) bind_inv Hbase cs Hcs. pose proof (PL f_all cs Hcs) as E. unfold f_all in E at 1.
        rewrite filter_all in E. rewrite <- E.
        unfold noempty_, mk_ in Hbase. destruct cs; ok_inv Hbase; apply HP; reflexivity.
      + (* a *) bind_inv Hbase cs Hcs. pose proof (PL f_all cs Hcs) as E. unfold f_all in E at 1.
        rewrite filter_all in E. rewrite <- E. unfold a_kept, kids_of. fold me. rewrite Hcs.
        destruct (find_attr attrs s_href) as [href|].
        * destruct (existsb (fun c => negb (is_shallow_empty c)) cs); unfold mk_ in Hbase; ok_inv Hbase;
            apply HP; reflexivity.
        * unfold mk_ in Hbase; ok_inv Hbase; apply HP; reflexivity.
      + (* em *) bind_inv Hbase cs Hcs. pose proof (PL f_all cs Hcs) as E. unfold f_all in E at 1.
        rewrite filter_all in E. rewrite <- E. unfold mk_ in Hbase; ok_inv Hbase; apply HP; reflexivity.
      + bind_inv Hbase cs Hcs. pose proof (PL f_all cs Hcs) as E. unfold f_all in E at 1.
        rewrite filter_all in E. rewrite <- E. unfold mk_ in Hbase; ok_inv Hbase; apply HP; reflexivity.
      + bind_inv Hbase cs Hcs. pose proof (PL f_all cs Hcs) as E. unfold f_all in E at 1.
        rewrite filter_all in E. rewrite <- E. unfold mk_ in Hbase; ok_inv Hbase; apply HP; reflexivity.
      + bind_inv Hbase cs Hcs. pose proof (PL f_all cs Hcs) as E. unfold f_all in E at 1.
        rewrite filter_all in E. rewrite <- E. unfold mk_ in Hbase; ok_inv Hbase; apply HP; reflexivity.
      + (* header *) bind_inv Hbase cs Hcs. pose proof (PL f_all cs Hcs) as E. unfold f_all in E at 1.
        rewrite filter_all in E. rewrite <- E. unfold mk_ in Hbase; ok_inv Hbase; apply HP; reflexivity.
      + (* p *) bind_inv Hbase cs Hcs. pose proof (PL f_all cs Hcs) as E. unfold f_all in E at 1.
        rewrite filter_all in E. rewrite <- E.
        unfold noempty_, mk_ in Hbase. destruct cs; ok_inv Hbase; apply HP; reflexivity.
      + (* li *) bind_inv Hbase cs Hcs. pose proof (PL f_all cs Hcs) as E. unfold f_all in E at 1.
        rewrite filter_all in E. rewrite <- E. unfold mk_ in Hbase; ok_inv Hbase; apply HP; reflexivity.
      + (* sup *) bind_inv Hbase cs Hcs. pose proof (PL f_all cs Hcs) as E. unfold f_all in E at 1.
        rewrite filter_all in E. rewrite <- E. unfold mk_ in Hbase; ok_inv Hbase; apply HP; reflexivity.
      + (* div *) bind_inv Hbase cs Hcs. pose proof (PL f_all cs Hcs) as E. unfold f_all in E at 1.
        rewrite filter_all in E. rewrite <- E.
        unfold noempty_, mk_ in Hbase. destruct cs; ok_inv Hbase; apply HP; reflexivity.
      + (* pre *) bind_inv Hbase cs Hcs. pose proof (PL f_all cs Hcs) as E. unfold f_all in E at 1.
        rewrite filter_all in E. rewrite <- E. ok_inv Hbase; apply HP; reflexivity.
      + (* blockquote *) bind_inv Hbase cs Hcs. pose proof (PL f_all cs Hcs) as E. unfold f_all in E at 1.
        rewrite filter_all in E. rewrite <- E.
        unfold noempty_, mk_ in Hbase. destruct cs; ok_inv Hbase; apply HP; reflexivity.
      + (* ul *) bind_inv Hbase cs Hcs. pose proof (PL f_all cs Hcs) as E. unfold f_all in E at 1.
        rewrite filter_all in E. rewrite <- E.
        unfold noempty_, mk_ in Hbase. destruct cs; ok_inv Hbase; apply HP; reflexivity.
      + (* ol *) bind_inv Hbase cs Hcs. pose proof (PL f_li cs Hcs) as E.
        fold (dsub f_li (fun k i => dlinks k me i) kids) in E. rewrite <- E.
        rewrite filter_info_li in Hbase.
        unfold noempty_, mk_ in Hbase. destruct cs; ok_inv Hbase; apply HP; reflexivity.
      + (* dl *) bind_inv Hbase cs Hcs. pose proof (PL f_dtdd cs Hcs) as E.
        fold (dsub f_dtdd (fun k i => dlinks k me i) kids) in E. rewrite <- E.
        rewrite filter_info_dtdd in Hbase.
        unfold noempty_, mk_ in Hbase. destruct cs; ok_inv Hbase; apply HP; reflexivity.
      + (* dt *) bind_inv Hbase cs Hcs. pose proof (PL f_all cs Hcs) as E. unfold f_all in E at 1.
        rewrite filter_all in E. rewrite <- E. unfold mk_ in Hbase; ok_inv Hbase; apply HP; reflexivity.
      + (* dd *) bind_inv Hbase cs Hcs. pose proof (PL f_all cs Hcs) as E. unfold f_all in E at 1.
        rewrite filter_all in E. rewrite <- E. unfold mk_ in Hbase; ok_inv Hbase; apply HP; reflexivity.
      + (* other *) bind_inv Hbase cs Hcs. pose proof (PL f_all cs Hcs) as E. unfold f_all in E at 1.
        rewrite filter_all in E. rewrite <- E.
        unfold noempty_, mk_ in Hbase. destruct cs; ok_inv Hbase; apply HP; reflexivity.
    - (* not an HTML element *)
      bind_inv Hbase cs Hcs. pose proof (PL f_all cs Hcs) as E. unfold f_all in E at 1.
      rewrite filter_all in E. rewrite <- E. cbn [dtag].
      destruct cs; ok_inv Hbase; apply HP; reflexivity.
  Qed.
End LinksProof.

(* ---- a table-free document gives a table-free tree (Footnotes.no_table) ---- *)
Lemma forallb_ins {A} (p : A -> bool) b a v :
  p a = true -> forallb p v = true -> forallb p (ins b a v) = true.
Proof.
  intros Ha Hv. unfold ins. destruct b; [cbn [forallb]; rewrite Ha, Hv; reflexivity|].
  rewrite forallb_app, Hv. cbn [forallb]. rewrite Ha. reflexivity.
Qed.
Lemma forallb_filter {A} (p q : A -> bool) l : forallb p l = true -> forallb p (filter q l) = true.
Proof.
  induction l as [|a l IH]; intros H; [reflexivity|]. cbn [forallb] in H.
  apply andb_true_iff in H. destruct H as [H1 H2]. cbn [filter].
  destruct (q a); [cbn [forallb]; rewrite H1; apply IH, H2|apply IH, H2].
Qed.

Lemma insert_child_no_table a n b :
  no_table a = true -> no_table n = true -> no_table (insert_child a n b) = true.
Proof.
  intros Ha Hn. destruct n as [i st].
  destruct i; cbn [no_table rn_info] in Hn; try discriminate Hn; cbn [insert_child];
    try (cbn [no_table rn_info]; apply forallb_ins; assumption);
    destruct b; unfold rn_new; cbn [no_table rn_info forallb]; rewrite Ha;
      cbn [no_table rn_info] ; rewrite ?Hn; reflexivity.
Qed.

Lemma wrap_pseudo_no_table computed n : no_table n = true -> no_table (wrap_pseudo computed n) = true.
Proof.
  intros Hn. unfold wrap_pseudo.
  set (n1 := match cs_before computed with
             | Some c => match ws_val (c_content c) with
                         | Some t => insert_child (rn_new (IText (relabel L_deco t))) n true
                         | None => n
                         end
             | None => n
             end).
  assert (E1 : no_table n1 = true).
  { subst n1. destruct (cs_before computed) as [c|]; [|exact Hn].
    destruct (ws_val (c_content c)); [|exact Hn]. apply insert_child_no_table; [reflexivity|exact Hn]. }
  destruct (cs_after computed) as [c|]; [|exact E1].
  destruct (ws_val (c_content c)); [|exact E1]. apply insert_child_no_table; [reflexivity|exact E1].
Qed.

Lemma post_no_table computed frag base :
  (forall b, base = Some b -> no_table b = true) ->
  forall x, post computed frag base = Some x -> no_table x = true.
Proof.
  intros Hb x. unfold post. destruct base as [b|]; destruct frag as [f|]; intros H; try discriminate H;
    injection H as <-.
  - apply insert_child_no_table; [reflexivity|]. apply wrap_pseudo_no_table, Hb. reflexivity.
  - apply wrap_pseudo_no_table, Hb. reflexivity.
  - reflexivity.
Qed.

Lemma pk_forallb (proc : node -> Z -> res (option rnode)) (P : rnode -> bool) : forall kids,
  Forall (fun k => forall i x, proc k i = Ok (Some x) -> P x = true) kids ->
  forall i cs, pk_of proc kids i = Ok cs -> forallb P cs = true.
Proof.
  induction kids as [|k kids IH]; intros HF i cs H.
  - cbn [pk_of] in H. ok_inv H. reflexivity.
  - inversion HF as [|? ? Hk Hkids]; subst.
    cbn [pk_of] in H. bind_inv H r Hr. bind_inv H rs0 Hrs. ok_inv H.
    specialize (IH Hkids _ _ Hrs). destruct r as [x|]; [|exact IH].
    cbn [forallb]. rewrite (Hk _ _ Hr), IH. reflexivity.
Qed.

Section NoTable.
  Variable sd : styledata.
  Variable udc : bool.
  Variable inl : list (text * text) -> res (list styledecl).
  Notation process := (process sd udc inl).

  Lemma process_no_table : forall n p idx x,
    table_free n = true -> process n p idx = Ok (Some x) -> no_table x = true.
  Proof.
    apply (node_ind' (fun n => forall p idx x,
             table_free n = true -> process n p idx = Ok (Some x) -> no_table x = true)).
    2:{ intros t p idx x _ H. cbn [Dom.process] in H. ok_inv H. reflexivity. }
    2:{ intros p idx x _ H. cbn [Dom.process] in H. discriminate H. }
    2:{ intros p idx x _ H. cbn [Dom.process] in H. discriminate H. }
    intros html name attrs kids IH p idx x Htf H.
    cbn [table_free] in Htf. apply andb_true_iff in Htf. destruct Htf as [Htk Htf].
    rewrite process_eq in H. unfold pbody in H. bind_inv H inls Hinl.
    set (me := mkanc name attrs idx :: p) in *.
    set (computed := computed_style sd me inls) in *.
    assert (NTk : forall cs, pk_of (fun k i => process k me i) kids 1%Z = Ok cs ->
                             forallb no_table cs = true).
    { intros cs Hcs. apply (pk_forallb (fun k i => process k me i) no_table kids) with (2 := Hcs).
      rewrite Forall_forall in *. rewrite forallb_forall in Htf. intros k Hk i y Hy.
      apply (IH k Hk _ _ _ (Htf k Hk) Hy). }
    clear IH Htf.
    destruct (ws_val (c_display (cs_core computed))) as [[|]|]; [discriminate H| |];
      (remember (Some x) as r eqn:Hr in H; bind_inv H base Hbase;
       assert (Er : r = post computed (fragment_of name (html && names [[97]] name) attrs) base)
         by (unfold post; destruct (fragment_of name (html && names [[97]] name) attrs) as [f|];
             [destruct base; injection H as H; symmetry; exact H|injection H as H; symmetry; exact H]);
       rewrite Er in Hr; clear H Er; revert x Hr; apply post_no_table;
       destruct html; cbn [negb andb] in *;
       [ rewrite html_base_eq in Hbase;
         destruct (kind_of name) eqn:Ek; cbn [table_kind negb] in Htk; try discriminate Htk;
         cbn [kind_leaf base_of] in Hbase;
         try (bind_inv Hbase cs Hcs; pose proof (NTk cs Hcs) as NT);
         unfold noempty_, mk_ in Hbase;
         try destruct (img_attrs attrs None None) as [[?|] [?|]];
         try destruct (find_attr attrs s_href);
         try destruct (existsb (fun c => negb (is_shallow_empty c)) cs);
         try (match type of Hbase with context [filter_info ?f ?l] =>
                assert (NT2 : forallb no_table (filter_info f l) = true)
                  by (apply forallb_filter; exact NT);
                revert NT2 Hbase; generalize (filter_info f l); intros fl NT2 Hbase
              end);
         (first [ok_inv Hbase | destruct cs; ok_inv Hbase]);
         intros b Hb;
         (first [discriminate Hb
                |injection Hb as <-; cbn [no_table rn_info]; first [reflexivity | assumption]])
       | bind_inv Hbase cs Hcs; pose proof (NTk cs Hcs) as NT;
         destruct cs; ok_inv Hbase; intros b Hb;
         [discriminate Hb|injection Hb as <-; cbn [no_table rn_info]; exact NT] ]).
  Qed.
End NoTable.

(* ================================================================== *)
(* 3. MAIN THEOREMS of Part 2                                           *)
(* ================================================================== *)
Section LinksMain.
  Variable sd : styledata.
  Variable udc : bool.
  Variable inl : list (text * text) -> res (list styledecl).

  (* one node *)
  Theorem process_links : forall n p idx t,
    table_free n = true -> process sd udc inl n p idx = Ok (Some t) ->
    all_links t = dlinks sd udc inl n p idx.
  Proof. intros n p idx t Htf H. exact (proj1 (process_links_tag sd udc inl n p idx _ Htf H)). Qed.

  (* a node that gives Nothing has no kept link *)
  Theorem process_nothing_links : forall n p idx,
    table_free n = true -> process sd udc inl n p idx = Ok None -> dlinks sd udc inl n p idx = [].
  Proof. intros n p idx Htf H. symmetry. exact (proj1 (process_links_tag sd udc inl n p idx _ Htf H)). Qed.

  (* the whole document *)
  Theorem dom_tree_links : forall doc tree,
    forallb table_free doc = true ->
    dom_to_render_tree sd udc inl doc = Ok tree ->
    all_links tree = dom_links sd udc inl doc /\ no_table tree = true.
  Proof.
    intros doc tree Htf H. unfold dom_to_render_tree in H. bind_inv H cs Hcs. ok_inv H.
    rewrite process_kids_eq in Hcs. unfold rn_new. rewrite all_links_container. split.
    - assert (KF : Forall (fun k => forall i r, process sd udc inl k [] i = Ok r ->
                     links_opt r = dlinks sd udc inl k [] i /\
                     (forall x, r = Some x -> ktag x = dtag k)) doc).
      { rewrite Forall_forall. rewrite forallb_forall in Htf. intros k Hk i r Hr.
        apply (process_links_tag sd udc inl k [] i r (Htf k Hk) Hr). }
      pose proof (pk_links (fun k i => process sd udc inl k [] i) (fun k i => dlinks sd udc inl k [] i)
                           f_all doc KF 1%Z cs Hcs) as E.
      unfold f_all in E. rewrite filter_all in E. exact E.
    - cbn [no_table rn_info].
      apply (pk_forallb (fun k i => process sd udc inl k [] i) no_table doc) with (2 := Hcs).
      rewrite Forall_forall. rewrite forallb_forall in Htf. intros k Hk i x Hx.
      apply (process_no_table sd udc inl k [] i x (Htf k Hk) Hx).
  Qed.
End LinksMain.
Print Assumptions process_links.
Print Assumptions dom_tree_links.

Section LinksRoutes.
  Variable inline_styles : list (text * text) -> res (list styledecl).
  Variable doc_rules : list node -> res (list ruleset).

  (* the links of the document at the style sheet the route uses *)
  Definition doc_links (c : config) (doc : list node) : list text :=
    match effective_sd doc_rules c doc with
    | Ok sd => dom_links sd (c_use_doc_css c) inline_styles doc
    | _ => []
    end.

  Theorem c08_tree_links : forall (c : config) (doc : list node) (tree : rnode),
    forallb table_free doc = true ->
    to_render_tree inline_styles doc_rules c doc = Ok tree ->
    all_links tree = doc_links c doc /\ no_table tree = true.
  Proof.
    intros c doc tree Htf H. unfold to_render_tree in H. bind_inv H sd Hsd.
    unfold doc_links. rewrite Hsd. apply (dom_tree_links _ _ _ doc tree Htf H).
  Qed.

  (* with Footnotes.render_tree_footnotes / link_targets_no_table: the list of link targets the
     renderer collects - the footnote list: entry k is "[k]: " ++ the k-th element
     (Footnotes.render_tree_footnote_entry, fmt_links_spec) - is exactly the list of the kept
     <a href> of the document, in document order; at every width, for every decorator *)
  Theorem c08_footnote_list : forall (c : config) (doc : list node) (tree : rnode) width s,
    forallb table_free doc = true ->
    to_render_tree inline_styles doc_rules c doc = Ok tree ->
    render_tree (c_deco c) (c_min_wrap c) (render_options c) width tree = Ok s ->
    exists st body,
      render_node (c_deco c) (c_min_wrap c) tree (mkrst [sub_new width (render_options c)] []) = Ok st /\
      stack st = [body] /\ links st = doc_links c doc /\
      match (if o_footnotes (render_options c) then doc_links c doc else []) with
      | [] => s = body
      | _ :: _ => exists b1, start_block body = Ok b1 /\
                             s = fmt_links b1 (finalise_from 1 (doc_links c doc))
      end.
  Proof.
    intros c doc tree width s Htf Ht Hr.
    destruct (c08_tree_links c doc tree Htf Ht) as [El Hn].
    destruct (render_tree_footnotes _ _ _ _ _ _ Hr) as (st & body & H1 & H2 & H3 & _ & _ & H6).
    rewrite (link_targets_no_table _ _ _ tree Hn), El in H3, H6.
    exists st, body. repeat (split; [assumption|]). exact H6.
  Qed.
End LinksRoutes.
Print Assumptions c08_tree_links.
Print Assumptions c08_footnote_list.

(* ================================================================== *)
(* 4. Examples (non-vacuity)                                            *)
(* ================================================================== *)
Module DomInlineExamples.
Import PruneExamples.
Import String.
Local Open Scope string_scope.

(* ---- Part 1: <a href=u>u</a>, the text IS the target: still an ILink ---- *)
Definition a_self : node := el "a" [("href", "u")] [tx "u"].
Example a_self_hyps :
  exists c, style_of styledata0 false inline_styles (t "a") [(t "href", t "u")] [] 1%Z = Ok c /\
            shown c = true /\ cps (t "a") = [97%N] /\
            find_attr [(t "href", t "u")] s_href = Some (t "u") /\
            In (NText (t "u")) [tx "u"] /\ all_ws (t "u") = false.
Proof. eexists. repeat split; try (vm_compute; reflexivity). left. reflexivity. Qed.
Example a_self_is_link :
  exists st, process styledata0 false inline_styles a_self [] 1%Z =
             Ok (Some (RN (ILink (t "u") [rn_new (IText (t "u"))]) st)).
Proof. eexists. vm_compute. reflexivity. Qed.
(* the same under the document's own sheet and with an id: fragment marker first, link kept *)
Example a_self_id_is_link :
  exists st, process styledata0 true inline_styles
                     (el "a" [("id", "k"); ("href", "u"); ("href", "other")] [tx "u"]) [] 1%Z =
             Ok (Some (rn_new (IContainer [rn_new (IFragStart (t "k"));
                                           RN (ILink (t "u") [rn_new (IText (t "u"))]) st]))).
Proof. eexists. vm_compute. reflexivity. Qed.
(* only white space / only an empty unknown element / hidden child: no link, Nothing *)
Example a_blank_dropped :
  map (fun n => process styledata0 true inline_styles n [] 1%Z)
      [el "a" [("href", "w")] [tx "  "]; el "a" [("href", "w")] [el "b" [] []];
       el "a" [("href", "w")] [el "em" hide [tx "q"]]; el "a" [("href", "w")] [el "br" [] []]] =
  [Ok None; Ok None; Ok None; Ok None].
Proof. vm_compute. reflexivity. Qed.
(* ... but the test is one level deep only: an <em> holding a blank text is NOT shallow-empty,
   the link is kept although nothing visible is inside (an empty <em></em> is dropped) *)
Example a_blank_em_kept :
  exists st st2, process styledata0 true inline_styles (el "a" [("href", "w")] [el "em" [] [tx " "]]) [] 1%Z =
                 Ok (Some (RN (ILink (t "w") [RN (IEm [rn_new (IText (t " "))]) st2]) st)).
Proof. eexists. eexists. vm_compute. reflexivity. Qed.
Example a_empty_em_dropped :
  process styledata0 true inline_styles (el "a" [("href", "w")] [el "em" [] []]) [] 1%Z = Ok None.
Proof. vm_compute. reflexivity. Qed.
(* img: the last non-empty alt before both are known; empty values ignored *)
Example img_attrs_ex :
  img_attrs [(t "alt", t "x"); (t "alt", t ""); (t "alt", t "y"); (t "src", t ""); (t "src", t "s");
             (t "alt", t "z"); (t "src", t "s2")] None None = (Some (t "y"), Some (t "s")).
Proof. vm_compute. reflexivity. Qed.

(* ---- Part 2 ---- *)
Definition docL : list node :=
  [el "html" []
    [el "head" [] [el "a" [("href", "h0")] [tx "in head"]];
     el "body" []
      [el "p" [] [tx "see "; el "a" [("href", "u")] [tx "u"]; tx " and ";
                  el "a" [("href", "v"); ("href", "v2"); ("id", "f")] [el "em" [] [tx "x"]]];
       el "a" [("href", "w")] [tx "  "];
       el "a" [("href", "w2")] [el "b" [] []];
       el "ol" [] [el "li" [] [el "a" [("href", "l1")] [tx "one"]];
                   el "a" [("href", "lost")] [tx "loose"]];
       el "span" hide [el "a" [("href", "hid")] [tx "hidden"]];
       el "a" [] [tx "no href"]]]].
Definition treeL : rnode :=
  match to_render_tree inline_styles doc_rules cfg docL with Ok tr => tr | _ => rn_new IBreak end.

Example docL_table_free : forallb table_free docL = true.
Proof. vm_compute. reflexivity. Qed.
Example docL_tree : to_render_tree inline_styles doc_rules cfg docL = Ok treeL.
Proof. vm_compute. reflexivity. Qed.
(* the kept links: u (text = target), v (first href; id), l1 (inside <li>); not: h0 (head),
   w / w2 (blank), lost (loose child of <ol>), hid (display:none) *)
Example docL_links : doc_links inline_styles doc_rules cfg docL = [t "u"; t "v"; t "l1"].
Proof. vm_compute. reflexivity. Qed.
Example docL_tree_links : all_links treeL = [t "u"; t "v"; t "l1"].
Proof.
  rewrite (proj1 (c08_tree_links inline_styles doc_rules cfg docL treeL docL_table_free docL_tree)).
  exact docL_links.
Qed.
(* "see [u][1] and [*x*][2]\n1. [one][3]\n\nno href\n\n[1]: u\n[2]: v\n[3]: l1\n" *)
Example docL_out :
  out cfg docL =
  Ok [115; 101; 101; 32; 91; 117; 93; 91; 49; 93; 32; 97; 110; 100; 32;
      91; 42; 120; 42; 93; 91; 50; 93; 10; 49; 46; 32; 91; 111; 110; 101;
      93; 91; 51; 93; 10; 10; 110; 111; 32; 104; 114; 101; 102; 10; 10;
      91; 49; 93; 58; 32; 117; 10; 91; 50; 93; 58; 32; 118; 10; 91; 51;
      93; 58; 32; 108; 49; 10]%N.
Proof. vm_compute. reflexivity. Qed.
Example docL_render_ok :
  exists s, render_tree (c_deco cfg) (c_min_wrap cfg) (render_options cfg) 30 treeL = Ok s.
Proof. eexists. vm_compute. reflexivity. Qed.
End DomInlineExamples.
