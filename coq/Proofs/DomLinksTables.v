(* DomLinksTables.v -- DomInline's Part 2 (links of the render tree = kept <a href> of the DOM)
   WITHOUT the `table_free` hypothesis: tables, table sections, rows and cells included.

   `dlinks_t` extends `DomInline.dlinks` to the table elements, following `process` /
   `build_element`:  a <table> keeps only the rows of its thead/tbody children (a <tr> directly
   under <table> and any other child are dropped WITH their links), a thead/tbody keeps its <tr>
   children, a <tr> its td/th children, a td/th everything that is not itself a bare table part;
   an ordinary element drops the bare table parts (thead/tbody/tr/td/th results) among its
   children (`all_links` of a bare ITableBody/ITableRow/ITableCell is []: never rendered).
   `glinks` = `all_links`, looking also inside a bare table part at the ROOT (as DomRel.gs).  *)
From H2T Require Import Base Tagged Wrap Sub Css Dom Render Api CssParse.
From H2T Require Import Proofs.RenderWidth Proofs.Footnotes Proofs.Prune Proofs.DomRel Proofs.DomInline.
From Coq Require Import Lia ZifyN ZifyBool ZifyNat.
Import ListNotations.

Local Arguments N.add : simpl never.
Local Arguments N.sub : simpl never.
Local Arguments N.mul : simpl never.
Local Arguments N.leb : simpl never.
Local Arguments N.ltb : simpl never.
Local Arguments N.eqb : simpl never.
Local Arguments N.min : simpl never.
Local Arguments N.max : simpl never.
Local Open Scope N_scope.

(* ================================================================== *)
(* 1. tree side: glinks                                                 *)
(* ================================================================== *)
Definition cells_l (cells : list rcell) : list text :=
  flat_map (fun c => match c with RCell _ k _ => flat_map all_links k end) cells.
Definition rows_l (rows : list rrow) : list text :=
  flat_map (fun r => match r with RRow cells _ => cells_l cells end) rows.

Definition glinks (x : rnode) : list text :=
  match rn_info x with
  | ITableCell (RCell _ k _) => flat_map all_links k
  | ITableRow (RRow cells _) => cells_l cells
  | ITableBody rows => rows_l rows
  | _ => all_links x
  end.
Definition glinks_opt (r : option rnode) : list text :=
  match r with Some x => glinks x | None => [] end.

(* the links of a finished table: its rows, its cells, in order *)
Lemma all_links_table rows nc st : all_links (RN (ITable rows nc) st) = rows_l rows.
Proof. reflexivity. Qed.

Lemma glinks_nonbare x : bare x = false -> glinks x = all_links x.
Proof. destruct x as [i st]. destruct i; cbn [bare rn_info]; try discriminate; reflexivity. Qed.

(* selection by the constructor tag (DomRel.ktag: li 1, dt 2, dd 3, body 4, row 5, cell 6) *)
Definition f_nb (t : nat) : bool := match t with 4 | 5 | 6 => false | _ => true end%nat.
Definition f_body (t : nat) : bool := Nat.eqb t 4.
Definition f_row (t : nat) : bool := Nat.eqb t 5.
Definition f_cell (t : nat) : bool := Nat.eqb t 6.
Definition sel (f : nat -> bool) (x : rnode) : list text := if f (ktag x) then glinks x else [].

(* all_links sees nothing inside a bare table part *)
Lemma all_links_sel x : all_links x = sel f_nb x.
Proof. destruct x as [i st]. destruct i; reflexivity. Qed.
Lemma flat_all_links cs : flat_map all_links cs = flat_map (sel f_nb) cs.
Proof. apply flat_map_ext. intros x. apply all_links_sel. Qed.

Lemma li_sel cs :
  flat_map all_links (filter_info (fun i => match i with IListItem _ => true | _ => false end) cs) =
  flat_map (sel f_li) cs.
Proof.
  rewrite filter_info_li, flat_map_filter. apply flat_map_ext. intros [i st]. destruct i; reflexivity.
Qed.
Lemma dtdd_sel cs :
  flat_map all_links (filter_info (fun i => match i with IDt _ | IDd _ => true | _ => false end) cs) =
  flat_map (sel f_dtdd) cs.
Proof.
  rewrite filter_info_dtdd, flat_map_filter. apply flat_map_ext. intros [i st]. destruct i; reflexivity.
Qed.
Lemma rows_of_bodies cs :
  rows_l (flat_map (fun n => match rn_info n with ITableBody b => b | _ => [] end) cs) =
  flat_map (sel f_body) cs.
Proof.
  unfold rows_l. rewrite flat_map_flat_map. apply flat_map_ext. intros [i st].
  destruct i; reflexivity.
Qed.
Lemma rows_of_rows cs :
  rows_l (flat_map (fun n => match rn_info n with ITableRow r => [r] | _ => [] end) cs) =
  flat_map (sel f_row) cs.
Proof.
  unfold rows_l. rewrite flat_map_flat_map. apply flat_map_ext. intros [i st].
  destruct i; try reflexivity. destruct r as [cells s]. cbn [rn_info flat_map]. apply app_nil_r.
Qed.
Lemma cells_of_cells cs :
  cells_l (flat_map (fun n => match rn_info n with ITableCell c => [c] | _ => [] end) cs) =
  flat_map (sel f_cell) cs.
Proof.
  unfold cells_l. rewrite flat_map_flat_map. apply flat_map_ext. intros [i st].
  destruct i; try reflexivity. destruct c as [n k s]. cbn [rn_info flat_map]. apply app_nil_r.
Qed.

(* ---- insert_child / wrap_pseudo / post ---- *)
Lemma cells_l_ins b a cells : all_links a = [] -> cells_l (ins_first_cell b a cells) = cells_l cells.
Proof.
  intros H. destruct cells as [|[n k s] cells]; [reflexivity|].
  unfold cells_l. cbn [ins_first_cell flat_map]. rewrite (flat_map_ins all_links b a k H). reflexivity.
Qed.
Lemma rows_l_ins b a rows : all_links a = [] -> rows_l (ins_first_row b a rows) = rows_l rows.
Proof.
  intros H. destruct rows as [|[cells s] rows]; [reflexivity|].
  unfold rows_l. cbn [ins_first_row flat_map]. rewrite (cells_l_ins b a cells H). reflexivity.
Qed.

Lemma insert_child_glinks a n b : all_links a = [] -> glinks (insert_child a n b) = glinks n.
Proof.
  intros H. destruct (bare n) eqn:Eb.
  - destruct n as [i st]. destruct i; cbn [bare rn_info] in Eb; try discriminate Eb; cbn [insert_child].
    + (* body *) unfold glinks. cbn [rn_info]. apply rows_l_ins, H.
    + (* row *) destruct r as [cells s]. unfold glinks. cbn [rn_info]. apply cells_l_ins, H.
    + (* cell *) destruct c as [k cs s]. unfold glinks. cbn [rn_info]. apply (flat_map_ins all_links), H.
  - rewrite (glinks_nonbare _ Eb). rewrite glinks_nonbare by (rewrite insert_child_bare; exact Eb).
    apply insert_child_links, H.
Qed.

Lemma wrap_pseudo_glinks computed n : glinks (wrap_pseudo computed n) = glinks n.
Proof.
  unfold wrap_pseudo.
  set (n1 := match cs_before computed with
             | Some c => match ws_val (c_content c) with
                         | Some t => insert_child (rn_new (IText (relabel L_deco t))) n true
                         | None => n
                         end
             | None => n
             end).
  assert (E1 : glinks n1 = glinks n).
  { subst n1. destruct (cs_before computed) as [c|]; [|reflexivity].
    destruct (ws_val (c_content c)); [|reflexivity]. apply insert_child_glinks. reflexivity. }
  destruct (cs_after computed) as [c|]; [|exact E1].
  destruct (ws_val (c_content c)); [|exact E1]. rewrite insert_child_glinks; [exact E1|reflexivity].
Qed.

Lemma post_glinks computed frag base : glinks_opt (post computed frag base) = glinks_opt base.
Proof.
  unfold post. destruct base as [b|]; destruct frag as [f|]; cbn [glinks_opt]; try reflexivity.
  - rewrite insert_child_glinks; [apply wrap_pseudo_glinks|reflexivity].
  - apply wrap_pseudo_glinks.
Qed.

(* ---- the table constructors keep the cells and their contents, in order ---- *)
Lemma remap_cells_l set : forall cells pos mapped cells',
  remap_cells set cells pos mapped = Ok cells' -> cells_l cells' = cells_l cells.
Proof.
  induction cells as [|[n k s] cells IH]; intros pos mapped cells' H; cbn [remap_cells] in H.
  - ok_inv H. reflexivity.
  - bind_inv H np Hnp. destruct (index_of np set 0) as [nm|]; [|discriminate].
    bind_inv H cs Hcs. bind_inv H r Hr. ok_inv H.
    unfold cells_l in *. cbn [flat_map]. rewrite (IH _ _ _ Hr). reflexivity.
Qed.
Lemma remap_rows_l set : forall rows rows',
  remap_rows set rows = Ok rows' -> rows_l rows' = rows_l rows.
Proof.
  induction rows as [|[cells s] rows IH]; intros rows' H; cbn [remap_rows] in H.
  - ok_inv H. reflexivity.
  - bind_inv H cells' Hc. bind_inv H r Hr. ok_inv H.
    unfold rows_l in *. cbn [flat_map]. rewrite (IH _ Hr), (remap_cells_l _ _ _ _ _ Hc). reflexivity.
Qed.
Lemma render_table_new_l rows t st :
  render_table_new rows = Ok t -> glinks (RN t st) = rows_l rows.
Proof.
  unfold render_table_new. intros H. bind_inv H ps Hps. bind_inv H rows' Hr. ok_inv H.
  unfold glinks. cbn [rn_info]. rewrite all_links_table. apply (remap_rows_l _ _ _ Hr).
Qed.

Lemma fix_zero_colspan_l maxc r cnt :
  rows_l [fix_zero_colspan maxc r cnt] = rows_l [r].
Proof.
  unfold fix_zero_colspan. destruct (fst cnt); [|reflexivity]. destruct r as [cells s].
  unfold rows_l. cbn [flat_map]. f_equal. unfold cells_l.
  induction cells as [|[n k st] cells IH]; [reflexivity|]. cbn [map flat_map]. rewrite IH.
  destruct (n =? 0); reflexivity.
Qed.
Lemma map2_fix_l maxc : forall rows counts, length counts = length rows ->
  rows_l (map2 (fix_zero_colspan maxc) rows counts) = rows_l rows.
Proof.
  induction rows as [|r rows IH]; intros counts H; [reflexivity|].
  destruct counts as [|c counts]; [discriminate|]. cbn [map2].
  change (fix_zero_colspan maxc r c :: map2 (fix_zero_colspan maxc) rows counts)
    with ([fix_zero_colspan maxc r c] ++ map2 (fix_zero_colspan maxc) rows counts).
  change (r :: rows) with ([r] ++ rows). unfold rows_l in *. rewrite !flat_map_app.
  rewrite (IH counts) by (cbn [length] in H; lia). f_equal. apply fix_zero_colspan_l.
Qed.
Lemma tbody_rows_l rows rows' : tbody_rows rows = Ok rows' -> rows_l rows' = rows_l rows.
Proof.
  unfold tbody_rows. intros H. bind_inv H counts Hc. ok_inv H.
  apply map2_fix_l, (rows_counts_len _ _ Hc).
Qed.

(* ---- what the four table kinds build ---- *)
Lemma base_table attrs computed cs base :
  base_of KTable attrs computed cs = Ok base ->
  glinks_opt base = flat_map (sel f_body) cs /\ (forall b, base = Some b -> ktag b = 0%nat).
Proof.
  cbn [base_of]. rewrite <- rows_of_bodies.
  generalize (flat_map (fun n => match rn_info n with ITableBody b => b | _ => [] end) cs).
  intros rows H. destruct rows as [|r0 rows0].
  - ok_inv H. split; [reflexivity|intros b Hb; discriminate Hb].
  - bind_inv H t Ht. ok_inv H. split.
    + cbn [glinks_opt]. apply (render_table_new_l _ _ _ Ht).
    + intros b Hb. injection Hb as <-. apply (render_table_new_tag _ _ _ Ht).
Qed.
Lemma base_section attrs computed cs base :
  base_of KSection attrs computed cs = Ok base ->
  glinks_opt base = flat_map (sel f_row) cs /\ (forall b, base = Some b -> ktag b = 4%nat).
Proof.
  intros H. destruct cs as [|c0 cs0].
  { cbn [base_of] in H. ok_inv H. split; [reflexivity|intros b Hb; discriminate Hb]. }
  cbn [base_of] in H. rewrite <- rows_of_rows. revert H.
  generalize (flat_map (fun n => match rn_info n with ITableRow r => [r] | _ => [] end) (c0 :: cs0)).
  intros rows H. bind_inv H rows' Hr. unfold mk_ in H. ok_inv H. split.
  - cbn [glinks_opt]. unfold glinks. cbn [rn_info]. apply (tbody_rows_l _ _ Hr).
  - intros b Hb. injection Hb as <-. reflexivity.
Qed.
Lemma base_tr attrs computed cs base :
  base_of KTr attrs computed cs = Ok base ->
  glinks_opt base = flat_map (sel f_cell) cs /\ (forall b, base = Some b -> ktag b = 5%nat).
Proof.
  cbn [base_of]. unfold mk_. intros H. ok_inv H. split.
  - cbn [glinks_opt]. unfold glinks. cbn [rn_info]. apply cells_of_cells.
  - intros b Hb. injection Hb as <-. reflexivity.
Qed.
Lemma base_cell attrs computed cs base :
  base_of KCell attrs computed cs = Ok base ->
  glinks_opt base = flat_map (sel f_nb) cs /\ (forall b, base = Some b -> ktag b = 6%nat).
Proof.
  cbn [base_of]. unfold mk_. intros H. ok_inv H. split.
  - cbn [glinks_opt]. unfold glinks. cbn [rn_info]. apply flat_all_links.
  - intros b Hb. injection Hb as <-. reflexivity.
Qed.

(* ================================================================== *)
(* 2. DOM side: dlinks_t                                                *)
(* ================================================================== *)
(* the constructor an element's result has, when it has one with links: DomInline.dtag
   (li 1, dt 2, dd 3) extended by thead/tbody 4, tr 5, td/th 6 *)
Definition dtag_t (n : node) : nat :=
  match n with
  | NElem true name _ _ =>
    match kind_of name with
    | KLi => 1 | KDt => 2 | KDd => 3 | KSection => 4 | KTr => 5 | KCell => 6 | _ => 0
    end
  | _ => 0
  end%nat.
Definition dsub_t (f : nat -> bool) (dl : node -> Z -> list text) (kids : list node) : list text :=
  lk_of (fun k i => if f (dtag_t k) then dl k i else []) kids 1%Z.

Section LinksT.
  Variable sd : styledata.
  Variable udc : bool.
  Variable inl : list (text * text) -> res (list styledecl).

  (* the hrefs of the kept <a href> elements in document order (a_kept: DomInline), with the
     table elements.  For a thead/tbody/tr/td/th node itself this is the list of links INSIDE
     the part (what a table ancestor will use); an ordinary parent (f_nb) drops these parts. *)
  Fixpoint dlinks_t (n : node) (p : list anc) (idx : Z) {struct n} : list text :=
    match n with
    | NElem html name attrs kids =>
      let me := mkanc name attrs idx :: p in
      if hidden sd udc inl me attrs then []
      else if negb html then dsub_t f_nb (fun k i => dlinks_t k me i) kids
      else match kind_of name with
           | KImg | KBr | KSkip => []
           | KTable => dsub_t f_body (fun k i => dlinks_t k me i) kids
           | KSection => dsub_t f_row (fun k i => dlinks_t k me i) kids
           | KTr => dsub_t f_cell (fun k i => dlinks_t k me i) kids
           | KA => match find_attr attrs s_href with
                   | Some href =>
                     if a_kept sd udc inl me kids
                     then href :: dsub_t f_nb (fun k i => dlinks_t k me i) kids else []
                   | None => dsub_t f_nb (fun k i => dlinks_t k me i) kids
                   end
           | KOl => dsub_t f_li (fun k i => dlinks_t k me i) kids
           | KDl => dsub_t f_dtdd (fun k i => dlinks_t k me i) kids
           | _ => dsub_t f_nb (fun k i => dlinks_t k me i) kids    (* KCell too *)
           end
    | _ => []
    end.
  (* the document: the root container is an ordinary parent *)
  Definition dom_links_t (doc : list node) : list text :=
    lk_of (fun k i => if f_nb (dtag_t k) then dlinks_t k [] i else []) doc 1%Z.
End LinksT.

(* ---- dlinks_t = dlinks on table-free nodes ---- *)
Lemma dtag_t_free k : table_free k = true -> dtag_t k = dtag k.
Proof.
  destruct k as [html name attrs kids| | |]; try reflexivity. cbn [table_free dtag_t dtag].
  destruct html; [|reflexivity]. cbn [andb]. destruct (kind_of name); cbn [table_kind negb andb];
    intros H; try discriminate H; reflexivity.
Qed.
Lemma f_nb_free k : table_free k = true -> f_nb (dtag_t k) = true.
Proof.
  intros H. rewrite (dtag_t_free k H). destruct k as [html name attrs kids| | |]; try reflexivity.
  cbn [dtag]. destruct html; [|reflexivity]. destruct (kind_of name); reflexivity.
Qed.
Lemma lk_of_ext (f g : node -> Z -> list text) : forall kids,
  Forall (fun k => forall i, f k i = g k i) kids -> forall i, lk_of f kids i = lk_of g kids i.
Proof.
  induction kids as [|k kids IH]; intros HF i; [reflexivity|].
  inversion HF as [|? ? Hk Hkids]; subst. cbn [lk_of]. rewrite Hk, (IH Hkids). reflexivity.
Qed.

Theorem dlinks_t_table_free sd udc inl : forall n p idx,
  table_free n = true -> dlinks_t sd udc inl n p idx = dlinks sd udc inl n p idx.
Proof.
  apply (node_ind' (fun n => forall p idx, table_free n = true ->
                                dlinks_t sd udc inl n p idx = dlinks sd udc inl n p idx));
    try reflexivity.
  intros html name attrs kids IH p idx Htf.
  cbn [table_free] in Htf. apply andb_true_iff in Htf. destruct Htf as [Htk Htf].
  cbn [dlinks_t dlinks].
  set (me := mkanc name attrs idx :: p).
  assert (D : forall f f', (forall k, table_free k = true -> f (dtag_t k) = f' (dtag k)) ->
              dsub_t f (fun k i => dlinks_t sd udc inl k me i) kids =
              dsub f' (fun k i => dlinks sd udc inl k me i) kids).
  { intros f f' Hf. unfold dsub_t, dsub. apply lk_of_ext.
    rewrite Forall_forall in *. rewrite forallb_forall in Htf. intros k Hk i.
    rewrite (Hf k (Htf k Hk)), (IH k Hk me i (Htf k Hk)). reflexivity. }
  assert (Dall := D f_nb f_all (fun k Hk => f_nb_free k Hk)).
  assert (Dli := D f_li f_li (fun k Hk => f_equal f_li (dtag_t_free k Hk))).
  assert (Ddl := D f_dtdd f_dtdd (fun k Hk => f_equal f_dtdd (dtag_t_free k Hk))).
  destruct (hidden sd udc inl me attrs); [reflexivity|].
  destruct html; cbn [negb andb] in *; [|exact Dall].
  destruct (kind_of name); cbn [table_kind negb] in Htk; try discriminate Htk;
    try reflexivity; try exact Dall; try exact Dli; try exact Ddl.
  destruct (find_attr attrs s_href); [|exact Dall].
  destruct (a_kept sd udc inl me kids); [|reflexivity]. rewrite Dall. reflexivity.
Qed.
Print Assumptions dlinks_t_table_free.

Lemma dom_links_t_table_free sd udc inl doc :
  forallb table_free doc = true -> dom_links_t sd udc inl doc = dom_links sd udc inl doc.
Proof.
  intros Htf. unfold dom_links_t, dom_links. apply lk_of_ext.
  rewrite Forall_forall. rewrite forallb_forall in Htf. intros k Hk i.
  rewrite (f_nb_free k (Htf k Hk)). apply dlinks_t_table_free, Htf, Hk.
Qed.

(* ================================================================== *)
(* 3. the child loop                                                    *)
(* ================================================================== *)
Lemma pk_sel (proc : node -> Z -> res (option rnode)) (dl : node -> Z -> list text)
      (f : nat -> bool) : forall kids,
  Forall (fun k => forall i r, proc k i = Ok r ->
                     glinks_opt r = dl k i /\
                     (forall x, r = Some x -> ktag x = dtag_t k \/ glinks x = [])) kids ->
  forall i cs, pk_of proc kids i = Ok cs ->
  flat_map (sel f) cs = lk_of (fun k i => if f (dtag_t k) then dl k i else []) kids i.
Proof.
  induction kids as [|k kids IH]; intros HF i cs H.
  - cbn [pk_of] in H. ok_inv H. reflexivity.
  - inversion HF as [|? ? Hk Hkids]; subst.
    cbn [pk_of] in H. bind_inv H r Hr. bind_inv H rs0 Hrs. ok_inv H.
    change (match k with NElem _ _ _ _ => true | _ => false end) with (is_elem k) in Hrs.
    specialize (IH Hkids _ _ Hrs). destruct (Hk _ _ Hr) as [Hl Ht]. cbn [lk_of]. rewrite <- IH.
    destruct r as [x|]; cbn [glinks_opt] in Hl.
    + cbn [flat_map]. f_equal. unfold sel. rewrite <- Hl. destruct (Ht x eq_refl) as [E|E].
      * rewrite E. reflexivity.
      * rewrite E. destruct (f (ktag x)); destruct (f (dtag_t k)); reflexivity.
    + rewrite <- Hl. destruct (f (dtag_t k)); reflexivity.
Qed.

(* ================================================================== *)
(* 4. the induction over `process`: no hypothesis on the node           *)
(* ================================================================== *)
Section LinksTProof.
  Variable sd : styledata.
  Variable udc : bool.
  Variable inl : list (text * text) -> res (list styledecl).
  Notation process := (process sd udc inl).
  Notation dlinks_t := (dlinks_t sd udc inl).

  Ltac tg := let b := fresh "b" in let Hb := fresh "Hb" in
             intros b Hb; first [discriminate Hb | injection Hb as <-; reflexivity].

  Lemma process_glinks_tag : forall n p idx r,
    process n p idx = Ok r ->
    glinks_opt r = dlinks_t n p idx /\ (forall x, r = Some x -> ktag x = dtag_t n \/ glinks x = []).
  Proof.
    apply (node_ind' (fun n => forall p idx r,
             process n p idx = Ok r ->
             glinks_opt r = dlinks_t n p idx /\
             (forall x, r = Some x -> ktag x = dtag_t n \/ glinks x = []))).
    2:{ intros t p idx r H. cbn [Dom.process] in H. ok_inv H. split; [reflexivity|].
        intros x Hx. injection Hx as <-. left. reflexivity. }
    2:{ intros p idx r H. cbn [Dom.process] in H. ok_inv H. split; [reflexivity|]. intros x Hx. discriminate Hx. }
    2:{ intros p idx r H. cbn [Dom.process] in H. ok_inv H. split; [reflexivity|]. intros x Hx. discriminate Hx. }
    intros html name attrs kids IH p idx r H.
    assert (KF : Forall (fun k => forall i r, process k (mkanc name attrs idx :: p) i = Ok r ->
                   glinks_opt r = dlinks_t k (mkanc name attrs idx :: p) i /\
                   (forall x, r = Some x -> ktag x = dtag_t k \/ glinks x = [])) kids).
    { rewrite Forall_forall in *. intros k Hk i r0 Hr0. apply (IH k Hk _ _ _ Hr0). }
    clear IH.
    cbn [DomLinksTables.dlinks_t].
    destruct (hidden sd udc inl (mkanc name attrs idx :: p) attrs) eqn:Eh.
    { rewrite (process_hidden sd udc inl _ _ _ _ _ _ Eh) in H. ok_inv H. split; [reflexivity|].
      intros x Hx. discriminate Hx. }
    rewrite process_eq in H. unfold pbody in H. unfold hidden in Eh.
    bind_inv H inls Hinl. rewrite Hinl in Eh.
    set (me := mkanc name attrs idx :: p) in *.
    set (computed := computed_style sd me inls) in *.
    assert (Hm : forall (X : Type) (a b : X),
               match ws_val (c_display (cs_core computed)) with Some true => a | _ => b end = b).
    { intros X a b. destruct (ws_val (c_display (cs_core computed))) as [[|]|];
        [discriminate Eh|reflexivity|reflexivity]. }
    rewrite Hm in H. clear Hm Eh.
    bind_inv H base Hbase.
    assert (Er : r = post computed (fragment_of name (html && names [[97]] name) attrs) base).
    { unfold post. destruct (fragment_of name (html && names [[97]] name) attrs) as [f|].
      - destruct base; ok_inv H; reflexivity.
      - ok_inv H. reflexivity. }
    clear H. subst r. rewrite post_glinks.
    assert (HP : forall (L : list text) (T : nat),
               glinks_opt base = L -> (forall b, base = Some b -> ktag b = T) ->
               glinks_opt base = L /\
               (forall x, post computed (fragment_of name (html && names [[97]] name) attrs) base = Some x ->
                          ktag x = T \/ glinks x = [])).
    { intros L T HL HT. split; [exact HL|]. intros x Hx. destruct base as [b|].
      - left. rewrite (post_ktag _ _ _ _ Hx). apply HT. reflexivity.
      - right. pose proof (post_glinks computed (fragment_of name (html && names [[97]] name) attrs) None) as E.
        rewrite Hx in E. exact E. }
    assert (PL : forall f cs, pk_of (fun k i => process k me i) kids 1%Z = Ok cs ->
                 flat_map (sel f) cs = dsub_t f (fun k i => dlinks_t k me i) kids).
    { intros f cs Hcs. unfold dsub_t.
      apply (pk_sel (fun k i => process k me i) (fun k i => dlinks_t k me i) f kids KF 1%Z cs Hcs). }
    assert (EA : forall cs, pk_of (fun k i => process k me i) kids 1%Z = Ok cs ->
                 flat_map all_links cs = dsub_t f_nb (fun k i => dlinks_t k me i) kids).
    { intros cs Hcs. rewrite flat_all_links. apply PL, Hcs. }
    cbn [dtag_t].
    destruct html; cbn [negb andb] in *.
    - (* HTML element *)
      rewrite html_base_eq in Hbase.
      destruct (kind_of name) eqn:Ek; cbn [kind_leaf] in Hbase.
      + (* img *) cbn [base_of] in Hbase.
        destruct (img_attrs attrs None None) as [[t|] [s|]]; ok_inv Hbase; apply HP; try reflexivity; tg.
      + (* br *) cbn [base_of] in Hbase. ok_inv Hbase; apply HP; [reflexivity|tg].
      + (* skip *) cbn [base_of] in Hbase. ok_inv Hbase; apply HP; [reflexivity|tg].
      + (* root *) bind_inv Hbase cs Hcs. cbn [base_of] in Hbase. rewrite <- (EA cs Hcs).
        unfold mk_ in Hbase. ok_inv Hbase. apply HP; [reflexivity|tg].
      + (* span *) bind_inv Hbase cs Hcs. cbn [base_of] in Hbase. rewrite <- (EA cs Hcs).
        unfold noempty_, mk_ in Hbase. destruct cs; ok_inv Hbase; (apply HP; [reflexivity|tg]).
      + (* a *) bind_inv Hbase cs Hcs. cbn [base_of] in Hbase. rewrite <- (EA cs Hcs).
        unfold a_kept, kids_of. fold me. rewrite Hcs.
        destruct (find_attr attrs s_href) as [href|].
        * destruct (existsb (fun c => negb (is_shallow_empty c)) cs); unfold mk_ in Hbase; ok_inv Hbase;
            (apply HP; [reflexivity|tg]).
        * unfold mk_ in Hbase; ok_inv Hbase; (apply HP; [reflexivity|tg]).
      + (* em *) bind_inv Hbase cs Hcs. cbn [base_of] in Hbase. rewrite <- (EA cs Hcs).
        unfold mk_ in Hbase; ok_inv Hbase; (apply HP; [reflexivity|tg]).
      + bind_inv Hbase cs Hcs. cbn [base_of] in Hbase. rewrite <- (EA cs Hcs).
        unfold mk_ in Hbase; ok_inv Hbase; (apply HP; [reflexivity|tg]).
      + bind_inv Hbase cs Hcs. cbn [base_of] in Hbase. rewrite <- (EA cs Hcs).
        unfold mk_ in Hbase; ok_inv Hbase; (apply HP; [reflexivity|tg]).
      + bind_inv Hbase cs Hcs. cbn [base_of] in Hbase. rewrite <- (EA cs Hcs).
        unfold mk_ in Hbase; ok_inv Hbase; (apply HP; [reflexivity|tg]).
      + (* header *) bind_inv Hbase cs Hcs. cbn [base_of] in Hbase. rewrite <- (EA cs Hcs).
        unfold mk_ in Hbase; ok_inv Hbase; (apply HP; [reflexivity|tg]).
      + (* p *) bind_inv Hbase cs Hcs. cbn [base_of] in Hbase. rewrite <- (EA cs Hcs).
        unfold noempty_, mk_ in Hbase. destruct cs; ok_inv Hbase; (apply HP; [reflexivity|tg]).
      + (* li *) bind_inv Hbase cs Hcs. cbn [base_of] in Hbase. rewrite <- (EA cs Hcs).
        unfold mk_ in Hbase; ok_inv Hbase; (apply HP; [reflexivity|tg]).
      + (* sup *) bind_inv Hbase cs Hcs. cbn [base_of] in Hbase. rewrite <- (EA cs Hcs).
        unfold mk_ in Hbase; ok_inv Hbase; (apply HP; [reflexivity|tg]).
      + (* div *) bind_inv Hbase cs Hcs. cbn [base_of] in Hbase. rewrite <- (EA cs Hcs).
        unfold noempty_, mk_ in Hbase. destruct cs; ok_inv Hbase; (apply HP; [reflexivity|tg]).
      + (* pre *) bind_inv Hbase cs Hcs. cbn [base_of] in Hbase. rewrite <- (EA cs Hcs).
        ok_inv Hbase; (apply HP; [reflexivity|tg]).
      + (* table *) bind_inv Hbase cs Hcs. rewrite <- (PL f_body cs Hcs).
        destruct (base_table _ _ _ _ Hbase) as [B1 B2]. apply HP; assumption.
      + (* thead / tbody *) bind_inv Hbase cs Hcs. rewrite <- (PL f_row cs Hcs).
        destruct (base_section _ _ _ _ Hbase) as [B1 B2]. apply HP; assumption.
      + (* tr *) bind_inv Hbase cs Hcs. rewrite <- (PL f_cell cs Hcs).
        destruct (base_tr _ _ _ _ Hbase) as [B1 B2]. apply HP; assumption.
      + (* td / th *) bind_inv Hbase cs Hcs. rewrite <- (PL f_nb cs Hcs).
        destruct (base_cell _ _ _ _ Hbase) as [B1 B2]. apply HP; assumption.
      + (* blockquote *) bind_inv Hbase cs Hcs. cbn [base_of] in Hbase. rewrite <- (EA cs Hcs).
        unfold noempty_, mk_ in Hbase. destruct cs; ok_inv Hbase; (apply HP; [reflexivity|tg]).
      + (* ul *) bind_inv Hbase cs Hcs. cbn [base_of] in Hbase. rewrite <- (EA cs Hcs).
        unfold noempty_, mk_ in Hbase. destruct cs; ok_inv Hbase; (apply HP; [reflexivity|tg]).
      + (* ol *) bind_inv Hbase cs Hcs. cbn [base_of] in Hbase. rewrite <- (PL f_li cs Hcs), <- li_sel.
        unfold noempty_, mk_ in Hbase. destruct cs; ok_inv Hbase; (apply HP; [reflexivity|tg]).
      + (* dl *) bind_inv Hbase cs Hcs. cbn [base_of] in Hbase. rewrite <- (PL f_dtdd cs Hcs), <- dtdd_sel.
        unfold noempty_, mk_ in Hbase. destruct cs; ok_inv Hbase; (apply HP; [reflexivity|tg]).
      + (* dt *) bind_inv Hbase cs Hcs. cbn [base_of] in Hbase. rewrite <- (EA cs Hcs).
        unfold mk_ in Hbase; ok_inv Hbase; (apply HP; [reflexivity|tg]).
      + (* dd *) bind_inv Hbase cs Hcs. cbn [base_of] in Hbase. rewrite <- (EA cs Hcs).
        unfold mk_ in Hbase; ok_inv Hbase; (apply HP; [reflexivity|tg]).
      + (* other *) bind_inv Hbase cs Hcs. cbn [base_of] in Hbase. rewrite <- (EA cs Hcs).
        unfold noempty_, mk_ in Hbase. destruct cs; ok_inv Hbase; (apply HP; [reflexivity|tg]).
    - (* not an HTML element *)
      bind_inv Hbase cs Hcs. rewrite <- (EA cs Hcs).
      destruct cs; ok_inv Hbase; (apply HP; [reflexivity|tg]).
  Qed.
End LinksTProof.

(* ================================================================== *)
(* 5. MAIN THEOREMS (no table_free)                                     *)
(* ================================================================== *)
Section LinksTMain.
  Variable sd : styledata.
  Variable udc : bool.
  Variable inl : list (text * text) -> res (list styledecl).

  (* one node, ANY node *)
  Theorem process_glinks : forall n p idx t,
    process sd udc inl n p idx = Ok (Some t) -> glinks t = dlinks_t sd udc inl n p idx.
  Proof. intros n p idx t H. exact (proj1 (process_glinks_tag sd udc inl n p idx _ H)). Qed.

  (* a node that gives Nothing has no kept link (hidden, skipped, empty, a table without rows) *)
  Theorem process_nothing_glinks : forall n p idx,
    process sd udc inl n p idx = Ok None -> dlinks_t sd udc inl n p idx = [].
  Proof. intros n p idx H. symmetry. exact (proj1 (process_glinks_tag sd udc inl n p idx _ H)). Qed.

  (* a node that is not a thead/tbody/tr/td/th element: all_links itself *)
  Theorem process_all_links : forall n p idx t,
    f_nb (dtag_t n) = true ->
    process sd udc inl n p idx = Ok (Some t) -> all_links t = dlinks_t sd udc inl n p idx.
  Proof.
    intros n p idx t Hn H. destruct (process_glinks_tag sd udc inl n p idx _ H) as [Hl Ht].
    cbn [glinks_opt] in Hl. rewrite all_links_sel. unfold sel.
    destruct (Ht t eq_refl) as [E|E].
    - rewrite E, Hn. exact Hl.
    - rewrite <- Hl, E. destruct (f_nb (ktag t)); reflexivity.
  Qed.

  (* the whole document *)
  Theorem dom_tree_links_t : forall doc tree,
    dom_to_render_tree sd udc inl doc = Ok tree ->
    all_links tree = dom_links_t sd udc inl doc.
  Proof.
    intros doc tree H. unfold dom_to_render_tree in H. bind_inv H cs Hcs. ok_inv H.
    rewrite process_kids_eq in Hcs. unfold rn_new. rewrite all_links_container, flat_all_links.
    assert (KF : Forall (fun k => forall i r, process sd udc inl k [] i = Ok r ->
                   glinks_opt r = dlinks_t sd udc inl k [] i /\
                   (forall x, r = Some x -> ktag x = dtag_t k \/ glinks x = [])) doc).
    { rewrite Forall_forall. intros k Hk i r Hr. apply (process_glinks_tag sd udc inl k [] i r Hr). }
    exact (pk_sel (fun k i => process sd udc inl k [] i) (fun k i => dlinks_t sd udc inl k [] i)
                  f_nb doc KF 1%Z cs Hcs).
  Qed.
End LinksTMain.
Print Assumptions process_glinks.
Print Assumptions process_nothing_glinks.
Print Assumptions process_all_links.
Print Assumptions dom_tree_links_t.

Section LinksTRoutes.
  Variable inline_styles : list (text * text) -> res (list styledecl).
  Variable doc_rules : list node -> res (list ruleset).

  Definition doc_links_t (c : config) (doc : list node) : list text :=
    match effective_sd doc_rules c doc with
    | Ok sd => dom_links_t sd (c_use_doc_css c) inline_styles doc
    | _ => []
    end.

  Lemma doc_links_t_table_free c doc :
    forallb table_free doc = true -> doc_links_t c doc = doc_links inline_styles doc_rules c doc.
  Proof.
    intros H. unfold doc_links_t, doc_links. destruct (effective_sd doc_rules c doc); try reflexivity.
    apply dom_links_t_table_free, H.
  Qed.

  Theorem c08_tree_links_t : forall (c : config) (doc : list node) (tree : rnode),
    to_render_tree inline_styles doc_rules c doc = Ok tree ->
    all_links tree = doc_links_t c doc.
  Proof.
    intros c doc tree H. unfold to_render_tree in H. bind_inv H sd Hsd.
    unfold doc_links_t. rewrite Hsd. apply (dom_tree_links_t _ _ _ doc tree H).
  Qed.

  (* The footnote list.  With tables the list `render_node` threads is
     Footnotes.link_targets (width-dependent: a table cell that gets no width is not visited,
     Footnotes.skipped_cell_tree), which is only a SUBSEQUENCE of all_links
     (link_targets_subseq); `links st = all_links tree` is FALSE for trees with tables.  So:
     the footnote list is link_targets, a subsequence (same order, nothing invented) of the
     kept <a href> of the document; equality holds for table-free trees (c08_footnote_list). *)
  Theorem c08_footnote_list_t : forall (c : config) (doc : list node) (tree : rnode) width s,
    to_render_tree inline_styles doc_rules c doc = Ok tree ->
    render_tree (c_deco c) (c_min_wrap c) (render_options c) width tree = Ok s ->
    let L := link_targets (c_deco c) (c_min_wrap c) (render_options c) tree width in
    exists st body,
      render_node (c_deco c) (c_min_wrap c) tree (mkrst [sub_new width (render_options c)] []) = Ok st /\
      stack st = [body] /\ links st = L /\ subseq L (doc_links_t c doc) /\
      match (if o_footnotes (render_options c) then L else []) with
      | [] => s = body
      | _ :: _ => exists b1, start_block body = Ok b1 /\ s = fmt_links b1 (finalise_from 1 L)
      end.
  Proof.
    intros c doc tree width s Ht Hr L.
    pose proof (c08_tree_links_t c doc tree Ht) as El.
    destruct (render_tree_footnotes _ _ _ _ _ _ Hr) as (st & body & H1 & H2 & H3 & _ & _ & H6).
    exists st, body. repeat (split; [assumption|]). split; [|exact H6].
    rewrite <- El. apply link_targets_subseq.
  Qed.
End LinksTRoutes.
Print Assumptions c08_tree_links_t.
Print Assumptions c08_footnote_list_t.

(* ================================================================== *)
(* 6. Examples (non-vacuity)                                            *)
(* ================================================================== *)
Module DomLinksTablesExamples.
Import PruneExamples.
Import String.
Local Open Scope string_scope.

Definition lnk (u s : string) : node := el "a" [("href", u)] [tx s].
(* links in th (thead) and td (tbody, two rows); a <tr> directly under <table> (dropped with
   its link); a <caption>-like child with a link (dropped); one link before, one after; a
   hidden cell; a <td> directly under a <div> (bare cell under an ordinary parent: dropped) *)
Definition docT : list node :=
  [el "html" []
    [el "body" []
      [el "p" [] [lnk "before" "b"];
       el "table" [("id", "tb")]
        [el "thead" [] [el "tr" [] [el "th" [] [lnk "h1" "H"]; el "th" [] [tx "x"]]];
         el "tr" [] [el "td" [] [lnk "lost" "L"]];
         el "caption" [] [lnk "cap" "C"];
         el "tbody" [("id", "bd")]
          [el "tr" [] [el "td" [] [lnk "c1" "C"]; el "td" [] [lnk "c2" "D"]; lnk "loose" "Q"];
           el "tr" [("id", "r2")] [el "td" [] [lnk "c3" "E"]; el "td" hide [lnk "hid" "F"]]]];
       el "div" [] [el "td" [] [lnk "bare" "G"]; tx "t"];
       el "p" [] [lnk "after" "a"]]]].
Definition treeT : rnode :=
  match to_render_tree inline_styles doc_rules cfg docT with Ok tr => tr | _ => rn_new IBreak end.

Example docT_not_table_free : forallb table_free docT = false.
Proof. vm_compute. reflexivity. Qed.
Example docT_tree : to_render_tree inline_styles doc_rules cfg docT = Ok treeT.
Proof. vm_compute. reflexivity. Qed.
Example docT_links :
  doc_links_t inline_styles doc_rules cfg docT = [t "before"; t "h1"; t "c1"; t "c2"; t "c3"; t "after"].
Proof. vm_compute. reflexivity. Qed.
Example docT_tree_links :
  all_links treeT = [t "before"; t "h1"; t "c1"; t "c2"; t "c3"; t "after"].
Proof.
  rewrite (c08_tree_links_t inline_styles doc_rules cfg docT treeT docT_tree). exact docT_links.
Qed.
Example docT_tree_links_direct :
  all_links treeT = [t "before"; t "h1"; t "c1"; t "c2"; t "c3"; t "after"].
Proof. vm_compute. reflexivity. Qed.

(* one node: a bare <tr> at the root gives glinks (all_links is []) *)
Definition trN : node := el "tr" [] [el "td" [] [lnk "c1" "C"]; lnk "loose" "Q"; el "th" [] [lnk "c2" "D"]].
Example trN_glinks :
  match process styledata0 false inline_styles trN [] 1%Z with
  | Ok (Some x) => glinks x = [t "c1"; t "c2"] /\ all_links x = [] /\
                   dlinks_t styledata0 false inline_styles trN [] 1%Z = [t "c1"; t "c2"]
  | _ => False
  end.
Proof. vm_compute. repeat split; reflexivity. Qed.
(* a table without rows is Nothing *)
Example empty_table_nothing :
  process styledata0 false inline_styles
          (el "table" [] [el "tr" [] [el "td" [] [lnk "lost" "L"]]; el "tbody" [] []]) [] 1%Z = Ok None.
Proof. vm_compute. reflexivity. Qed.
(* on a table-free document the two specifications agree (DomInline.docL) *)
Example docL_agree :
  doc_links_t inline_styles doc_rules cfg DomInlineExamples.docL =
  doc_links inline_styles doc_rules cfg DomInlineExamples.docL.
Proof. apply doc_links_t_table_free. vm_compute. reflexivity. Qed.
End DomLinksTablesExamples.

Module DomLinksTablesRender.
Import PruneExamples.
Import DomLinksTablesExamples.
Import String.
Local Open Scope string_scope.
(* docT without the mis-nested <td> (a bare cell under <div> is Panic 60 in the renderer, as
   `render_tree ... treeT` confirms): the footnote list of the real output *)
Definition docR : list node :=
  [el "html" [] [el "body" []
      [el "p" [] [lnk "before" "b"];
       el "table" []
        [el "thead" [] [el "tr" [] [el "th" [] [lnk "h1" "H"]; el "th" [] [tx "x"]]];
         el "tr" [] [el "td" [] [lnk "lost" "L"]];
         el "tbody" []
          [el "tr" [] [el "td" [] [lnk "c1" "C"]; el "td" [] [lnk "c2" "D"]];
           el "tr" [] [el "td" [] [lnk "c3" "E"]]]];
       el "p" [] [lnk "after" "a"]]]].
Definition treeR : rnode :=
  match to_render_tree inline_styles doc_rules cfg docR with Ok tr => tr | _ => rn_new IBreak end.
Example docR_tree : to_render_tree inline_styles doc_rules cfg docR = Ok treeR.
Proof. vm_compute. reflexivity. Qed.
Example docT_render_panics :
  render_tree (c_deco cfg) (c_min_wrap cfg) (render_options cfg) 40 treeT = Panic 60.
Proof. vm_compute. reflexivity. Qed.
Example docR_render_ok :
  exists s, render_tree (c_deco cfg) (c_min_wrap cfg) (render_options cfg) 40 treeR = Ok s.
Proof. eexists. vm_compute. reflexivity. Qed.
Example docR_links :
  doc_links_t inline_styles doc_rules cfg docR = [t "before"; t "h1"; t "c1"; t "c2"; t "c3"; t "after"] /\
  link_targets (c_deco cfg) (c_min_wrap cfg) (render_options cfg) treeR 40 =
  doc_links_t inline_styles doc_rules cfg docR.
Proof. vm_compute. split; reflexivity. Qed.
(* "[b][1]\n\n------+------\n[H][2]|x\n...[a][6]\n\n[1]: before\n[2]: h1\n[3]: c1\n[4]: c2\n[5]: c3\n[6]: after\n":
   the tail of the output is the footnote list *)
Example docR_out_tail :
  match out cfg docR with
  | Ok l => skipn (List.length l - 55) l =
            [91; 49; 93; 58; 32; 98; 101; 102; 111; 114; 101; 10; 91; 50; 93; 58; 32; 104; 49; 10;
             91; 51; 93; 58; 32; 99; 49; 10; 91; 52; 93; 58; 32; 99; 50; 10; 91; 53; 93; 58; 32;
             99; 51; 10; 91; 54; 93; 58; 32; 97; 102; 116; 101; 114; 10]%N
  | _ => False
  end.
Proof. vm_compute. reflexivity. Qed.
End DomLinksTablesRender.
