(* Proofs/DomRel.v -- the step from the DOM (`node`) to the render tree (`rnode`):
   `process` / `dom_to_render_tree` / `to_render_tree`.  No axioms.
   PART 1 (C03): the visible document characters of the render tree are those of the DOM
                 (c03_dom_visible, c03_dom_doc_stream, c03_dom_string, c03_dom_lines).
   PART 2 (C14): fragment markers (c14_dom_tree, c14_dom_lines, c14_dom_markers).
   PART 3 (C13): whitespace runs in text nodes (c13_dom_trees, c13_dom_ws_equiv, c13_dom_string).
   SUMMARY (exact statements, hypotheses, findings) at the end of the file. *)
From H2T Require Import Base Tagged Wrap Sub Css Dom Render Api.
From H2T Require Import Proofs.Conserve Proofs.RenderWidth Proofs.Footnotes Proofs.RenderConserve.
From H2T Require Import Proofs.Prune Proofs.FragStream Proofs.SimRel.
From Coq Require Import Lia ZifyN ZifyBool ZifyNat.

Local Arguments N.add : simpl never.
Local Arguments N.sub : simpl never.
Local Arguments N.mul : simpl never.
Local Arguments N.leb : simpl never.
Local Arguments N.ltb : simpl never.
Local Arguments N.eqb : simpl never.
Local Arguments N.min : simpl never.
Local Arguments N.max : simpl never.
Local Open Scope N_scope.

(* ================================================================== *)
(* 0. Element kinds (the if-chains of `process` and `build_element`)    *)
(* ================================================================== *)

Inductive ekd :=
| KImg | KBr | KSkip | KRoot | KSpan | KA | KEm | KStrong | KStrike | KCode | KHeader (lvl : N)
| KP | KLi | KSup | KDiv | KPre | KTable | KSection | KTr | KCell | KBq | KUl | KOl | KDl | KDt
| KDd | KOther.

(* the kind of an HTML element, decided in the order in which `process` (img, br, the skipped
   elements) and then `build_element` test the name *)
Definition kind_of (name : text) : ekd :=
  if names [[105;109;103]] name then KImg
  else if names [[98;114]] name then KBr
  else if names [[108;105;110;107]; [109;101;116;97]; [104;114]; [115;99;114;105;112;116];
                 [115;116;121;108;101]; [104;101;97;100]] name then KSkip
  else if names [[104;116;109;108]; [98;111;100;121]] name then KRoot
  else if names [[115;112;97;110]] name then KSpan
  else if names [[97]] name then KA
  else if names [[101;109]; [105]; [105;110;115]] name then KEm
  else if names [[115;116;114;111;110;103]] name then KStrong
  else if names [[115]; [100;101;108]] name then KStrike
  else if names [[99;111;100;101]] name then KCode
  else match heading_level name with
  | Some lvl => KHeader lvl
  | None =>
  if names [[112]] name then KP
  else if names [[108;105]] name then KLi
  else if names [[115;117;112]] name then KSup
  else if names [[100;105;118]] name then KDiv
  else if names [[112;114;101]] name then KPre
  else if names [[116;97;98;108;101]] name then KTable
  else if names [[116;104;101;97;100]; [116;98;111;100;121]] name then KSection
  else if names [[116;114]] name then KTr
  else if names [[116;104]; [116;100]] name then KCell
  else if names [[98;108;111;99;107;113;117;111;116;101]] name then KBq
  else if names [[117;108]] name then KUl
  else if names [[111;108]] name then KOl
  else if names [[100;108]] name then KDl
  else if names [[100;116]] name then KDt
  else if names [[100;100]] name then KDd
  else KOther
  end.

Definition mk_ (computed : cstyle) (i : rinfo) : res (option rnode) := Ok (Some (RN i computed)).
Definition noempty_ (computed : cstyle) (cs : list rnode) (i : rinfo) : res (option rnode) :=
  match cs with [] => Ok None | _ => mk_ computed i end.

(* what `process` builds for an HTML element of kind k from its attributes, computed style and
   processed children (before pseudo-element content and the fragment marker) *)
Definition base_of (k : ekd) (attrs : list (text * text)) (computed : cstyle) (cs : list rnode)
  : res (option rnode) :=
  match k with
  | KImg => match img_attrs attrs None None with
            | (Some title, Some src) => Ok (Some (RN (IImg src title) computed))
            | _ => Ok None
            end
  | KBr => Ok (Some (RN IBreak computed))
  | KSkip => Ok None
  | KRoot => mk_ computed (IContainer cs)
  | KSpan => noempty_ computed cs (IContainer cs)
  | KA => match find_attr attrs s_href with
          | Some href =>
            if existsb (fun c => negb (is_shallow_empty c)) cs then mk_ computed (ILink href cs)
            else Ok None
          | None => mk_ computed (IContainer cs)
          end
  | KEm => mk_ computed (IEm cs)
  | KStrong => mk_ computed (IStrong cs)
  | KStrike => mk_ computed (IStrikeout cs)
  | KCode => mk_ computed (ICode cs)
  | KHeader lvl => mk_ computed (IHeader lvl cs)
  | KP => noempty_ computed cs (IBlock cs)
  | KLi => mk_ computed (IListItem cs)
  | KSup => mk_ computed (ISup cs)
  | KDiv => noempty_ computed cs (IDiv cs)
  | KPre =>
    let core := cs_core computed in
    let core' := mkcore (c_colour core) (c_bg core) (c_display core)
                        (maybe_update (c_white_space core) false OAgent spec0 WsPre)
                        (c_content core) in
    Ok (Some (RN (IBlock cs) (mkcs core' (cs_before computed) (cs_after computed) true)))
  | KTable =>
    let rows := flat_map (fun n => match rn_info n with ITableBody b => b | _ => [] end) cs in
    match rows with
    | [] => Ok None
    | _ => do t <- render_table_new rows; Ok (Some (RN t computed))
    end
  | KSection =>
    match cs with
    | [] => Ok None
    | _ =>
      let rows := flat_map (fun n => match rn_info n with ITableRow r => [r] | _ => [] end) cs in
      do rows' <- tbody_rows rows;
      mk_ computed (ITableBody rows')
    end
  | KTr =>
    let cells := flat_map (fun n => match rn_info n with ITableCell c => [c] | _ => [] end) cs in
    mk_ computed (ITableRow (RRow cells computed))
  | KCell => mk_ computed (ITableCell (RCell (td_colspan attrs) cs computed))
  | KBq => noempty_ computed cs (IBlockQuote cs)
  | KUl => noempty_ computed cs (IUl cs)
  | KOl =>
    let start := match find_attr attrs s_start with
                 | Some v => match parse_i64 v with Some z => z | None => 1%Z end
                 | None => 1%Z
                 end in
    noempty_ computed cs
             (IOl start (filter_info (fun i => match i with IListItem _ => true | _ => false end) cs))
  | KDl =>
    noempty_ computed cs
             (IDl (filter_info (fun i => match i with IDt _ | IDd _ => true | _ => false end) cs))
  | KDt => mk_ computed (IDt cs)
  | KDd => mk_ computed (IDd cs)
  | KOther => noempty_ computed cs (IContainer cs)
  end.

Definition kind_leaf (k : ekd) : bool := match k with KImg | KBr | KSkip => true | _ => false end.

(* the element-specific part of `process` (HTML element), by kind *)
Lemma html_base_eq (name : text) (attrs : list (text * text)) (computed : cstyle)
      (rk : res (list rnode)) :
  (if names [[105;109;103]] name then
     match img_attrs attrs None None with
     | (Some title, Some src) => Ok (Some (RN (IImg src title) computed))
     | _ => Ok None
     end
   else if names [[98;114]] name then Ok (Some (RN IBreak computed))
   else if names [[108;105;110;107]; [109;101;116;97]; [104;114]; [115;99;114;105;112;116];
                  [115;116;121;108;101]; [104;101;97;100]] name then Ok None
   else do cs <- rk; build_element name attrs computed cs) =
  (if kind_leaf (kind_of name) then base_of (kind_of name) attrs computed []
   else do cs <- rk; base_of (kind_of name) attrs computed cs).
Proof.
  unfold kind_of, build_element.
  repeat (match goal with |- context [names ?l name] => destruct (names l name) end;
          [cbn [kind_leaf base_of]; try reflexivity;
           destruct rk; reflexivity|]).
  destruct (heading_level name); [destruct rk; reflexivity|].
  repeat (match goal with |- context [names ?l name] => destruct (names l name) end;
          [cbn [kind_leaf base_of]; try reflexivity;
           destruct rk; reflexivity|]).
  destruct rk; reflexivity.
Qed.

(* ================================================================== *)
(* 1. PART 1 -- specification                                           *)
(* ================================================================== *)

(* the text shown for <img>: the alt text, when the element has a non-empty src (img_attrs:
   the last non-empty alt / src before both are found; attribute names are unique in parser
   output).  Recorded deviation (iii) `img_alt_without_src` is built into this definition:
   an <img alt=..> without src shows nothing. *)
Definition img_vis (attrs : list (text * text)) : text :=
  match img_attrs attrs None None with
  | (Some title, Some _) => doc_chars title
  | _ => []
  end.

(* THE SPECIFICATION: the visible characters of a DOM node in document order: the characters
   of text nodes and of image alt texts that are not whitespace, have a width and carry a
   document label (RenderConserve.doc_chars) - except inside the elements the renderer skips
   entirely (HTML namespace only): link, meta, hr, script, style, head (and below <br>, <img>,
   which have no children in parser output). *)
Fixpoint dom_vis (n : node) {struct n} : text :=
  match n with
  | NText t => doc_chars t
  | NComment | NOther => []
  | NElem html name attrs kids =>
    if negb html then flat_map dom_vis kids
    else match kind_of name with
         | KImg => img_vis attrs
         | KBr | KSkip => []
         | _ => flat_map dom_vis kids
         end
  end.
Definition dom_visible (doc : list node) : text := flat_map dom_vis doc.

Definition vis_empty (n : node) : bool := match dom_vis n with [] => true | _ => false end.

(* the kind of a node that is an HTML element *)
Definition node_kind (n : node) : option ekd :=
  match n with NElem true name _ _ => Some (kind_of name) | _ => None end.

(* Recorded deviations (i) `loose_text_in_list_or_table` and (ii) `table_tfoot_caption_dropped`:
   <ol> keeps only its <li> children, <dl> only <dt>/<dd>, <table> only <thead>/<tbody>,
   <thead>/<tbody> only <tr>, <tr> only <th>/<td>.  The condition on a child k of a parent of
   kind pk: k is of a kind the parent keeps, or k has no visible character at all. *)
Definition kid_cond (pk : ekd) (k : node) : bool :=
  match pk with
  | KOl => match node_kind k with Some KLi => true | _ => vis_empty k end
  | KDl => match node_kind k with Some KDt | Some KDd => true | _ => vis_empty k end
  | KTable => match node_kind k with Some KSection => true | _ => vis_empty k end
  | KSection => match node_kind k with Some KTr => true | _ => vis_empty k end
  | KTr => match node_kind k with Some KCell => true | _ => vis_empty k end
  | _ => true
  end.

(* nesting of the table elements as the HTML parser nests them (the side condition (2) of
   RenderTotal.dom_ok: a <tr>/<td>/<thead>/<tbody> result anywhere else is `unreachable!` in
   the renderer): strict = the node's result becomes an ordinary child *)
Definition kid_strict (pk : ekd) : bool :=
  match pk with KTable | KSection | KTr => false | _ => true end.
Definition allowed (strict : bool) (k : ekd) : bool :=
  match k with KSection | KTr | KCell => negb strict | _ => true end.

Fixpoint reg (strict : bool) (n : node) {struct n} : bool :=
  match n with
  | NElem html name attrs kids =>
    if negb html then forallb (reg true) kids
    else if kind_leaf (kind_of name) then true
    else allowed strict (kind_of name) &&
         forallb (reg (kid_strict (kind_of name))) kids &&
         forallb (kid_cond (kind_of name)) kids
  | _ => true
  end.

(* dom_regular: decidable, purely syntactic; excludes exactly deviations (i), (ii) [only when
   the dropped part has a visible character] and mis-nested table elements *)
Definition dom_regular (doc : list node) : bool := forallb (reg true) doc.

(* ---------- streams of table parts ---------- *)
Definition cells_s (cells : list rcell) : text :=
  flat_map (fun c => match c with RCell _ k _ => flat_map leaf_stream k end) cells.
Definition rows_s (rows : list rrow) : text :=
  flat_map (fun r => match r with RRow cells _ => cells_s cells end) rows.

(* leaf_stream, extended to the bare table parts that only occur on the way up to <table> *)
Definition gs (x : rnode) : text :=
  match rn_info x with
  | ITableCell (RCell _ k _) => flat_map leaf_stream k
  | ITableRow (RRow cells _) => cells_s cells
  | ITableBody rows => rows_s rows
  | _ => leaf_stream x
  end.
Definition bare (x : rnode) : bool :=
  match rn_info x with ITableCell _ | ITableRow _ | ITableBody _ => true | _ => false end.

Lemma gs_nonbare x : bare x = false -> gs x = leaf_stream x.
Proof. destruct x as [i st]. destruct i; cbn [bare rn_info]; try discriminate; reflexivity. Qed.

Lemma leaf_table rows nc st : leaf_stream (RN (ITable rows nc) st) = rows_s rows.
Proof. reflexivity. Qed.

Lemma flat_map_ins {A B} (f : A -> list B) b a v : f a = [] -> flat_map f (ins b a v) = flat_map f v.
Proof.
  intros H. unfold ins. destruct b; cbn [flat_map].
  - rewrite H. reflexivity.
  - rewrite flat_map_app. cbn [flat_map]. rewrite H, !app_nil_r. reflexivity.
Qed.

Lemma cells_s_ins b a cells : leaf_stream a = [] -> cells_s (ins_first_cell b a cells) = cells_s cells.
Proof.
  intros H. destruct cells as [|[n k s] cells]; [reflexivity|].
  unfold cells_s. cbn [ins_first_cell flat_map]. rewrite (flat_map_ins leaf_stream b a k H). reflexivity.
Qed.
Lemma rows_s_ins b a rows : leaf_stream a = [] -> rows_s (ins_first_row b a rows) = rows_s rows.
Proof.
  intros H. destruct rows as [|[cells s] rows]; [reflexivity|].
  unfold rows_s. cbn [ins_first_row flat_map]. rewrite (cells_s_ins b a cells H). reflexivity.
Qed.

(* inserting a node without visible characters changes nothing *)
Lemma insert_child_gs a n b : leaf_stream a = [] -> gs (insert_child a n b) = gs n.
Proof.
  intros H. destruct n as [i st].
  destruct i; cbn [insert_child];
    try (unfold gs; cbn [rn_info leaf_stream]; apply (flat_map_ins leaf_stream); exact H);
    try (destruct b; unfold gs, rn_new; cbn [rn_info leaf_stream flat_map]; rewrite H, ?app_nil_r;
         reflexivity).
  - (* ITable *) unfold gs. cbn [rn_info]. rewrite !leaf_table. apply rows_s_ins, H.
  - (* ITableBody *) unfold gs. cbn [rn_info]. apply rows_s_ins, H.
  - (* ITableRow *) destruct r as [cells s]. unfold gs. cbn [rn_info]. apply cells_s_ins, H.
  - (* ITableCell *) destruct c as [k cs s]. unfold gs. cbn [rn_info].
    apply (flat_map_ins leaf_stream), H.
Qed.

Lemma insert_child_bare a n b : bare (insert_child a n b) = bare n.
Proof.
  destruct n as [i st]. destruct i; cbn [insert_child]; try reflexivity;
    try (destruct b; reflexivity).
  - destruct r; reflexivity.
  - destruct c; reflexivity.
Qed.

Lemma wrap_pseudo_gs computed n : gs (wrap_pseudo computed n) = gs n.
Proof.
  unfold wrap_pseudo.
  assert (E : forall t, leaf_stream (rn_new (IText (relabel L_deco t))) = []).
  { intros t. unfold rn_new. cbn [leaf_stream rn_info]. apply doc_chars_relabel_deco. }
  set (n1 := match cs_before computed with
             | Some c => match ws_val (c_content c) with
                         | Some t => insert_child (rn_new (IText (relabel L_deco t))) n true
                         | None => n
                         end
             | None => n
             end).
  assert (E1 : gs n1 = gs n).
  { subst n1. destruct (cs_before computed) as [c|]; [|reflexivity].
    destruct (ws_val (c_content c)); [|reflexivity]. apply insert_child_gs, E. }
  destruct (cs_after computed) as [c|]; [|exact E1].
  destruct (ws_val (c_content c)); [|exact E1]. rewrite insert_child_gs; [exact E1|apply E].
Qed.

Lemma wrap_pseudo_bare computed n : bare (wrap_pseudo computed n) = bare n.
Proof.
  unfold wrap_pseudo.
  set (n1 := match cs_before computed with
             | Some c => match ws_val (c_content c) with
                         | Some t => insert_child (rn_new (IText (relabel L_deco t))) n true
                         | None => n
                         end
             | None => n
             end).
  assert (E1 : bare n1 = bare n).
  { subst n1. destruct (cs_before computed) as [c|]; [|reflexivity].
    destruct (ws_val (c_content c)); [|reflexivity]. apply insert_child_bare. }
  destruct (cs_after computed) as [c|]; [|exact E1].
  destruct (ws_val (c_content c)); [|exact E1]. rewrite insert_child_bare. exact E1.
Qed.

(* ---------- the constructors the parents select on ---------- *)
Definition ktag (x : rnode) : nat :=
  match rn_info x with
  | IListItem _ => 1 | IDt _ => 2 | IDd _ => 3 | ITableBody _ => 4 | ITableRow _ => 5
  | ITableCell _ => 6 | _ => 0
  end%nat.

Lemma insert_child_ktag a n b : ktag (insert_child a n b) = ktag n.
Proof.
  destruct n as [i st]. destruct i; cbn [insert_child]; try reflexivity;
    try (destruct b; reflexivity).
  - destruct r; reflexivity.
  - destruct c; reflexivity.
Qed.
Lemma wrap_pseudo_ktag computed n : ktag (wrap_pseudo computed n) = ktag n.
Proof.
  unfold wrap_pseudo.
  set (n1 := match cs_before computed with
             | Some c => match ws_val (c_content c) with
                         | Some t => insert_child (rn_new (IText (relabel L_deco t))) n true
                         | None => n
                         end
             | None => n
             end).
  assert (E1 : ktag n1 = ktag n).
  { subst n1. destruct (cs_before computed) as [c|]; [|reflexivity].
    destruct (ws_val (c_content c)); [|reflexivity]. apply insert_child_ktag. }
  destruct (cs_after computed) as [c|]; [|exact E1].
  destruct (ws_val (c_content c)); [|exact E1]. rewrite insert_child_ktag. exact E1.
Qed.

Lemma bare_ktag x : bare x = match ktag x with 4 | 5 | 6 => true | _ => false end%nat.
Proof. destruct x as [i st]. destruct i; reflexivity. Qed.

(* ---------- texts ---------- *)
Lemma drop_ws_nil_all_ws t : drop_ws t = [] -> all_ws t = true.
Proof.
  induction t as [|c t IH]; [reflexivity|]. cbn [drop_ws all_ws forallb].
  destruct (ws c); [|discriminate]. exact IH.
Qed.
Lemma drop_ws_head t c r : drop_ws t = c :: r -> ws c = false.
Proof.
  induction t as [|c0 t IH]; [discriminate|]. cbn [drop_ws]. destruct (ws c0) eqn:E; [exact IH|].
  intros H. injection H as -> _. exact E.
Qed.
Lemma all_ws_rev_ p : all_ws p = true -> all_ws (rev p) = true.
Proof. unfold all_ws. rewrite !forallb_forall. intros H x Hx. apply H, in_rev, Hx. Qed.

Lemma trim_nil_all_ws t : trim t = [] -> all_ws t = true.
Proof.
  unfold trim. intros H.
  assert (H1 : drop_ws (rev (drop_ws t)) = []).
  { destruct (drop_ws (rev (drop_ws t))) as [|c r]; [reflexivity|].
    cbn [rev] in H. destruct (rev r); discriminate. }
  apply drop_ws_nil_all_ws in H1. apply all_ws_rev_ in H1. rewrite rev_involutive in H1.
  destruct (drop_ws t) as [|c r] eqn:E; [apply drop_ws_nil_all_ws, E|].
  apply drop_ws_head in E. cbn [all_ws forallb] in H1. rewrite E in H1. discriminate.
Qed.

(* deviation (v): a link all of whose children are "shallow empty" is dropped; what is dropped
   has no visible character *)
Lemma shallow_empty_leaf c : is_shallow_empty c = true -> leaf_stream c = [].
Proof.
  destruct c as [i st]. unfold is_shallow_empty. cbn [rn_info].
  destruct i; cbn [leaf_stream rn_info]; try discriminate; try reflexivity;
    try (destruct cs; [reflexivity|discriminate]).
  - (* IText *) intros H. apply all_ws_doc_chars, trim_nil_all_ws.
    destruct (trim t); [reflexivity|discriminate].
  - (* IImg *) intros H. apply all_ws_doc_chars, trim_nil_all_ws.
    destruct (trim title); [reflexivity|discriminate].
Qed.

Lemma all_shallow_empty_leaf cs :
  existsb (fun c => negb (is_shallow_empty c)) cs = false -> flat_map leaf_stream cs = [].
Proof.
  induction cs as [|c cs IH]; [reflexivity|]. cbn [existsb flat_map]. intros H.
  apply orb_false_iff in H. destruct H as [Hc Hcs]. apply negb_false_iff in Hc.
  rewrite (shallow_empty_leaf c Hc), (IH Hcs). reflexivity.
Qed.

(* ---------- tables: the constructors keep the cell contents ---------- *)
Lemma remap_cells_s set : forall cells pos mapped cells',
  remap_cells set cells pos mapped = Ok cells' -> cells_s cells' = cells_s cells.
Proof.
  induction cells as [|[n k s] cells IH]; intros pos mapped cells' H; cbn [remap_cells] in H.
  - ok_inv H. reflexivity.
  - bind_inv H np Hnp. destruct (index_of np set 0) as [nm|]; [|discriminate].
    bind_inv H cs Hcs. bind_inv H r Hr. ok_inv H.
    unfold cells_s in *. cbn [flat_map]. rewrite (IH _ _ _ Hr). reflexivity.
Qed.
Lemma remap_rows_s set : forall rows rows',
  remap_rows set rows = Ok rows' -> rows_s rows' = rows_s rows.
Proof.
  induction rows as [|[cells s] rows IH]; intros rows' H; cbn [remap_rows] in H.
  - ok_inv H. reflexivity.
  - bind_inv H cells' Hc. bind_inv H r Hr. ok_inv H.
    unfold rows_s in *. cbn [flat_map]. rewrite (IH _ Hr), (remap_cells_s _ _ _ _ _ Hc). reflexivity.
Qed.
Lemma render_table_new_s rows t st :
  render_table_new rows = Ok t -> gs (RN t st) = rows_s rows.
Proof.
  unfold render_table_new. intros H. bind_inv H ps Hps. bind_inv H rows' Hr. ok_inv H.
  unfold gs. cbn [rn_info]. rewrite leaf_table. apply (remap_rows_s _ _ _ Hr).
Qed.
Lemma render_table_new_tag rows t st : render_table_new rows = Ok t -> ktag (RN t st) = 0%nat.
Proof.
  unfold render_table_new. intros H. bind_inv H ps Hps. bind_inv H rows' Hr. ok_inv H. reflexivity.
Qed.

Lemma fix_zero_colspan_s maxc r cnt :
  rows_s [fix_zero_colspan maxc r cnt] = rows_s [r].
Proof.
  unfold fix_zero_colspan. destruct (fst cnt); [|reflexivity]. destruct r as [cells s].
  unfold rows_s. cbn [flat_map]. f_equal. unfold cells_s.
  induction cells as [|[n k st] cells IH]; [reflexivity|]. cbn [map flat_map]. rewrite IH.
  destruct (n =? 0); reflexivity.
Qed.
Lemma rows_counts_len : forall rows counts, rows_counts rows = Ok counts -> length counts = length rows.
Proof.
  induction rows as [|r rows IH]; intros counts H; cbn [rows_counts] in H.
  - ok_inv H. reflexivity.
  - bind_inv H c Hc. bind_inv H cs Hcs. ok_inv H. cbn [length]. rewrite (IH _ Hcs). reflexivity.
Qed.
Lemma map2_fix_s maxc : forall rows counts, length counts = length rows ->
  rows_s (map2 (fix_zero_colspan maxc) rows counts) = rows_s rows.
Proof.
  induction rows as [|r rows IH]; intros counts H; [reflexivity|].
  destruct counts as [|c counts]; [discriminate|]. cbn [map2].
  change (fix_zero_colspan maxc r c :: map2 (fix_zero_colspan maxc) rows counts)
    with ([fix_zero_colspan maxc r c] ++ map2 (fix_zero_colspan maxc) rows counts).
  change (r :: rows) with ([r] ++ rows). unfold rows_s in *. rewrite !flat_map_app.
  rewrite (IH counts) by (cbn [length] in H; lia). f_equal. apply fix_zero_colspan_s.
Qed.
Lemma tbody_rows_s rows rows' : tbody_rows rows = Ok rows' -> rows_s rows' = rows_s rows.
Proof.
  unfold tbody_rows. intros H. bind_inv H counts Hc. ok_inv H.
  apply map2_fix_s, (rows_counts_len _ _ Hc).
Qed.

(* ---------- the child loop, relationally ---------- *)
(* KR Q kids cs: cs are the results of those kids that gave one, in order; Q holds of every
   (kid, result) pair *)
Inductive KR (Q : node -> option rnode -> Prop) : list node -> list rnode -> Prop :=
| KR_nil : KR Q [] []
| KR_none k kids cs : Q k None -> KR Q kids cs -> KR Q (k :: kids) cs
| KR_some k x kids cs : Q k (Some x) -> KR Q kids cs -> KR Q (k :: kids) (x :: cs).

(* a boolean test along the child loop (indices advance as in `process`) *)
Definition blk_of (f : node -> Z -> bool) : list node -> Z -> bool :=
  fix go (kids : list node) (idx : Z) {struct kids} : bool :=
    match kids with
    | [] => true
    | k :: kids' => f k idx && go kids' (if is_elem k then (idx + 1)%Z else idx)
    end.

Lemma pk_KR (proc : node -> Z -> res (option rnode)) (g : node -> Z -> bool)
      (Q : node -> option rnode -> Prop) : forall kids,
  Forall (fun k => forall i r, g k i = true -> proc k i = Ok r -> Q k r) kids ->
  forall i cs, blk_of g kids i = true -> pk_of proc kids i = Ok cs -> KR Q kids cs.
Proof.
  induction kids as [|k kids IH]; intros HF i cs Hg H.
  - cbn [pk_of] in H. ok_inv H. constructor.
  - inversion HF as [|? ? Hk Hkids]; subst. cbn [blk_of] in Hg.
    apply andb_true_iff in Hg. destruct Hg as [Hg1 Hg2].
    cbn [pk_of] in H. bind_inv H r Hr. bind_inv H rs0 Hrs. ok_inv H.
    change (match k with NElem _ _ _ _ => true | _ => false end) with (is_elem k) in Hrs.
    specialize (IH Hkids _ _ Hg2 Hrs). specialize (Hk _ _ Hg1 Hr).
    destruct r as [x|]; constructor; assumption.
Qed.

Lemma KR_impl (Q Q' : node -> option rnode -> Prop) kids cs :
  (forall k r, In k kids -> Q k r -> Q' k r) -> KR Q kids cs -> KR Q' kids cs.
Proof.
  intros H K. induction K as [|k kids cs Hq K IH|k x kids cs Hq K IH].
  - constructor.
  - apply KR_none; [apply H; [left; reflexivity|exact Hq]|]. apply IH. intros k' r Hin. apply H. right. exact Hin.
  - apply KR_some; [apply H; [left; reflexivity|exact Hq]|]. apply IH. intros k' r Hin. apply H. right. exact Hin.
Qed.

Lemma KR_forallb (Q : node -> option rnode -> Prop) (c : node -> bool) kids cs :
  KR Q kids cs -> forallb c kids = true -> KR (fun k r => Q k r /\ c k = true) kids cs.
Proof.
  intros K. induction K as [|k kids cs Hq K IH|k x kids cs Hq K IH]; intros Hc.
  - constructor.
  - cbn [forallb] in Hc. apply andb_true_iff in Hc. destruct Hc as [H1 H2].
    apply KR_none; [split; assumption|apply IH, H2].
  - cbn [forallb] in Hc. apply andb_true_iff in Hc. destruct Hc as [H1 H2].
    apply KR_some; [split; assumption|apply IH, H2].
Qed.

Lemma KR_flat {B} (Q : node -> option rnode -> Prop) (m : rnode -> list B) (v : node -> list B) kids cs :
  (forall k, Q k None -> v k = []) -> (forall k x, Q k (Some x) -> m x = v k) ->
  KR Q kids cs -> flat_map m cs = flat_map v kids.
Proof.
  intros Hn Hs K. induction K as [|k kids cs Hq K IH|k x kids cs Hq K IH]; cbn [flat_map].
  - reflexivity.
  - rewrite (Hn k Hq). exact IH.
  - rewrite (Hs k x Hq), IH. reflexivity.
Qed.

Lemma KR_Forall (Q : node -> option rnode -> Prop) (P : rnode -> Prop) kids cs :
  (forall k x, Q k (Some x) -> P x) -> KR Q kids cs -> Forall P cs.
Proof.
  intros H K. induction K as [|k kids cs Hq K IH|k x kids cs Hq K IH]; [constructor|exact IH|].
  constructor; [apply (H k x Hq)|exact IH].
Qed.

Lemma flat_map_filter {A B} (f : A -> list B) (p : A -> bool) l :
  flat_map f (filter p l) = flat_map (fun x => if p x then f x else []) l.
Proof.
  induction l as [|a l IH]; [reflexivity|]. cbn [filter flat_map]. destruct (p a); cbn [flat_map app];
    rewrite IH; reflexivity.
Qed.
Lemma flat_map_flat_map {A B C} (f : A -> list B) (g : B -> list C) l :
  flat_map g (flat_map f l) = flat_map (fun x => flat_map g (f x)) l.
Proof.
  induction l as [|a l IH]; [reflexivity|]. cbn [flat_map]. rewrite flat_map_app, IH. reflexivity.
Qed.
Lemma flat_map_ext_F {A B} (f g : A -> list B) l :
  Forall (fun x => f x = g x) l -> flat_map f l = flat_map g l.
Proof. induction 1 as [|a l Ha _ IH]; [reflexivity|]. cbn [flat_map]. rewrite Ha, IH. reflexivity. Qed.

(* ================================================================== *)
(* 2. PART 1 -- the induction over `process`                            *)
(* ================================================================== *)

Definition gs_opt (r : option rnode) : text := match r with Some x => gs x | None => [] end.

(* what the parents rely on: the constructor of a kept child *)
Definition kfK (K : option ekd) (V : text) (x : rnode) : Prop :=
  match K with
  | Some KLi => ktag x = 1%nat
  | Some KDt => ktag x = 2%nat
  | Some KDd => ktag x = 3%nat
  | Some KSection => ktag x = 4%nat \/ V = []
  | Some KTr => ktag x = 5%nat
  | Some KCell => ktag x = 6%nat
  | _ => True
  end.
Definition kf_none (K : option ekd) : Prop :=
  match K with
  | Some KLi | Some KDt | Some KDd | Some KTr | Some KCell => False
  | _ => True
  end.

Definition GoodK (strict : bool) (K : option ekd) (V : text) (r : option rnode) : Prop :=
  gs_opt r = V /\
  match r with
  | Some x => (strict = true -> bare x = false) /\ kfK K V x
  | None => True
  end.
Definition Good (strict : bool) (n : node) (r : option rnode) : Prop :=
  GoodK strict (node_kind n) (dom_vis n) r.

(* pseudo-element content and the fragment marker *)
Definition post (computed : cstyle) (frag : option text) (base : option rnode) : option rnode :=
  let wrapped := match base with
                 | Some nd => Some (wrap_pseudo computed nd)
                 | None => None
                 end in
  match frag with
  | None => wrapped
  | Some f =>
    match wrapped with
    | None => Some (rn_new (IFragStart f))
    | Some nd => Some (insert_child (rn_new (IFragStart f)) nd true)
    end
  end.

Lemma post_good strict K V computed frag base :
  GoodK strict K V base -> (base = None -> kf_none K) ->
  GoodK strict K V (post computed frag base).
Proof.
  intros [Hg Hb] Hn. unfold post. destruct base as [b|].
  - destruct Hb as [Hbare Hk].
    assert (G : GoodK strict K V (Some (wrap_pseudo computed b))).
    { split; [cbn [gs_opt] in *; rewrite wrap_pseudo_gs; exact Hg|]. split.
      - rewrite wrap_pseudo_bare. exact Hbare.
      - unfold kfK in *. rewrite wrap_pseudo_ktag. exact Hk. }
    destruct frag as [f|]; [|exact G]. destruct G as [G1 [G2 G3]]. split; [|split].
    + cbn [gs_opt] in *. rewrite insert_child_gs; [exact G1|reflexivity].
    + rewrite insert_child_bare. exact G2.
    + unfold kfK in *. rewrite insert_child_ktag. exact G3.
  - destruct frag as [f|]; [|split; [exact Hg|exact I]]. cbn [gs_opt] in Hg.
    split; [exact Hg|]. split; [reflexivity|]. specialize (Hn eq_refl).
    unfold kfK, kf_none in *. destruct K as [[]|]; try exact I; try contradiction.
    right. symmetry. exact Hg.
Qed.

Lemma KR_gs s (c : node -> bool) kids cs :
  KR (fun k r => Good s k r /\ c k = true) kids cs -> flat_map gs cs = flat_map dom_vis kids.
Proof.
  apply KR_flat.
  - intros k [[H _] _]. cbn [gs_opt] in H. symmetry. exact H.
  - intros k x [[H _] _]. exact H.
Qed.

Lemma KR_leaf (c : node -> bool) kids cs :
  KR (fun k r => Good true k r /\ c k = true) kids cs ->
  flat_map leaf_stream cs = flat_map dom_vis kids.
Proof.
  intros K. rewrite <- (KR_gs _ _ _ _ K). apply flat_map_ext_F.
  apply (KR_Forall _ (fun x => leaf_stream x = gs x) _ _) with (2 := K).
  intros k x [[_ [Hb _]] _]. symmetry. apply gs_nonbare, Hb. reflexivity.
Qed.

(* a selecting parent: the children with tag in `sel` are kept (measure m), the others dropped *)
Lemma KR_select s K (m : rnode -> text) (sel : nat -> bool) kids cs :
  KR (fun k r => Good s k r /\ kid_cond K k = true) kids cs ->
  (forall x, sel (ktag x) = true -> m x = gs x) ->
  (forall x, sel (ktag x) = false -> m x = []) ->
  (forall k x, kid_cond K k = true -> kfK (node_kind k) (dom_vis k) x -> sel (ktag x) = false ->
               dom_vis k = []) ->
  flat_map m cs = flat_map dom_vis kids.
Proof.
  intros HK H1 H0 Hdrop. revert HK. apply KR_flat.
  - intros k [[H _] _]. cbn [gs_opt] in H. symmetry. exact H.
  - intros k x [[H [_ Hkf]] Hc]. cbn [gs_opt] in H. destruct (sel (ktag x)) eqn:E.
    + rewrite (H1 x E). exact H.
    + rewrite (H0 x E). symmetry. apply (Hdrop k x Hc Hkf E).
Qed.

Lemma vis_empty_nil k : vis_empty k = true -> dom_vis k = [].
Proof. unfold vis_empty. destruct (dom_vis k); [reflexivity|discriminate]. Qed.

Lemma base_good strict K attrs computed kids cs base :
  kind_leaf K = false ->
  allowed strict K = true ->
  KR (fun k r => Good (kid_strict K) k r /\ kid_cond K k = true) kids cs ->
  (K = KSup -> sup_digits cs = None) ->
  base_of K attrs computed cs = Ok base ->
  GoodK strict (Some K) (flat_map dom_vis kids) base /\ (base = None -> kf_none (Some K)).
Proof.
  intros Hleaf Hal HK Hsup Hb.
  pose proof (KR_gs _ _ _ _ HK) as F1.
  assert (F2 : kid_strict K = true -> flat_map leaf_stream cs = flat_map dom_vis kids).
  { intros E. rewrite E in HK. apply (KR_leaf _ _ _ HK). }
  set (V := flat_map dom_vis kids) in *.
  assert (Hmk : forall i, kid_strict K = true ->
            gs (RN i computed) = flat_map leaf_stream cs -> bare (RN i computed) = false ->
            kfK (Some K) V (RN i computed) ->
            GoodK strict (Some K) V (Some (RN i computed)) /\ (Some (RN i computed) = None -> kf_none (Some K))).
  { intros i Es Hgs Hbare Hkf. split; [|discriminate]. split; [cbn [gs_opt]; rewrite Hgs; apply F2, Es|].
    split; [intros _; exact Hbare|exact Hkf]. }
  assert (Hne : forall i, kid_strict K = true -> kf_none (Some K) ->
            gs (RN i computed) = flat_map leaf_stream cs -> bare (RN i computed) = false ->
            kfK (Some K) V (RN i computed) ->
            noempty_ computed cs i = Ok base ->
            GoodK strict (Some K) V base /\ (base = None -> kf_none (Some K))).
  { intros i Es Hkn Hgs Hbare Hkf H. unfold noempty_ in H. destruct cs as [|c0 cs0] eqn:Ecs.
    - ok_inv H. split; [|intros _; exact Hkn]. split; [|exact I]. cbn [gs_opt]. rewrite <- F1. reflexivity.
    - change (mk_ computed i = Ok base) in H. rewrite <- Ecs in *. unfold mk_ in H. ok_inv H.
      apply Hmk; assumption. }
  destruct K; try discriminate Hleaf; cbn [base_of] in Hb; unfold mk_ in Hb;
    try (ok_inv Hb; apply Hmk; [reflexivity|reflexivity|reflexivity|exact I || reflexivity]);
    try (refine (Hne _ eq_refl I _ _ _ Hb); [reflexivity|reflexivity|exact I]).
  - (* KA *)
    destruct (find_attr attrs s_href) as [href|].
    + destruct (existsb (fun c => negb (is_shallow_empty c)) cs) eqn:Ee.
      * ok_inv Hb. apply Hmk; [reflexivity|reflexivity|reflexivity|exact I].
      * ok_inv Hb. split; [|intros _; exact I]. split; [|exact I]. cbn [gs_opt].
        rewrite <- (F2 eq_refl). symmetry. apply all_shallow_empty_leaf, Ee.
    + ok_inv Hb. apply Hmk; [reflexivity|reflexivity|reflexivity|exact I].
  - (* KSup *)
    ok_inv Hb. apply Hmk; [reflexivity| |reflexivity|exact I].
    unfold gs. cbn [rn_info leaf_stream]. rewrite (Hsup eq_refl). reflexivity.
  - (* KPre *)
    ok_inv Hb. split; [|discriminate]. split; [cbn [gs_opt]; apply (F2 eq_refl)|].
    split; [intros _; reflexivity|exact I].
  - (* KTable *)
    set (rows := flat_map (fun n => match rn_info n with ITableBody b => b | _ => [] end) cs) in *.
    assert (Er : rows_s rows = V).
    { unfold rows_s, rows. rewrite flat_map_flat_map.
      apply (KR_select _ _ _ (fun t => Nat.eqb t 4) _ _ HK).
      - intros [i st] E. destruct i; try discriminate E. reflexivity.
      - intros [i st] E. destruct i; try reflexivity. discriminate E.
      - intros k x Hc Hkf E. cbn [kid_cond] in Hc. unfold kfK in Hkf.
        destruct (node_kind k) as [[]|]; try (apply vis_empty_nil, Hc).
        destruct Hkf as [Hkf|Hkf]; [rewrite Hkf in E; discriminate|exact Hkf]. }
    destruct rows as [|r0 rows0] eqn:Erows.
    + ok_inv Hb. split; [|intros _; exact I]. split; [|exact I]. cbn [gs_opt]. rewrite <- Er. reflexivity.
    + rewrite <- Erows in *. bind_inv Hb t Ht. ok_inv Hb. split; [|discriminate].
      split; [cbn [gs_opt]; rewrite (render_table_new_s _ _ _ Ht); exact Er|].
      split; [|exact I]. intros _. rewrite bare_ktag, (render_table_new_tag _ _ _ Ht). reflexivity.
  - (* KSection *)
    cbn [allowed] in Hal. apply negb_true_iff in Hal.
    destruct cs as [|c0 cs0] eqn:Ecs.
    + ok_inv Hb. split; [|intros _; exact I]. split; [|exact I]. cbn [gs_opt]. rewrite <- F1. reflexivity.
    + rewrite <- Ecs in *. bind_inv Hb rows' Hr. ok_inv Hb. split; [|discriminate].
      split; [|split; [intros E; first [discriminate E|rewrite E in Hal; discriminate]|left; reflexivity]].
      cbn [gs_opt]. unfold gs. cbn [rn_info]. rewrite (tbody_rows_s _ _ Hr).
      unfold rows_s. rewrite flat_map_flat_map.
      apply (KR_select _ _ _ (fun t => Nat.eqb t 5) _ _ HK).
      * intros [i st] E. destruct i; try discriminate E. destruct r as [cells s].
        cbn [rn_info flat_map]. rewrite app_nil_r. reflexivity.
      * intros [i st] E. destruct i; try reflexivity. discriminate E.
      * intros k x Hc Hkf E. cbn [kid_cond] in Hc. unfold kfK in Hkf.
        destruct (node_kind k) as [[]|]; try (apply vis_empty_nil, Hc).
        rewrite Hkf in E. discriminate.
  - (* KTr *)
    cbn [allowed] in Hal. apply negb_true_iff in Hal.
    ok_inv Hb. split; [|discriminate].
    split; [|split; [intros E; first [discriminate E|rewrite E in Hal; discriminate]|reflexivity]].
    cbn [gs_opt]. unfold gs. cbn [rn_info]. unfold cells_s. rewrite flat_map_flat_map.
    apply (KR_select _ _ _ (fun t => Nat.eqb t 6) _ _ HK).
    + intros [i st] E. destruct i; try discriminate E. destruct c as [n k s].
      cbn [rn_info flat_map]. rewrite app_nil_r. reflexivity.
    + intros [i st] E. destruct i; try reflexivity. discriminate E.
    + intros k x Hc Hkf E. cbn [kid_cond] in Hc. unfold kfK in Hkf.
      destruct (node_kind k) as [[]|]; try (apply vis_empty_nil, Hc).
      rewrite Hkf in E. discriminate.
  - (* KCell *)
    cbn [allowed] in Hal. apply negb_true_iff in Hal.
    ok_inv Hb. split; [|discriminate].
    split; [|split; [intros E; first [discriminate E|rewrite E in Hal; discriminate]|reflexivity]].
    cbn [gs_opt]. unfold gs. cbn [rn_info]. apply (F2 eq_refl).
  - (* KOl *)
    refine (Hne _ eq_refl I _ _ _ Hb); [|reflexivity|exact I].
    unfold gs. cbn [rn_info leaf_stream]. unfold filter_info. rewrite flat_map_filter.
    rewrite (F2 eq_refl). apply (KR_select _ _ _ (fun t => Nat.eqb t 1) _ _ HK).
    + intros [i st] E. destruct i; try discriminate E. reflexivity.
    + intros [i st] E. destruct i; try reflexivity. discriminate E.
    + intros k x Hc Hkf E. cbn [kid_cond] in Hc. unfold kfK in Hkf.
      destruct (node_kind k) as [[]|]; try (apply vis_empty_nil, Hc).
      rewrite Hkf in E. discriminate.
  - (* KDl *)
    refine (Hne _ eq_refl I _ _ _ Hb); [|reflexivity|exact I].
    unfold gs. cbn [rn_info leaf_stream]. unfold filter_info. rewrite flat_map_filter.
    rewrite (F2 eq_refl). apply (KR_select _ _ _ (fun t => Nat.eqb t 2 || Nat.eqb t 3) _ _ HK).
    + intros [i st] E. destruct i; try discriminate E; reflexivity.
    + intros [i st] E. destruct i; try reflexivity; discriminate E.
    + intros k x Hc Hkf E. cbn [kid_cond] in Hc. unfold kfK in Hkf.
      destruct (node_kind k) as [[]|]; try (apply vis_empty_nil, Hc);
        rewrite Hkf in E; discriminate.
Qed.

Section Part1.
  Variable sd : styledata.
  Variable udc : bool.
  Variable inl : list (text * text) -> res (list styledecl).
  Notation process := (process sd udc inl).

  (* dom_plain: decidable, computed along the traversal `process` makes (ancestor chain, element
     indices); says that (a) no element that `process` reaches is hidden by CSS (Prune.hidden:
     its computed display is none, i.e. the display cell is `Some true`) and (b) no <sup> element is rendered with the superscript
     digit replacement (recorded deviation (iv) `sup_digits...`: the processed children are a
     single all-digit text). *)
  Fixpoint plain (n : node) (p : list anc) (idx : Z) {struct n} : bool :=
    match n with
    | NElem html name attrs kids =>
      let me := mkanc name attrs idx :: p in
      negb (hidden sd udc inl me attrs) &&
      (if html && kind_leaf (kind_of name) then true
       else blk_of (fun k i => plain k me i) kids 1%Z &&
            (if html then
               match kind_of name with
               | KSup => match pk_of (fun k i => process k me i) kids 1%Z with
                         | Ok cs => match sup_digits cs with Some _ => false | None => true end
                         | _ => true
                         end
               | _ => true
               end
             else true))
    | _ => true
    end.
  Definition dom_plain (doc : list node) : bool := blk_of (fun k i => plain k [] i) doc 1%Z.

  Lemma kids_KR s me kids :
    Forall (fun k => forall strict p idx r, reg strict k = true -> plain k p idx = true ->
                       process k p idx = Ok r -> Good strict k r) kids ->
    forallb (reg s) kids = true ->
    forall i cs, blk_of (fun k i => plain k me i) kids i = true ->
    pk_of (fun k i => process k me i) kids i = Ok cs ->
    KR (Good s) kids cs.
  Proof.
    intros IH Hr i cs Hp H.
    apply (pk_KR (fun k i => process k me i) (fun k i => plain k me i) (Good s) kids) with (2 := Hp) (3 := H).
    rewrite Forall_forall in *. rewrite forallb_forall in Hr.
    intros k Hk j r Hg Hpr. apply (IH k Hk s me j r (Hr k Hk) Hg Hpr).
  Qed.

  Lemma process_good : forall n strict p idx r,
    reg strict n = true -> plain n p idx = true -> process n p idx = Ok r -> Good strict n r.
  Proof.
    apply (node_ind' (fun n => forall strict p idx r,
             reg strict n = true -> plain n p idx = true -> process n p idx = Ok r -> Good strict n r)).
    2:{ intros t strict p idx r _ _ H. cbn [Dom.process] in H. ok_inv H.
        split; [reflexivity|]. split; [intros _; reflexivity|exact I]. }
    2:{ intros strict p idx r _ _ H. cbn [Dom.process] in H. ok_inv H. split; [reflexivity|exact I]. }
    2:{ intros strict p idx r _ _ H. cbn [Dom.process] in H. ok_inv H. split; [reflexivity|exact I]. }
    intros html name attrs kids IH strict p idx r Hreg Hpl H.
    rewrite process_eq in H. unfold pbody in H.
    set (me := mkanc name attrs idx :: p) in *.
    cbn [plain] in Hpl. fold me in Hpl. apply andb_true_iff in Hpl. destruct Hpl as [Hh Hpl].
    apply negb_true_iff in Hh. unfold hidden in Hh.
    bind_inv H inls Hinl. rewrite Hinl in Hh.
    set (computed := computed_style sd me inls) in *.
    assert (Hm : forall (X : Type) (a b : X),
               match ws_val (c_display (cs_core computed)) with Some true => a | _ => b end = b).
    { intros X a b. destruct (ws_val (c_display (cs_core computed))) as [[|]|];
        [discriminate Hh|reflexivity|reflexivity]. }
    rewrite Hm in H. clear Hm Hh.
    bind_inv H base Hbase.
    assert (Er : r = post computed (fragment_of name (html && names [[97]] name) attrs) base).
    { unfold post. destruct (fragment_of name (html && names [[97]] name) attrs) as [f|].
      - destruct base; ok_inv H; reflexivity.
      - ok_inv H. reflexivity. }
    clear H. subst r. unfold Good. apply post_good.
    - (* the base *)
      destruct html; cbn [negb andb] in *.
      + rewrite html_base_eq in Hbase. cbn [reg negb] in Hreg. cbn [node_kind].
        destruct (kind_leaf (kind_of name)) eqn:El.
        * (* img, br, skipped *)
          cbn [dom_vis negb]. destruct (kind_of name); try discriminate El; cbn [base_of] in Hbase.
          -- unfold img_vis. destruct (img_attrs attrs None None) as [[title|] [src|]];
               ok_inv Hbase; split; try reflexivity; try exact I.
             split; [intros _; reflexivity|exact I].
          -- ok_inv Hbase. split; [reflexivity|]. split; [intros _; reflexivity|exact I].
          -- ok_inv Hbase. split; [reflexivity|exact I].
        * apply andb_true_iff in Hreg. destruct Hreg as [Hreg Hcond].
          apply andb_true_iff in Hreg. destruct Hreg as [Hal Hrk].
          apply andb_true_iff in Hpl. destruct Hpl as [Hpk Hsup].
          bind_inv Hbase cs Hcs.
          pose proof (kids_KR _ me kids IH Hrk _ _ Hpk Hcs) as HK.
          pose proof (KR_forallb _ _ _ _ HK Hcond) as HK2.
          assert (Ev : dom_vis (NElem true name attrs kids) = flat_map dom_vis kids).
          { cbn [dom_vis negb]. destruct (kind_of name); try discriminate El; reflexivity. }
          rewrite Ev.
          apply (base_good strict (kind_of name) attrs computed kids cs base El Hal HK2); [|exact Hbase].
          intros Ek. rewrite Ek in Hsup. rewrite Hcs in Hsup.
          destruct (sup_digits cs); [discriminate Hsup|reflexivity].
      + (* not an HTML element *)
        cbn [reg negb] in Hreg. apply andb_true_iff in Hpl. destruct Hpl as [Hpk _].
        bind_inv Hbase cs Hcs.
        pose proof (kids_KR _ me kids IH Hreg _ _ Hpk Hcs) as HK.
        assert (HK2 : KR (fun k r => Good true k r /\ (fun _ => true) k = true) kids cs).
        { apply (KR_impl _ _ _ _ (fun k r _ Hq => conj Hq eq_refl) HK). }
        pose proof (KR_leaf _ _ _ HK2) as F.
        cbn [node_kind dom_vis negb]. destruct cs as [|c0 cs0]; injection Hbase as <-.
        * split; [|exact I]. cbn [gs_opt]. rewrite <- F. reflexivity.
        * split; [exact F|]. split; [intros _; reflexivity|exact I].
    - (* kinds that always give a node *)
      intros ->. destruct html; cbn [node_kind]; [|exact I].
      rewrite html_base_eq in Hbase.
      destruct (kind_of name); cbn [kf_none]; try exact I; exfalso;
        cbn [kind_leaf base_of] in Hbase; bind_inv Hbase cs Hcs; discriminate Hbase.
  Qed.

  Lemma doc_KR doc cs :
    dom_regular doc = true -> dom_plain doc = true ->
    process_kids sd udc inl doc [] 1%Z = Ok cs -> KR (Good true) doc cs.
  Proof.
    intros Hr Hp H. rewrite process_kids_eq in H.
    apply (pk_KR (fun k i => process k [] i) (fun k i => plain k [] i) (Good true) doc) with (2 := Hp) (3 := H).
    apply Forall_forall. intros k Hk i r Hg Hpr. unfold dom_regular in Hr. rewrite forallb_forall in Hr.
    apply (process_good k true [] i r (Hr k Hk) Hg Hpr).
  Qed.

  (* PART 1 at a fixed style sheet *)
  Theorem dom_tree_visible doc tree :
    dom_regular doc = true -> dom_plain doc = true ->
    dom_to_render_tree sd udc inl doc = Ok tree -> leaf_stream tree = dom_visible doc.
  Proof.
    intros Hr Hp H. unfold dom_to_render_tree in H. bind_inv H cs Hcs. ok_inv H.
    pose proof (doc_KR doc cs Hr Hp Hcs) as HK.
    assert (HK2 : KR (fun k r => Good true k r /\ (fun _ => true) k = true) doc cs).
    { apply (KR_impl _ _ _ _ (fun k r _ Hq => conj Hq eq_refl) HK). }
    exact (KR_leaf _ _ _ HK2).
  Qed.
End Part1.

Section Routes1.
  Variable inline_styles : list (text * text) -> res (list styledecl).
  Variable doc_rules : list node -> res (list ruleset).

  (* the side condition dom_plain at the style sheet the route uses (decidable: a computable
     function of the configuration and the document) *)
  Definition doc_plain (c : config) (doc : list node) : bool :=
    match effective_sd doc_rules c doc with
    | Ok sd => dom_plain sd (c_use_doc_css c) inline_styles doc
    | _ => true
    end.

  (* PART 1 (C03, the DOM filter): the plain text of the leaves of the render tree is exactly
     the visible text of the document, in document order *)
  Theorem c03_dom_visible : forall (c : config) (doc : list node) (tree : rnode),
    dom_regular doc = true -> doc_plain c doc = true ->
    to_render_tree inline_styles doc_rules c doc = Ok tree ->
    leaf_stream tree = dom_visible doc.
  Proof.
    intros c doc tree Hr Hp H. unfold to_render_tree in H. bind_inv H sd Hsd.
    unfold doc_plain in Hp. rewrite Hsd in Hp. apply (dom_tree_visible _ _ _ doc tree Hr Hp H).
  Qed.

  (* ... hence, for a decorator all of whose affixes are renderer-made, of RenderConserve's
     doc_stream, which is what the C03 theorems there say the output contains *)
  Corollary c03_dom_doc_stream : forall (c : config) (doc : list node) (tree : rnode),
    deco_made (c_deco c) ->
    dom_regular doc = true -> doc_plain c doc = true ->
    to_render_tree inline_styles doc_rules c doc = Ok tree ->
    doc_stream (c_deco c) tree = dom_visible doc.
  Proof.
    intros c doc tree Hd Hr Hp H. rewrite (doc_stream_leaf _ Hd). apply (c03_dom_visible c doc tree Hr Hp H).
  Qed.
End Routes1.
Print Assumptions c03_dom_visible.
Print Assumptions c03_dom_doc_stream.

(* ================================================================== *)
(* 3. PART 2 (C14) -- fragment markers                                  *)
(* ================================================================== *)

(* ---------- the specification streams ---------- *)
Definition mark (f : option text) : list sitem := match f with Some f => [inl f] | None => [] end.

(* the fragment name of an element: the first `id` attribute, for <a> also `name` *)
Definition frag_name (html : bool) (name : text) (attrs : list (text * text)) : option text :=
  fragment_of name (html && names [[97]] name) attrs.

(* dom_all: every visible character (inr) and, for EVERY element that has a fragment name - of
   whatever kind, HTML or not, also <br>, <img>, <hr>, <script> ... - the marker (inl), placed
   directly before the element's content *)
Fixpoint dma (n : node) {struct n} : list sitem :=
  match n with
  | NText t => mchars t
  | NComment | NOther => []
  | NElem html name attrs kids =>
    mark (frag_name html name attrs) ++
    (if negb html then flat_map dma kids
     else match kind_of name with
          | KImg => map inr (img_vis attrs)
          | KBr | KSkip => []
          | _ => flat_map dma kids
          end)
  end.
Definition dom_all (doc : list node) : list sitem := flat_map dma doc.

(* dom_live: the same, but only the markers of elements whose subtree has at least one
   visible character *)
Fixpoint dml (n : node) {struct n} : list sitem :=
  match n with
  | NText t => mchars t
  | NComment | NOther => []
  | NElem html name attrs kids =>
    if vis_empty n then [] else
    mark (frag_name html name attrs) ++
    (if negb html then flat_map dml kids
     else match kind_of name with
          | KImg => map inr (img_vis attrs)
          | KBr | KSkip => []
          | _ => flat_map dml kids
          end)
  end.
Definition dom_live (doc : list node) : list sitem := flat_map dml doc.

Lemma projr_mark f : projr (mark f) = [].
Proof. destruct f; reflexivity. Qed.

Lemma projr_dma : forall n, projr (dma n) = dom_vis n.
Proof.
  apply (node_ind' (fun n => projr (dma n) = dom_vis n)); try reflexivity.
  2:{ intros t. apply projr_mchars. }
  intros html name attrs kids IH. cbn [dma dom_vis]. rewrite projr_app, projr_mark. cbn [app].
  assert (E : projr (flat_map dma kids) = flat_map dom_vis kids) by (apply projr_flat_map, IH).
  destruct (negb html); [exact E|].
  destruct (kind_of name); try exact E; try reflexivity. apply projr_map_inr.
Qed.

Lemma projr_dml : forall n, projr (dml n) = dom_vis n.
Proof.
  apply (node_ind' (fun n => projr (dml n) = dom_vis n)); try reflexivity.
  2:{ intros t. apply projr_mchars. }
  intros html name attrs kids IH. cbn [dml].
  destruct (vis_empty (NElem html name attrs kids)) eqn:Ev.
  { symmetry. apply vis_empty_nil, Ev. }
  cbn [dom_vis]. rewrite projr_app, projr_mark. cbn [app].
  assert (E : projr (flat_map dml kids) = flat_map dom_vis kids) by (apply projr_flat_map, IH).
  destruct (negb html); [exact E|].
  destruct (kind_of name); try exact E; try reflexivity. apply projr_map_inr.
Qed.

Lemma dml_empty n : dom_vis n = [] -> dml n = [].
Proof.
  destruct n as [html name attrs kids|t| |]; try reflexivity.
  - intros H. cbn [dml]. unfold vis_empty. rewrite H. reflexivity.
  - cbn [dom_vis dml]. unfold mchars. intros ->. reflexivity.
Qed.

Lemma flat_map_nil {A B} (f : A -> list B) l : (forall x, In x l -> f x = []) -> flat_map f l = [].
Proof.
  induction l as [|a l IH]; intros H; [reflexivity|]. cbn [flat_map].
  rewrite (H a (or_introl eq_refl)), IH; [reflexivity|]. intros x Hx. apply H. right. exact Hx.
Qed.
Lemma flat_map_nil_inv {A B} (f : A -> list B) l : flat_map f l = [] -> forall x, In x l -> f x = [].
Proof.
  induction l as [|a l IH]; intros H x Hx; [contradiction|]. cbn [flat_map] in H.
  apply app_eq_nil in H. destruct H as [H1 H2]. destruct Hx as [<-|Hx]; [exact H1|apply IH; assumption].
Qed.

Lemma dml_kids_empty kids : flat_map dom_vis kids = [] -> flat_map dml kids = [].
Proof.
  intros H. apply flat_map_nil. intros k Hk. apply dml_empty. exact (flat_map_nil_inv _ _ H k Hk).
Qed.

(* ---------- streams without trailing markers ---------- *)
Definition tight (x : list sitem) : Prop := strip x = x.

Lemma tight_nil : tight [].
Proof. reflexivity. Qed.
Lemma tight_app a b : tight a -> tight b -> tight (a ++ b).
Proof.
  unfold tight. intros Ha Hb. destruct (projr b) as [|c r] eqn:E.
  - rewrite (strip_no_chars _ E) in Hb. subst b. rewrite app_nil_r. exact Ha.
  - rewrite strip_keep; [rewrite Hb; reflexivity|]. rewrite E. discriminate.
Qed.
Lemma tight_chars t : tight (map inr t).
Proof.
  unfold tight. induction t as [|c t IH]; [reflexivity|]. cbn [map strip]. rewrite IH.
  destruct (map inr t); reflexivity.
Qed.
Lemma tight_flat_map {A} (f : A -> list sitem) l : (forall x, In x l -> tight (f x)) -> tight (flat_map f l).
Proof.
  induction l as [|a l IH]; intros H; [reflexivity|]. cbn [flat_map]. apply tight_app.
  - apply H. left. reflexivity.
  - apply IH. intros x Hx. apply H. right. exact Hx.
Qed.
Lemma tight_mark f x : tight x -> projr x <> [] -> tight (mark f ++ x).
Proof.
  intros Hx Hp. unfold tight. rewrite strip_keep by exact Hp. rewrite Hx. reflexivity.
Qed.

Lemma tight_dml : forall n, tight (dml n).
Proof.
  apply (node_ind' (fun n => tight (dml n))); try reflexivity.
  2:{ intros t. apply tight_chars. }
  intros html name attrs kids IH. pose proof (projr_dml (NElem html name attrs kids)) as Hp.
  cbn [dml] in *. destruct (vis_empty (NElem html name attrs kids)) eqn:Ev; [reflexivity|].
  rewrite projr_app, projr_mark in Hp. cbn [app] in Hp.
  apply tight_mark.
  - assert (E : tight (flat_map dml kids)).
    { apply tight_flat_map. rewrite Forall_forall in IH. exact IH. }
    destruct (negb html); [exact E|].
    destruct (kind_of name); try exact E; try reflexivity. apply tight_chars.
  - rewrite Hp. unfold vis_empty in Ev. intros E. rewrite E in Ev. discriminate.
Qed.

Lemma strip_decomp : forall y, exists ms, y = strip y ++ map inl ms.
Proof.
  induction y as [|i y [ms IH]]; [exists []; reflexivity|]. cbn [strip].
  destruct (strip y) as [|j r] eqn:E.
  - cbn [app] in IH. destruct i as [m|c].
    + exists (m :: ms). cbn [app map]. rewrite <- IH. reflexivity.
    + exists ms. cbn [app]. rewrite <- IH. reflexivity.
  - exists ms. destruct i; cbn [app]; rewrite IH at 1; reflexivity.
Qed.

(* a tight lower bound survives `strip` *)
Lemma msub_tight_strip x y : tight x -> msub x y -> msub x (strip y).
Proof.
  intros Hx H. destruct (strip_decomp y) as [ms E]. rewrite <- Hx.
  exact (strip_msub_cut _ _ H (strip y) ms E).
Qed.

Lemma msub_nil_of_projr x : projr x = [] -> msub [] x.
Proof. intros H. destruct (no_chars_markers _ H) as [ms ->]. exact (msub_markers_r [] ms). Qed.

(* ---------- mtree and insert_child ---------- *)
Section MT.
  Variable d : deco.
  Hypothesis Hd : deco_made d.
  Notation mlo := (mtree strip d).
  Notation mhi := (mtree (fun x => x) d).

  Lemma mchars_nil t : doc_chars t = [] -> mchars t = [].
  Proof. unfold mchars. intros ->. reflexivity. Qed.

  Lemma deco_mchars :
    (forall h, mchars (fst (d_link_start d h)) = []) /\ mchars (d_link_end d) = [] /\
    mchars (fst (d_em_start d)) = [] /\ mchars (d_em_end d) = [] /\
    mchars (fst (d_strong_start d)) = [] /\ mchars (d_strong_end d) = [] /\
    mchars (fst (d_strike_start d)) = [] /\ mchars (d_strike_end d) = [] /\
    mchars (fst (d_code_start d)) = [] /\ mchars (d_code_end d) = [] /\
    mchars (fst (d_sup_start d)) = [] /\ mchars (d_sup_end d) = [].
  Proof.
    destruct Hd. repeat split; try intros h; apply mchars_nil; auto.
  Qed.

  Lemma mlo_le_mhi : forall x, msub (mlo x) (mhi x).
  Proof.
    apply rnode_ind'. intros i sty IH.
    assert (K : forall cs, Forall (fun x => msub (mlo x) (mhi x)) cs ->
                           msub (flat_map mlo cs) (flat_map mhi cs)).
    { intros cs H. apply msub_flat_map, H. }
    assert (KS : forall cs, Forall (fun x => msub (mlo x) (mhi x)) cs ->
                            msub (flat_map (fun c => strip (mlo c)) cs) (flat_map (fun c => mhi c) cs)).
    { intros cs H. apply msub_flat_map. apply Forall_forall. intros x Hx. rewrite Forall_forall in H.
      eapply msub_trans; [apply strip_msub|apply H, Hx]. }
    destruct i; cbn [direct_kids] in IH; cbn [mtree rn_info];
      try apply msub_refl;
      try (apply K, IH);
      try (apply msub_app; [apply msub_refl|apply msub_app; [apply K, IH|apply msub_refl]]);
      try (eapply msub_trans; [apply strip_msub|apply K, IH]);
      try (apply KS, IH).
    destruct (sup_digits cs); [apply msub_refl|].
    apply msub_app; [apply msub_refl|apply msub_app; [apply K, IH|apply msub_refl]].
  Qed.

  Lemma insert_child_mtree_nil sc a n b :
    mtree sc d a = [] -> mtree sc d (insert_child a n b) = mtree sc d n.
  Proof.
    intros H. destruct n as [i st].
    assert (F : forall v, flat_map (mtree sc d) (ins b a v) = flat_map (mtree sc d) v).
    { intros v. apply flat_map_ins, H. }
    destruct i; cbn [insert_child];
      try (cbn [mtree rn_info]; rewrite ?F; reflexivity);
      try (destruct b; unfold rn_new; cbn [mtree rn_info flat_map]; rewrite H, ?app_nil_r; reflexivity).
    - destruct r; reflexivity.
    - destruct c; reflexivity.
  Qed.

  Lemma wrap_pseudo_mtree sc computed n : mtree sc d (wrap_pseudo computed n) = mtree sc d n.
  Proof.
    unfold wrap_pseudo.
    assert (E : forall t, mtree sc d (rn_new (IText (relabel L_deco t))) = []).
    { intros t. unfold rn_new. cbn [mtree rn_info]. apply mchars_nil, doc_chars_relabel_deco. }
    set (n1 := match cs_before computed with
               | Some c => match ws_val (c_content c) with
                           | Some t => insert_child (rn_new (IText (relabel L_deco t))) n true
                           | None => n
                           end
               | None => n
               end).
    assert (E1 : mtree sc d n1 = mtree sc d n).
    { subst n1. destruct (cs_before computed) as [c|]; [|reflexivity].
      destruct (ws_val (c_content c)); [|reflexivity]. apply insert_child_mtree_nil, E. }
    destruct (cs_after computed) as [c|]; [|exact E1].
    destruct (ws_val (c_content c)); [|exact E1]. rewrite insert_child_mtree_nil; [exact E1|apply E].
  Qed.

  (* the marker goes directly in front of the element's stream *)
  Lemma insert_frag_hi f n : no_table n = true ->
    mhi (insert_child (rn_new (IFragStart f)) n true) = inl f :: mhi n.
  Proof.
    destruct deco_mchars as (_ & _ & Es & Ee & _).
    intros Hn. destruct n as [i st].
    destruct i; try discriminate Hn; cbn [insert_child ins]; unfold rn_new;
      cbn [mtree rn_info flat_map app]; rewrite ?app_nil_r; try reflexivity.
    rewrite Es. reflexivity.
  Qed.

  Lemma insert_frag_lo f n L : no_table n = true -> msub L (mlo n) -> projr L <> [] ->
    msub (inl f :: L) (mlo (insert_child (rn_new (IFragStart f)) n true)).
  Proof.
    destruct deco_mchars as (_ & _ & Es & Ee & _).
    intros Hn HL Hp. destruct n as [i st].
    assert (S : forall K, msub L (strip K) -> msub (inl f :: L) (strip (inl f :: K))).
    { intros K H. change (inl f :: K) with ([@inl text chr f] ++ K).
      rewrite strip_keep; [constructor; exact H|].
      rewrite <- strip_projr, <- (msub_projr _ _ H). exact Hp. }
    destruct i; try discriminate Hn; cbn [insert_child ins]; unfold rn_new;
      cbn [mtree rn_info flat_map app] in *; rewrite ?app_nil_r;
      try (constructor; exact HL); try (apply S, HL).
    rewrite Es in *. cbn [app] in *. constructor. exact HL.
  Qed.

  Lemma insert_child_no_table a n b :
    no_table a = true -> no_table n = true -> no_table (insert_child a n b) = true.
  Proof.
    intros Ha Hn. destruct n as [i st].
    assert (F : forall v, forallb no_table v = true -> forallb no_table (ins b a v) = true).
    { intros v Hv. unfold ins. destruct b; [cbn [forallb]; rewrite Ha, Hv; reflexivity|].
      rewrite forallb_app, Hv. cbn [forallb]. rewrite Ha. reflexivity. }
    destruct i; try discriminate Hn; cbn [insert_child]; cbn [no_table rn_info] in *;
      try (apply F, Hn);
      try (destruct b; unfold rn_new; cbn [no_table rn_info forallb]; rewrite ?Ha, ?Hn; reflexivity).
  Qed.

  Lemma wrap_pseudo_no_table computed n : no_table n = true -> no_table (wrap_pseudo computed n) = true.
  Proof.
    intros Hn. unfold wrap_pseudo.
    set (n1 := match cs_before computed with
               | Some c => match ws_val (c_content c) with
                           | Some t => insert_child (rn_new (IText (relabel L_deco t))) n true
                           | None => n
                           end
               | None => n
               end).
    assert (E1 : no_table n1 = true).
    { subst n1. destruct (cs_before computed) as [c|]; [|exact Hn].
      destruct (ws_val (c_content c)); [|exact Hn]. apply insert_child_no_table; [reflexivity|exact Hn]. }
    destruct (cs_after computed) as [c|]; [|exact E1].
    destruct (ws_val (c_content c)); [|exact E1]. apply insert_child_no_table; [reflexivity|exact E1].
  Qed.

  Definition lo_opt (r : option rnode) : list sitem := match r with Some x => mlo x | None => [] end.
  Definition hi_opt (r : option rnode) : list sitem := match r with Some x => mhi x | None => [] end.
  Definition nt_opt (r : option rnode) : Prop := match r with Some x => no_table x = true | None => True end.

  (* the invariant of the induction: lower bound (live markers, nested blocks closed with
     `strip`), upper bound (all markers), no table *)
  Definition MG (n : node) (r : option rnode) : Prop :=
    msub (dml n) (lo_opt r) /\ msub (hi_opt r) (dma n) /\ nt_opt r.

  Lemma KR_msub_lo (Q : node -> option rnode -> Prop) (m : rnode -> list sitem) kids cs :
    (forall k, Q k None -> dml k = []) -> (forall k x, Q k (Some x) -> msub (dml k) (m x)) ->
    KR Q kids cs -> msub (flat_map dml kids) (flat_map m cs).
  Proof.
    intros Hn Hs K. induction K as [|k kids cs Hq K IH|k x kids cs Hq K IH]; cbn [flat_map].
    - constructor.
    - rewrite (Hn k Hq). exact IH.
    - apply msub_app; [apply (Hs k x Hq)|exact IH].
  Qed.
  Lemma KR_msub_hi (Q : node -> option rnode -> Prop) (m : rnode -> list sitem) kids cs :
    (forall k, Q k None -> msub [] (dma k)) -> (forall k x, Q k (Some x) -> msub (m x) (dma k)) ->
    KR Q kids cs -> msub (flat_map m cs) (flat_map dma kids).
  Proof.
    intros Hn Hs K. induction K as [|k kids cs Hq K IH|k x kids cs Hq K IH]; cbn [flat_map].
    - constructor.
    - change (flat_map m cs) with ([] ++ flat_map m cs). apply msub_app; [apply (Hn k Hq)|exact IH].
    - apply msub_app; [apply (Hs k x Hq)|exact IH].
  Qed.

  Lemma post_mg computed frag base L H V :
    msub L (lo_opt base) -> msub (hi_opt base) H -> nt_opt base -> projr H = V ->
    let r := post computed frag base in
    msub (match V with [] => [] | _ => mark frag ++ L end) (lo_opt r) /\
    msub (hi_opt r) (mark frag ++ H) /\ nt_opt r.
  Proof.
    intros HL HH Hn HV r. subst r. unfold post. destruct base as [b|].
    - cbn [lo_opt hi_opt nt_opt] in *.
      set (w := wrap_pseudo computed b).
      assert (Ew1 : mlo w = mlo b) by apply wrap_pseudo_mtree.
      assert (Ew2 : mhi w = mhi b) by apply wrap_pseudo_mtree.
      assert (Ew3 : no_table w = true) by (apply wrap_pseudo_no_table, Hn).
      assert (EL : projr L = V).
      { rewrite (msub_projr _ _ HL), (msub_projr _ _ (mlo_le_mhi b)), (msub_projr _ _ HH). exact HV. }
      destruct frag as [f|]; cbn [mark app lo_opt hi_opt nt_opt].
      + split; [|split].
        * destruct V as [|c V'] eqn:EV.
          -- apply msub_nil_of_projr.
             rewrite (msub_projr _ _ (mlo_le_mhi _)), (insert_frag_hi f w Ew3), projr_cons_inl, Ew2.
             rewrite (msub_projr _ _ HH). exact HV.
          -- apply insert_frag_lo; [exact Ew3|rewrite Ew1; exact HL|rewrite EL; discriminate].
        * rewrite (insert_frag_hi f w Ew3), Ew2. constructor. exact HH.
        * apply insert_child_no_table; [reflexivity|exact Ew3].
      + split; [|split].
        * rewrite Ew1. destruct V as [|c V'] eqn:EV; [|exact HL].
          apply msub_nil_of_projr. rewrite <- EL. symmetry. apply msub_projr, HL.
        * rewrite Ew2. exact HH.
        * exact Ew3.
    - cbn [lo_opt hi_opt] in *. apply msub_nil_r in HL. subst L.
      assert (EV : V = []) by (rewrite <- HV; symmetry; apply (msub_projr _ _ HH)). rewrite EV.
      destruct frag as [f|]; cbn [mark app lo_opt hi_opt nt_opt].
      + split; [|split]; [unfold rn_new; cbn [mtree rn_info]; constructor; constructor|
                          unfold rn_new; cbn [mtree rn_info]; constructor; exact HH|reflexivity].
      + split; [constructor|split; [exact HH|exact I]].
  Qed.

  Definition ntk (K : ekd) : bool :=
    match K with KTable | KSection | KTr | KCell => false | _ => true end.

  Lemma base_mg K attrs computed kids cs base :
    kind_leaf K = false -> ntk K = true ->
    KR (fun k r => (Good true k r /\ kid_cond K k = true) /\ MG k r) kids cs ->
    (K = KSup -> sup_digits cs = None) ->
    base_of K attrs computed cs = Ok base ->
    msub (flat_map dml kids) (lo_opt base) /\ msub (hi_opt base) (flat_map dma kids) /\ nt_opt base.
  Proof.
    intros Hleaf Hnt HK Hsup Hb.
    destruct deco_mchars as (Dl1 & Dl2 & De1 & De2 & Dg1 & Dg2 & Dk1 & Dk2 & Dc1 & Dc2 & Ds1 & Ds2).
    assert (L1 : msub (flat_map dml kids) (flat_map mlo cs)).
    { apply (KR_msub_lo _ _ _ _) with (3 := HK).
      - intros k [_ [H _]]. apply msub_nil_r, H.
      - intros k x [_ [H _]]. exact H. }
    assert (L1s : msub (flat_map dml kids) (flat_map (fun c => strip (mlo c)) cs)).
    { apply (KR_msub_lo _ _ _ _) with (3 := HK).
      - intros k [_ [H _]]. apply msub_nil_r, H.
      - intros k x [_ [H _]]. apply msub_tight_strip; [apply tight_dml|exact H]. }
    assert (H1 : msub (flat_map mhi cs) (flat_map dma kids)).
    { apply (KR_msub_hi _ _ _ _) with (3 := HK).
      - intros k [_ [_ [H _]]]. exact H.
      - intros k x [_ [_ [H _]]]. exact H. }
    assert (H1' : msub (flat_map (fun c => mhi c) cs) (flat_map dma kids)) by exact H1.
    assert (N1 : forallb no_table cs = true).
    { apply forallb_forall. apply Forall_forall.
      apply (KR_Forall _ (fun x => no_table x = true) _ _) with (2 := HK).
      intros k x [_ [_ [_ H]]]. exact H. }
    assert (TL : tight (flat_map dml kids)).
    { apply tight_flat_map. intros k _. apply tight_dml. }
    assert (LS : msub (flat_map dml kids) (strip (flat_map mlo cs))).
    { apply msub_tight_strip; assumption. }
    assert (EV : flat_map leaf_stream cs = flat_map dom_vis kids).
    { apply (KR_leaf (kid_cond K)). apply (KR_impl _ _ _ _ (fun k r _ Hq => proj1 Hq) HK). }
    assert (Hne : forall i,
              msub (flat_map dml kids) (mlo (RN i computed)) ->
              msub (mhi (RN i computed)) (flat_map dma kids) ->
              no_table (RN i computed) = true ->
              noempty_ computed cs i = Ok base ->
              msub (flat_map dml kids) (lo_opt base) /\ msub (hi_opt base) (flat_map dma kids) /\
              nt_opt base).
    { intros i A B C H. unfold noempty_ in H. destruct cs as [|c0 cs0] eqn:Ecs.
      - ok_inv H. cbn [flat_map] in L1, H1. split; [exact L1|split; [exact H1|exact I]].
      - change (mk_ computed i = Ok base) in H. unfold mk_ in H. ok_inv H. split; [exact A|split; [exact B|exact C]]. }
    (* a child dropped by <ol>/<dl> has no visible character *)
    assert (Hdrop : forall (sel : nat -> bool) k x,
              (K = KOl /\ sel 1%nat = true) \/ (K = KDl /\ sel 2%nat = true /\ sel 3%nat = true) ->
              Good true k (Some x) /\ kid_cond K k = true -> sel (ktag x) = false -> dom_vis k = []).
    { intros sel k x HKs [[_ [_ Hkf]] Hc] E. unfold kfK in Hkf.
      destruct HKs as [[-> S1]|[-> [S2 S3]]]; cbn [kid_cond] in Hc;
        destruct (node_kind k) as [[]|]; try (apply vis_empty_nil, Hc);
        rewrite Hkf in E; congruence. }
    destruct K; try discriminate Hleaf; try discriminate Hnt; cbn [base_of] in Hb; unfold mk_ in Hb;
      try (ok_inv Hb; cbn [lo_opt hi_opt nt_opt mtree rn_info no_table];
           rewrite ?Dl1, ?Dl2, ?De1, ?De2, ?Dg1, ?Dg2, ?Dk1, ?Dk2, ?Dc1, ?Dc2, ?Ds1, ?Ds2, ?app_nil_r;
           rewrite ?app_nil_r;
           cbn [app]; split; [first [exact L1|exact LS|exact L1s]|split; [exact H1|exact N1]]);
      try (refine (Hne _ _ _ _ Hb); cbn [mtree rn_info no_table];
           [first [exact L1|exact LS|exact L1s]|first [exact H1|exact H1']|exact N1]).
    - (* KA *)
      destruct (find_attr attrs s_href) as [href|].
      + destruct (existsb (fun c => negb (is_shallow_empty c)) cs) eqn:Ee.
        * ok_inv Hb. cbn [lo_opt hi_opt nt_opt mtree rn_info no_table]. rewrite !Dl1, !Dl2, !app_nil_r.
          cbn [app]. split; [exact L1|split; [exact H1|exact N1]].
        * ok_inv Hb. cbn [lo_opt hi_opt nt_opt]. rewrite (all_shallow_empty_leaf _ Ee) in EV.
          symmetry in EV. split; [rewrite (dml_kids_empty _ EV); constructor|split; [|exact I]].
          apply msub_nil_of_projr. rewrite (projr_flat_map dma dom_vis); [exact EV|].
          apply Forall_forall. intros k _. apply projr_dma.
      + ok_inv Hb. cbn [lo_opt hi_opt nt_opt mtree rn_info no_table].
        split; [exact L1|split; [exact H1|exact N1]].
    - (* KSup *)
      ok_inv Hb. cbn [lo_opt hi_opt nt_opt mtree rn_info no_table]. rewrite (Hsup eq_refl).
      rewrite !Ds1, !Ds2, !app_nil_r. cbn [app]. split; [exact L1|split; [exact H1|exact N1]].
    - (* KOl *)
      refine (Hne _ _ _ _ Hb); cbn [mtree rn_info no_table]; unfold filter_info.
      + rewrite flat_map_filter.
        apply (KR_msub_lo _ _ _ _) with (3 := HK).
        * intros k [_ [H _]]. apply msub_nil_r, H.
        * intros k x [Hg [H _]]. cbn [rn_info].
          destruct (match rn_info x with IListItem _ => true | _ => false end) eqn:E.
          -- apply msub_tight_strip; [apply tight_dml|exact H].
          -- rewrite (dml_empty k); [constructor|].
             apply (Hdrop (fun t => Nat.eqb t 1) k x); [left; split; reflexivity|exact Hg|].
             destruct x as [[] ?]; try reflexivity; discriminate E.
      + rewrite flat_map_filter.
        apply (KR_msub_hi _ _ _ _) with (3 := HK).
        * intros k [_ [_ [H _]]]. exact H.
        * intros k x [Hg [_ [H _]]]. cbn [rn_info].
          destruct (match rn_info x with IListItem _ => true | _ => false end) eqn:E; [exact H|].
          apply msub_nil_of_projr. rewrite projr_dma.
          apply (Hdrop (fun t => Nat.eqb t 1) k x); [left; split; reflexivity|exact Hg|].
          destruct x as [[] ?]; try reflexivity; discriminate E.
      + apply forallb_forall. intros x Hx. apply filter_In in Hx. rewrite forallb_forall in N1.
        apply N1, Hx.
    - (* KDl *)
      refine (Hne _ _ _ _ Hb); cbn [mtree rn_info no_table]; unfold filter_info.
      + rewrite flat_map_filter.
        apply (KR_msub_lo _ _ _ _) with (3 := HK).
        * intros k [_ [H _]]. apply msub_nil_r, H.
        * intros k x [Hg [H _]]. cbn [rn_info].
          destruct (match rn_info x with IDt _ | IDd _ => true | _ => false end) eqn:E; [exact H|].
          rewrite (dml_empty k); [constructor|].
          apply (Hdrop (fun t => Nat.eqb t 2 || Nat.eqb t 3) k x);
            [right; split; [reflexivity|split; reflexivity]|exact Hg|].
          destruct x as [[] ?]; try reflexivity; discriminate E.
      + rewrite flat_map_filter.
        apply (KR_msub_hi _ _ _ _) with (3 := HK).
        * intros k [_ [_ [H _]]]. exact H.
        * intros k x [Hg [_ [H _]]]. cbn [rn_info].
          destruct (match rn_info x with IDt _ | IDd _ => true | _ => false end) eqn:E; [exact H|].
          apply msub_nil_of_projr. rewrite projr_dma.
          apply (Hdrop (fun t => Nat.eqb t 2 || Nat.eqb t 3) k x);
            [right; split; [reflexivity|split; reflexivity]|exact Hg|].
          destruct x as [[] ?]; try reflexivity; discriminate E.
      + apply forallb_forall. intros x Hx. apply filter_In in Hx. rewrite forallb_forall in N1.
        apply N1, Hx.
  Qed.

  (* no HTML table element (FragStream does not cover tables) *)
  Fixpoint ntab (n : node) {struct n} : bool :=
    match n with
    | NElem html name attrs kids =>
      (if html then ntk (kind_of name) else true) && forallb ntab kids
    | _ => true
    end.
  Definition dom_ntab (doc : list node) : bool := forallb ntab doc.

  Variable sd : styledata.
  Variable udc : bool.
  Variable inl : list (text * text) -> res (list styledecl).
  Notation process := (process sd udc inl).
  Notation plain := (plain sd udc inl).

  Lemma kids_KR2 K me kids :
    Forall (fun k => forall p idx r, reg true k = true -> ntab k = true -> plain k p idx = true ->
                       process k p idx = Ok r -> MG k r) kids ->
    forallb (reg true) kids = true -> forallb ntab kids = true ->
    forallb (kid_cond K) kids = true ->
    forall i cs, blk_of (fun k i => plain k me i) kids i = true ->
    pk_of (fun k i => process k me i) kids i = Ok cs ->
    KR (fun k r => (Good true k r /\ kid_cond K k = true) /\ MG k r) kids cs.
  Proof.
    intros IH Hr Hn Hc i cs Hp H.
    assert (K1 : KR (fun k r => Good true k r /\ MG k r) kids cs).
    { apply (pk_KR (fun k i => process k me i) (fun k i => plain k me i) _ kids) with (2 := Hp) (3 := H).
      rewrite Forall_forall in *. rewrite forallb_forall in Hr, Hn.
      intros k Hk j r Hg Hpr. split.
      - apply (process_good sd udc inl k true me j r (Hr k Hk) Hg Hpr).
      - apply (IH k Hk me j r (Hr k Hk) (Hn k Hk) Hg Hpr). }
    pose proof (KR_forallb _ _ _ _ K1 Hc) as K2.
    apply (KR_impl _ _ _ _ (fun k r _ Hq => conj (conj (proj1 (proj1 Hq)) (proj2 Hq)) (proj2 (proj1 Hq))) K2).
  Qed.

  Lemma process_mg : forall n p idx r,
    reg true n = true -> ntab n = true -> plain n p idx = true -> process n p idx = Ok r -> MG n r.
  Proof.
    apply (node_ind' (fun n => forall p idx r,
             reg true n = true -> ntab n = true -> plain n p idx = true -> process n p idx = Ok r -> MG n r)).
    2:{ intros t p idx r _ _ _ H. cbn [Dom.process] in H. ok_inv H. unfold MG, rn_new.
        cbn [lo_opt hi_opt nt_opt mtree rn_info dml dma no_table].
        split; [apply msub_refl|split; [apply msub_refl|reflexivity]]. }
    2:{ intros p idx r _ _ _ H. cbn [Dom.process] in H. ok_inv H. split; [constructor|split; [constructor|exact I]]. }
    2:{ intros p idx r _ _ _ H. cbn [Dom.process] in H. ok_inv H. split; [constructor|split; [constructor|exact I]]. }
    intros html name attrs kids IH p idx r Hreg Hnt Hpl H.
    rewrite process_eq in H. unfold pbody in H.
    set (me := mkanc name attrs idx :: p) in *.
    cbn [DomRel.plain] in Hpl. fold me in Hpl. apply andb_true_iff in Hpl. destruct Hpl as [Hh Hpl].
    apply negb_true_iff in Hh. unfold hidden in Hh.
    bind_inv H inls Hinl. rewrite Hinl in Hh.
    set (computed := computed_style sd me inls) in *.
    assert (Hm : forall (X : Type) (a b : X),
               match ws_val (c_display (cs_core computed)) with Some true => a | _ => b end = b).
    { intros X a b. destruct (ws_val (c_display (cs_core computed))) as [[|]|];
        [discriminate Hh|reflexivity|reflexivity]. }
    rewrite Hm in H. clear Hm Hh.
    bind_inv H base Hbase.
    assert (Er : r = post computed (frag_name html name attrs) base).
    { unfold post, frag_name. destruct (fragment_of name (html && names [[97]] name) attrs) as [f|].
      - destruct base; ok_inv H; reflexivity.
      - ok_inv H. reflexivity. }
    clear H. subst r.
    cbn [ntab] in Hnt. apply andb_true_iff in Hnt. destruct Hnt as [Hntk Hntkids].
    (* the bodies of the two specification streams *)
    set (bl := if negb html then flat_map dml kids
               else match kind_of name with
                    | KImg => map inr (img_vis attrs) | KBr | KSkip => [] | _ => flat_map dml kids end).
    set (bh := if negb html then flat_map dma kids
               else match kind_of name with
                    | KImg => map inr (img_vis attrs) | KBr | KSkip => [] | _ => flat_map dma kids end).
    assert (Hbh : projr bh = dom_vis (NElem html name attrs kids)).
    { pose proof (projr_dma (NElem html name attrs kids)) as E. cbn [dma] in E. fold bh in E.
      rewrite projr_app, projr_mark in E. exact E. }
    assert (Hbase2 : msub bl (lo_opt base) /\ msub (hi_opt base) bh /\ nt_opt base).
    { subst bl bh. destruct html; cbn [negb andb] in *.
      - rewrite html_base_eq in Hbase. cbn [reg negb] in Hreg.
        destruct (kind_leaf (kind_of name)) eqn:El.
        + destruct (kind_of name); try discriminate El; cbn [base_of] in Hbase.
          * unfold img_vis. destruct (img_attrs attrs None None) as [[title|] [src|]];
              ok_inv Hbase; cbn [lo_opt hi_opt nt_opt map];
              try (split; [constructor|split; [constructor|exact I]]).
            cbn [mtree rn_info no_table]. unfold mchars. rewrite (dm_image d Hd).
            split; [apply msub_refl|split; [apply msub_refl|reflexivity]].
          * ok_inv Hbase. cbn [lo_opt hi_opt nt_opt mtree rn_info no_table].
            split; [constructor|split; [constructor|reflexivity]].
          * ok_inv Hbase. split; [constructor|split; [constructor|exact I]].
        + apply andb_true_iff in Hreg. destruct Hreg as [Hreg Hcond].
          apply andb_true_iff in Hreg. destruct Hreg as [Hal Hrk].
          apply andb_true_iff in Hpl. destruct Hpl as [Hpk Hsup].
          bind_inv Hbase cs Hcs.
          assert (Es : kid_strict (kind_of name) = true).
          { destruct (kind_of name); try reflexivity; discriminate Hntk. }
          rewrite Es in Hrk.
          pose proof (kids_KR2 (kind_of name) me kids IH Hrk Hntkids Hcond _ _ Hpk Hcs) as HK.
          match goal with
          | |- msub ?a _ /\ msub _ ?b /\ _ =>
            assert (Ebl : a = flat_map dml kids)
              by (destruct (kind_of name); try discriminate El; reflexivity);
            assert (Ebh : b = flat_map dma kids)
              by (destruct (kind_of name); try discriminate El; reflexivity);
            rewrite Ebl, Ebh
          end.
          apply (base_mg (kind_of name) attrs computed kids cs base El Hntk HK); [|exact Hbase].
          intros Ek. rewrite Ek in Hsup. rewrite Hcs in Hsup.
          destruct (sup_digits cs); [discriminate Hsup|reflexivity].
      - cbn [reg negb] in Hreg. apply andb_true_iff in Hpl. destruct Hpl as [Hpk _].
        bind_inv Hbase cs Hcs.
        assert (Hc : forallb (kid_cond KOther) kids = true).
        { apply forallb_forall. intros k _. reflexivity. }
        pose proof (kids_KR2 KOther me kids IH Hreg Hntkids Hc _ _ Hpk Hcs) as HK.
        apply (base_mg KOther attrs computed kids cs base eq_refl eq_refl HK); [discriminate|].
        cbn [base_of]. unfold noempty_, mk_. destruct cs; exact Hbase. }
    destruct Hbase2 as (B1 & B2 & B3).
    pose proof (post_mg computed (frag_name html name attrs) base bl bh _ B1 B2 B3 Hbh) as (P1 & P2 & P3).
    split; [|split; [exact P2|exact P3]].
    cbn [dml]. fold bl. unfold vis_empty.
    destruct (dom_vis (NElem html name attrs kids)); exact P1.
  Qed.

  Theorem dom_tree_markers doc tree :
    dom_regular doc = true -> dom_ntab doc = true -> dom_plain sd udc inl doc = true ->
    dom_to_render_tree sd udc inl doc = Ok tree ->
    no_table tree = true /\
    msub (dom_live doc) (strip (mstream_min d tree)) /\ msub (mstream_tree d tree) (dom_all doc).
  Proof.
    intros Hr Hn Hp H. unfold dom_to_render_tree in H. bind_inv H cs Hcs. ok_inv H.
    rewrite process_kids_eq in Hcs.
    assert (HK : KR MG doc cs).
    { apply (pk_KR (fun k i => process k [] i) (fun k i => plain k [] i) MG doc) with (2 := Hp) (3 := Hcs).
      apply Forall_forall. intros k Hk i r Hg Hpr. unfold dom_regular in Hr. unfold dom_ntab in Hn.
      rewrite forallb_forall in Hr, Hn. apply (process_mg k [] i r (Hr k Hk) (Hn k Hk) Hg Hpr). }
    unfold mstream_min, mstream_tree, rn_new. cbn [mtree rn_info no_table]. split; [|split].
    - apply forallb_forall. apply Forall_forall.
      apply (KR_Forall _ (fun x => no_table x = true) _ _) with (2 := HK). intros k x (_ & _ & E). exact E.
    - apply msub_tight_strip.
      + apply tight_flat_map. intros k _. apply tight_dml.
      + apply (KR_msub_lo _ _ _ _) with (3 := HK).
        * intros k [E _]. apply msub_nil_r, E.
        * intros k x [E _]. exact E.
    - apply (KR_msub_hi _ _ _ _) with (3 := HK).
      + intros k (_ & E & _). exact E.
      + intros k x (_ & E & _). exact E.
  Qed.
End MT.

(* the specification streams in words: a live element's marker stands directly in front of the
   element's own visible characters (its first visible character follows, possibly after
   markers of nested elements) *)
Lemma dml_marker html name attrs kids f :
  frag_name html name attrs = Some f -> dom_vis (NElem html name attrs kids) <> [] ->
  exists body, dml (NElem html name attrs kids) = inl f :: body /\
               projr body = dom_vis (NElem html name attrs kids).
Proof.
  intros Ef Hv. pose proof (projr_dml (NElem html name attrs kids)) as Hp. cbn [dml] in *.
  unfold vis_empty in *. destruct (dom_vis (NElem html name attrs kids)) eqn:E; [contradiction|].
  rewrite Ef in *. cbn [mark app] in *. eexists. split; [reflexivity|]. exact Hp.
Qed.
Lemma projr_dom_live doc : projr (dom_live doc) = dom_visible doc.
Proof. apply projr_flat_map. apply Forall_forall. intros k _. apply projr_dml. Qed.
Lemma projr_dom_all doc : projr (dom_all doc) = dom_visible doc.
Proof. apply projr_flat_map. apply Forall_forall. intros k _. apply projr_dma. Qed.

Section Routes2.
  Variable inline_styles : list (text * text) -> res (list styledecl).
  Variable doc_rules : list node -> res (list ruleset).

  (* PART 2, render tree: between the live markers and all markers of the document *)
  Theorem c14_dom_tree : forall (c : config) (doc : list node) (tree : rnode),
    deco_made (c_deco c) ->
    dom_regular doc = true -> dom_ntab doc = true -> doc_plain inline_styles doc_rules c doc = true ->
    to_render_tree inline_styles doc_rules c doc = Ok tree ->
    no_table tree = true /\
    msub (dom_live doc) (strip (mstream_min (c_deco c) tree)) /\
    msub (mstream_tree (c_deco c) tree) (dom_all doc).
  Proof.
    intros c doc tree Hd Hr Hn Hp H. unfold to_render_tree in H. bind_inv H sd Hsd.
    unfold doc_plain in Hp. rewrite Hsd in Hp.
    apply (dom_tree_markers (c_deco c) Hd sd (c_use_doc_css c) inline_styles doc tree Hr Hn Hp H).
  Qed.

  (* PART 2 (C14), end to end: the annotated output of lines_from_read lies between the
     document's live markers and all its markers *)
  Theorem c14_dom_lines : forall (c : config) (doc : list node) (width : N) (tls : list tline),
    deco_made (c_deco c) -> c_overflow c = false ->
    dom_regular doc = true -> dom_ntab doc = true -> doc_plain inline_styles doc_rules c doc = true ->
    lines_from_read inline_styles doc_rules c doc width = Ok tls ->
    btw (dom_live doc) (flat_map mline tls) (dom_all doc).
  Proof.
    intros c doc width tls Hd Ho Hr Hn Hp H.
    destruct (to_render_tree inline_styles doc_rules c doc) as [tree| | |] eqn:Et;
      try (unfold lines_from_read in H; rewrite Et in H; discriminate H).
    destruct (c14_dom_tree c doc tree Hd Hr Hn Hp Et) as (Hnt & Hlo & Hhi).
    destruct (c14_lines_from_read _ _ _ _ _ _ _ (dm_prefix _ Hd) Ho Et Hnt H) as [B1 B2].
    split; eapply msub_trans; eassumption.
  Qed.

  (* ... in the property's words.  O = the stream of the annotated output lines.
     (1) the visible document characters of O are dom_visible doc, in order;
     (2) every marker of O is the marker of an element of the document (dom_all), with exactly
         the document's visible characters before it and behind it: never invented or moved;
     (3) the marker of every element that has a fragment name and at least one visible
         character in its subtree (dom_live) is in O, with exactly the same visible characters
         before it and behind it - so directly before the element's first visible character
         (dml_marker) and after every visible character that precedes the element;
     (4) if the fragment names of the document are distinct, no marker of O is duplicated. *)
  Corollary c14_dom_markers : forall (c : config) (doc : list node) (width : N) (tls : list tline),
    deco_made (c_deco c) -> c_overflow c = false ->
    dom_regular doc = true -> dom_ntab doc = true -> doc_plain inline_styles doc_rules c doc = true ->
    lines_from_read inline_styles doc_rules c doc width = Ok tls ->
    let O := flat_map mline tls in
    projr O = dom_visible doc /\
    (forall a name b, O = a ++ inl name :: b ->
       exists a' b', dom_all doc = a' ++ inl name :: b' /\ projr a' = projr a /\ projr b' = projr b) /\
    (forall a name b, dom_live doc = a ++ inl name :: b ->
       exists a' b', O = a' ++ inl name :: b' /\ projr a' = projr a /\ projr b' = projr b) /\
    (NoDup (projl (dom_all doc)) -> NoDup (projl O)).
  Proof.
    intros c doc width tls Hd Ho Hr Hn Hp H O.
    destruct (c14_dom_lines c doc width tls Hd Ho Hr Hn Hp H) as [B1 B2]. fold O in B1, B2.
    split; [rewrite (msub_projr _ _ B2); apply projr_dom_all|]. split; [|split].
    - intros a name b E. destruct (msub_split _ _ B2 a (inl name) b E) as (a' & b' & E' & Ha & Hb).
      exists a', b'. split; [exact E'|]. split; symmetry; apply msub_projr; assumption.
    - intros a name b E. destruct (msub_split _ _ B1 a (inl name) b E) as (a' & b' & E' & Ha & Hb).
      exists a', b'. split; [exact E'|]. split; symmetry; apply msub_projr; assumption.
    - apply msub_projl_nodup, B2.
  Qed.

  (* NEW (since flush_wrapping keeps the markers left on the unfinished line of the wrapping
     block, FragStream.c14_lines_from_read_any_overflow): the same two statements WITHOUT the
     hypothesis c_overflow c = false *)
  Theorem c14_dom_lines_any_overflow :
    forall (c : config) (doc : list node) (width : N) (tls : list tline),
    deco_made (c_deco c) ->
    dom_regular doc = true -> dom_ntab doc = true -> doc_plain inline_styles doc_rules c doc = true ->
    lines_from_read inline_styles doc_rules c doc width = Ok tls ->
    btw (dom_live doc) (flat_map mline tls) (dom_all doc).
  Proof.
    intros c doc width tls Hd Hr Hn Hp H.
    destruct (to_render_tree inline_styles doc_rules c doc) as [tree| | |] eqn:Et;
      try (unfold lines_from_read in H; rewrite Et in H; discriminate H).
    destruct (c14_dom_tree c doc tree Hd Hr Hn Hp Et) as (Hnt & Hlo & Hhi).
    destruct (c14_lines_from_read_any_overflow _ _ _ _ _ _ _ (dm_prefix _ Hd) Et Hnt H) as [B1 B2].
    split; eapply msub_trans; eassumption.
  Qed.

  Corollary c14_dom_markers_any_overflow :
    forall (c : config) (doc : list node) (width : N) (tls : list tline),
    deco_made (c_deco c) ->
    dom_regular doc = true -> dom_ntab doc = true -> doc_plain inline_styles doc_rules c doc = true ->
    lines_from_read inline_styles doc_rules c doc width = Ok tls ->
    let O := flat_map mline tls in
    projr O = dom_visible doc /\
    (forall a name b, O = a ++ inl name :: b ->
       exists a' b', dom_all doc = a' ++ inl name :: b' /\ projr a' = projr a /\ projr b' = projr b) /\
    (forall a name b, dom_live doc = a ++ inl name :: b ->
       exists a' b', O = a' ++ inl name :: b' /\ projr a' = projr a /\ projr b' = projr b) /\
    (NoDup (projl (dom_all doc)) -> NoDup (projl O)).
  Proof.
    intros c doc width tls Hd Hr Hn Hp H O.
    destruct (markers_of_btw _ _ _ (c14_dom_lines_any_overflow c doc width tls Hd Hr Hn Hp H))
      as (A & B & C & D). fold O in A, B, C, D.
    split; [rewrite A; apply projr_dom_all|]. split; [exact B|]. split; [exact C|exact D].
  Qed.
End Routes2.
Print Assumptions c14_dom_tree.
Print Assumptions c14_dom_lines.
Print Assumptions c14_dom_markers.
Print Assumptions c14_dom_lines_any_overflow.
Print Assumptions c14_dom_markers_any_overflow.

(* ================================================================== *)
(* 4. PART 3 (C13) -- whitespace runs in the text nodes of the DOM      *)
(* ================================================================== *)

(* SimRel.normalise applied to every text node *)
Fixpoint dnorm (n : node) {struct n} : node :=
  match n with
  | NElem html name attrs kids => NElem html name attrs (map dnorm kids)
  | NText t => NText (normalise t)
  | NComment => NComment
  | NOther => NOther
  end.
(* two documents that differ only in the whitespace characters / run lengths of text nodes *)
Definition dom_ws_equiv (doc1 doc2 : list node) : Prop := map dnorm doc1 = map dnorm doc2.

Definition rmap {A B} (f : A -> B) (r : res A) : res B :=
  match r with Ok a => Ok (f a) | TooNarrow => TooNarrow | Panic s => Panic s | OutOfFuel => OutOfFuel end.

Notation NT := norm_tree.

Lemma norm_loop_idem : forall t g, norm_loop g (norm_loop g t) = norm_loop g t.
Proof.
  induction t as [|c t IH]; intros g; [reflexivity|]. cbn [norm_loop].
  destruct (ws c) eqn:Ec.
  - destruct g; [apply IH|]. cbn [norm_loop]. change (ws space) with true. cbn iota.
    rewrite IH. reflexivity.
  - cbn [norm_loop]. rewrite Ec. rewrite IH. reflexivity.
Qed.
Lemma normalise_idem t : normalise (normalise t) = normalise t.
Proof. apply norm_loop_idem. Qed.

(* trim t is empty exactly when t is all whitespace: normalisation never turns a
   whitespace-only text into an empty one or vice versa, and that is all that matters *)
Lemma trim_nil_iff t : (match trim t with [] => true | _ => false end) = all_ws t.
Proof.
  destruct (all_ws t) eqn:E.
  - assert (D : drop_ws t = []).
    { clear -E. induction t as [|c t IH]; [reflexivity|]. cbn [all_ws forallb] in E.
      apply andb_true_iff in E. destruct E as [Hc Ht]. cbn [drop_ws]. rewrite Hc. apply IH, Ht. }
    unfold trim. rewrite D. reflexivity.
  - destruct (trim t) eqn:Et; [|reflexivity]. rewrite (trim_nil_all_ws _ Et) in E. discriminate.
Qed.

Lemma shallow_empty_norm x : is_shallow_empty (NT x) = is_shallow_empty x.
Proof.
  destruct x as [i st]. unfold is_shallow_empty.
  destruct i; cbn [norm_tree rn_info]; try reflexivity; try (destruct cs; reflexivity).
  rewrite !trim_nil_iff. apply all_ws_norm.
Qed.

Lemma NT_ins b a v : map NT (ins b a v) = ins b (NT a) (map NT v).
Proof. unfold ins. destruct b; [reflexivity|]. rewrite map_app. reflexivity. Qed.

Lemma insert_child_norm a n b : NT (insert_child a n b) = insert_child (NT a) (NT n) b.
Proof.
  destruct n as [i st]. destruct i;
    try (cbn [insert_child norm_tree]; rewrite ?NT_ins; reflexivity);
    try (destruct b; reflexivity).
  - (* ITable *) destruct rows as [|[cells s] rows]; [reflexivity|].
    destruct cells as [|[k cs s'] cells];
      cbn [insert_child ins_first_row ins_first_cell norm_tree map]; rewrite ?NT_ins; reflexivity.
  - (* ITableBody *) destruct rows as [|[cells s] rows]; [reflexivity|].
    destruct cells as [|[k cs s'] cells];
      cbn [insert_child ins_first_row ins_first_cell norm_tree map]; rewrite ?NT_ins; reflexivity.
  - (* ITableRow *) destruct r as [cells s].
    destruct cells as [|[k cs s'] cells];
      cbn [insert_child ins_first_cell norm_tree map]; rewrite ?NT_ins; reflexivity.
  - (* ITableCell *) destruct c as [k cs s]. cbn [insert_child norm_tree]. rewrite NT_ins. reflexivity.
Qed.

Lemma insert_child_congr a n1 n2 b : NT n1 = NT n2 -> NT (insert_child a n1 b) = NT (insert_child a n2 b).
Proof. intros H. rewrite !insert_child_norm, H. reflexivity. Qed.

Lemma wrap_pseudo_congr computed n1 n2 : NT n1 = NT n2 -> NT (wrap_pseudo computed n1) = NT (wrap_pseudo computed n2).
Proof.
  intros H. unfold wrap_pseudo.
  assert (E1 : NT match cs_before computed with
                  | Some c => match ws_val (c_content c) with
                              | Some t => insert_child (rn_new (IText (relabel L_deco t))) n1 true
                              | None => n1
                              end
                  | None => n1
                  end =
               NT match cs_before computed with
                  | Some c => match ws_val (c_content c) with
                              | Some t => insert_child (rn_new (IText (relabel L_deco t))) n2 true
                              | None => n2
                              end
                  | None => n2
                  end).
  { destruct (cs_before computed) as [c|]; [|exact H].
    destruct (ws_val (c_content c)); [|exact H]. apply insert_child_congr, H. }
  destruct (cs_after computed) as [c|]; [|exact E1].
  destruct (ws_val (c_content c)); [|exact E1]. apply insert_child_congr, E1.
Qed.

Lemma post_congr computed frag b1 b2 :
  option_map NT b1 = option_map NT b2 ->
  option_map NT (post computed frag b1) = option_map NT (post computed frag b2).
Proof.
  intros H. unfold post. destruct b1 as [x1|], b2 as [x2|]; try discriminate H; [|reflexivity].
  cbn [option_map] in H. injection H as H.
  destruct frag as [f|]; cbn [option_map]; f_equal.
  - apply insert_child_congr, wrap_pseudo_congr, H.
  - apply wrap_pseudo_congr, H.
Qed.

(* ---------- the table constructors look at colspans only ---------- *)
Lemma norm_row_cells r : map cell_colspan (row_cells (norm_row r)) = map cell_colspan (row_cells r).
Proof.
  destruct r as [cells s]. cbn [norm_row row_cells]. rewrite map_map. apply map_ext.
  intros [k cs st]. reflexivity.
Qed.

Lemma row_count_norm : forall cells hz n,
  row_count (map norm_cell cells) hz n = row_count cells hz n.
Proof.
  induction cells as [|[k cs s] cells IH]; intros hz n; [reflexivity|]. cbn [map row_count norm_cell cell_colspan].
  destruct (uadd 30 n (N.max k 1)); cbn [bind]; try reflexivity. apply IH.
Qed.
Lemma rows_counts_norm : forall rows, rows_counts (map norm_row rows) = rows_counts rows.
Proof.
  induction rows as [|[cells s] rows IH]; [reflexivity|]. cbn [map rows_counts norm_row row_cells].
  rewrite row_count_norm, IH. reflexivity.
Qed.
Lemma fix_zero_norm maxc r cnt :
  fix_zero_colspan maxc (norm_row r) cnt = norm_row (fix_zero_colspan maxc r cnt).
Proof.
  unfold fix_zero_colspan. destruct (fst cnt); [|reflexivity]. destruct r as [cells s].
  cbn [norm_row]. f_equal. rewrite !map_map. apply map_ext. intros [k cs st]. cbn [norm_cell].
  destruct (k =? 0); reflexivity.
Qed.
Lemma map2_fix_norm maxc : forall rows counts,
  map2 (fix_zero_colspan maxc) (map norm_row rows) counts =
  map norm_row (map2 (fix_zero_colspan maxc) rows counts).
Proof.
  induction rows as [|r rows IH]; intros counts; [reflexivity|]. destruct counts as [|c counts]; [reflexivity|].
  cbn [map map2]. rewrite fix_zero_norm, IH. reflexivity.
Qed.
Lemma tbody_rows_norm rows :
  tbody_rows (map norm_row rows) = rmap (map norm_row) (tbody_rows rows).
Proof.
  unfold tbody_rows. rewrite rows_counts_norm. destruct (rows_counts rows) as [counts| | |]; try reflexivity.
  cbn [bind rmap]. rewrite map2_fix_norm. reflexivity.
Qed.

Lemma row_positions_norm : forall cells col,
  row_positions (map norm_cell cells) col = row_positions cells col.
Proof.
  induction cells as [|[k cs s] cells IH]; intros col; [reflexivity|].
  cbn [map row_positions norm_cell cell_colspan].
  destruct (uadd 30 col k); cbn [bind]; try reflexivity. rewrite IH. reflexivity.
Qed.
Lemma all_positions_norm : forall rows, all_positions (map norm_row rows) = all_positions rows.
Proof.
  induction rows as [|[cells s] rows IH]; [reflexivity|]. cbn [map all_positions norm_row row_cells].
  rewrite row_positions_norm, IH. reflexivity.
Qed.
Lemma remap_cells_norm set : forall cells pos mapped,
  remap_cells set (map norm_cell cells) pos mapped = rmap (map norm_cell) (remap_cells set cells pos mapped).
Proof.
  induction cells as [|[k cs s] cells IH]; intros pos mapped; [reflexivity|].
  cbn [map remap_cells norm_cell].
  destruct (uadd 30 pos (N.max k 1)) as [np| | |]; cbn [bind rmap]; try reflexivity.
  destruct (index_of np set 0) as [nm|]; [|reflexivity].
  destruct (usub 30 nm mapped) as [c| | |]; cbn [bind rmap]; try reflexivity.
  rewrite IH. destruct (remap_cells set cells np nm); reflexivity.
Qed.
Lemma remap_rows_norm set : forall rows,
  remap_rows set (map norm_row rows) = rmap (map norm_row) (remap_rows set rows).
Proof.
  induction rows as [|[cells s] rows IH]; [reflexivity|]. cbn [map remap_rows norm_row].
  rewrite remap_cells_norm. destruct (remap_cells set cells 0 0) as [cells'| | |]; cbn [bind rmap]; try reflexivity.
  rewrite IH. destruct (remap_rows set rows); reflexivity.
Qed.
Lemma row_num_cells_norm r : row_num_cells (norm_row r) = row_num_cells r.
Proof.
  unfold row_num_cells. f_equal. destruct r as [cells s]. cbn [norm_row row_cells]. rewrite map_map.
  apply map_ext. intros [k cs st]. reflexivity.
Qed.
Lemma render_table_new_norm rows st :
  rmap (fun t => Some (NT (RN t st))) (render_table_new rows) =
  rmap (fun t => Some (RN t st)) (render_table_new (map norm_row rows)).
Proof.
  unfold render_table_new. rewrite all_positions_norm.
  destruct (all_positions rows) as [ps| | |]; cbn [bind rmap]; try reflexivity.
  rewrite remap_rows_norm. destruct (remap_rows (sorted_set (0 :: ps)) rows) as [rows'| | |]; cbn [bind rmap]; try reflexivity.
  assert (E : maxN (map row_num_cells (map norm_row rows')) = maxN (map row_num_cells rows')).
  { f_equal. rewrite map_map. apply map_ext. intros r. apply row_num_cells_norm. }
  rewrite E. reflexivity.
Qed.

Lemma flat_map_map {A B C} (f : A -> B) (g : B -> list C) l :
  flat_map g (map f l) = flat_map (fun x => g (f x)) l.
Proof. induction l as [|a l IH]; [reflexivity|]. cbn [map flat_map]. rewrite IH. reflexivity. Qed.
Lemma map_flat_map {A B C} (f : A -> list B) (g : B -> C) l :
  map g (flat_map f l) = flat_map (fun x => map g (f x)) l.
Proof. induction l as [|a l IH]; [reflexivity|]. cbn [flat_map]. rewrite map_app, IH. reflexivity. Qed.

Lemma filter_info_norm (p : rinfo -> bool) cs :
  (forall x, p (rn_info (NT x)) = p (rn_info x)) ->
  filter_info p (map NT cs) = map NT (filter_info p cs).
Proof.
  intros H. unfold filter_info. induction cs as [|c cs IH]; [reflexivity|]. cbn [map filter].
  rewrite H. destruct (p (rn_info c)); cbn [map]; rewrite IH; reflexivity.
Qed.

Lemma existsb_norm cs :
  existsb (fun c => negb (is_shallow_empty c)) (map NT cs) =
  existsb (fun c => negb (is_shallow_empty c)) cs.
Proof.
  induction cs as [|c cs IH]; [reflexivity|]. cbn [map existsb]. rewrite shallow_empty_norm, IH. reflexivity.
Qed.

(* the element constructors commute with the normalisation of the children *)
Lemma base_of_norm K attrs computed cs :
  rmap (option_map NT) (base_of K attrs computed cs) = base_of K attrs computed (map NT cs).
Proof.
  assert (Hne : forall i i', NT (RN i computed) = RN i' computed ->
            rmap (option_map NT) (noempty_ computed cs i) = noempty_ computed (map NT cs) i').
  { intros i i' E. unfold noempty_, mk_. destruct cs as [|c0 cs0]; [reflexivity|].
    cbn [map rmap option_map]. rewrite E. reflexivity. }
  destruct K; cbn [base_of]; unfold mk_; try reflexivity; try (apply Hne; reflexivity).
  - (* KImg *) destruct (img_attrs attrs None None) as [[title|] [src|]]; reflexivity.
  - (* KA *) destruct (find_attr attrs s_href) as [href|]; [|reflexivity].
    rewrite existsb_norm. destruct (existsb (fun c => negb (is_shallow_empty c)) cs); reflexivity.
  - (* KTable *)
    rewrite flat_map_map.
    assert (E : flat_map (fun x => match rn_info (NT x) with ITableBody b => b | _ => [] end) cs =
                map norm_row (flat_map (fun n => match rn_info n with ITableBody b => b | _ => [] end) cs)).
    { rewrite map_flat_map. apply flat_map_ext. intros [i st]. destruct i; reflexivity. }
    rewrite E. set (rows := flat_map (fun n => match rn_info n with ITableBody b => b | _ => [] end) cs).
    destruct rows as [|r0 rows0] eqn:Er; [reflexivity|]. rewrite <- Er.
    assert (Em : exists r1 rows1, map norm_row rows = r1 :: rows1).
    { rewrite Er. cbn [map]. eauto. }
    destruct Em as (r1 & rows1 & Em). rewrite Em, <- Em.
    pose proof (render_table_new_norm rows computed) as Hn.
    destruct (render_table_new rows) as [t| | |]; destruct (render_table_new (map norm_row rows)) as [t'| | |];
      cbn [rmap bind option_map] in *; try discriminate Hn; try reflexivity; exact Hn.
  - (* KSection *)
    destruct cs as [|c0 cs0] eqn:Ecs; [reflexivity|]. rewrite <- Ecs.
    assert (Em : exists c1 cs1, map NT cs = c1 :: cs1) by (rewrite Ecs; cbn [map]; eauto).
    destruct Em as (c1 & cs1 & Em). rewrite Em, <- Em. clear Em.
    rewrite flat_map_map.
    assert (E : flat_map (fun x => match rn_info (NT x) with ITableRow r => [r] | _ => [] end) cs =
                map norm_row (flat_map (fun n => match rn_info n with ITableRow r => [r] | _ => [] end) cs)).
    { rewrite map_flat_map. apply flat_map_ext. intros [i st]. destruct i; reflexivity. }
    rewrite E, tbody_rows_norm.
    destruct (tbody_rows (flat_map (fun n => match rn_info n with ITableRow r => [r] | _ => [] end) cs));
      reflexivity.
  - (* KTr *)
    rewrite flat_map_map.
    assert (E : flat_map (fun x => match rn_info (NT x) with ITableCell c => [c] | _ => [] end) cs =
                map norm_cell (flat_map (fun n => match rn_info n with ITableCell c => [c] | _ => [] end) cs)).
    { rewrite map_flat_map. apply flat_map_ext. intros [i st]. destruct i; reflexivity. }
    rewrite E. reflexivity.
  - (* KOl *)
    rewrite filter_info_norm by (intros [i st]; destruct i; reflexivity). apply Hne. reflexivity.
  - (* KDl *)
    rewrite filter_info_norm by (intros [i st]; destruct i; reflexivity). apply Hne. reflexivity.
Qed.

Lemma base_of_congr K attrs computed cs1 cs2 :
  map NT cs1 = map NT cs2 ->
  rmap (option_map NT) (base_of K attrs computed cs1) = rmap (option_map NT) (base_of K attrs computed cs2).
Proof. intros H. rewrite !base_of_norm, H. reflexivity. Qed.

(* ---------- the body of `process` and the child loop ---------- *)
(* `process` hides exactly on a display cell `Some true`; the other two cases share one body *)
Lemma disp_match_congr {X Y : Type} (f : X -> Y) (d : option bool) (a x1 x2 : X) :
  f x1 = f x2 ->
  f (match d with Some true => a | _ => x1 end) = f (match d with Some true => a | _ => x2 end).
Proof. intros H. destruct d as [[|]|]; [reflexivity|exact H|exact H]. Qed.
Lemma disp_match_inv {X : Type} (d : option bool) (a b y : X) :
  match d with Some true => a | _ => b end = y -> a <> y -> b = y.
Proof. intros H Ha. destruct d as [[|]|]; [contradiction|exact H|exact H]. Qed.

Lemma pbody_congr sd ri html name attrs me rk1 rk2 :
  rmap (map NT) rk1 = rmap (map NT) rk2 ->
  rmap (option_map NT) (pbody sd ri html name attrs me rk1) =
  rmap (option_map NT) (pbody sd ri html name attrs me rk2).
Proof.
  intros H. unfold pbody. destruct ri as [inls| | |]; cbn [bind]; try reflexivity.
  set (computed := computed_style sd me inls).
  apply disp_match_congr.
  fold (frag_name html name attrs).
  set (b1 := if negb html then _ else _).
  match goal with |- _ = rmap _ (do base <- ?b; _) => set (b2 := b) end.
  assert (Eb : rmap (option_map NT) b1 = rmap (option_map NT) b2).
  { subst b1 b2. destruct html; cbn [negb].
    - rewrite !html_base_eq. destruct (kind_leaf (kind_of name)); [reflexivity|].
      destruct rk1 as [cs1| | |], rk2 as [cs2| | |]; cbn [rmap bind] in *; try discriminate H; try reflexivity;
        [|injection H as H; rewrite H; reflexivity].
      injection H as H. apply base_of_congr, H.
    - destruct rk1 as [cs1| | |], rk2 as [cs2| | |]; cbn [rmap bind] in *; try discriminate H; try reflexivity;
        [|injection H as H; rewrite H; reflexivity].
      injection H as H.
      change (rmap (option_map NT) (base_of KOther attrs computed cs1) =
              rmap (option_map NT) (base_of KOther attrs computed cs2)).
      apply base_of_congr, H. }
  destruct b1 as [o1| | |], b2 as [o2| | |]; cbn [rmap bind] in *; try discriminate Eb; try reflexivity;
    [|injection Eb as Eb; rewrite Eb; reflexivity].
  injection Eb as Eb.
  pose proof (post_congr computed (frag_name html name attrs) o1 o2 Eb) as P. unfold post in P.
  destruct (frag_name html name attrs) as [f|].
  - destruct o1, o2; cbn [rmap option_map] in *; try discriminate Eb; f_equal; exact P.
  - cbn [rmap]. f_equal. exact P.
Qed.

Lemma is_elem_dnorm k : is_elem (dnorm k) = is_elem k.
Proof. destruct k; reflexivity. Qed.

Lemma pk_congr (proc1 proc2 : node -> Z -> res (option rnode)) : forall kids,
  Forall (fun k => forall i, rmap (option_map NT) (proc1 k i) = rmap (option_map NT) (proc2 (dnorm k) i)) kids ->
  forall i, rmap (map NT) (pk_of proc1 kids i) = rmap (map NT) (pk_of proc2 (map dnorm kids) i).
Proof.
  induction kids as [|k kids IH]; intros HF i; [reflexivity|].
  inversion HF as [|? ? Hk Hkids]; subst. cbn [map pk_of].
  change (match dnorm k with NElem _ _ _ _ => true | _ => false end) with (is_elem (dnorm k)).
  change (match k with NElem _ _ _ _ => true | _ => false end) with (is_elem k).
  rewrite is_elem_dnorm. specialize (Hk i). specialize (IH Hkids (if is_elem k then (i + 1)%Z else i)).
  destruct (proc1 k i) as [r1| | |], (proc2 (dnorm k) i) as [r2| | |]; cbn [rmap bind] in *;
    try discriminate Hk; try reflexivity; [|injection Hk as Hk; rewrite Hk; reflexivity].
  injection Hk as Hk.
  destruct (pk_of proc1 kids _) as [l1| | |], (pk_of proc2 (map dnorm kids) _) as [l2| | |];
    cbn [rmap bind] in *; try discriminate IH; try reflexivity; [|injection IH as IH; rewrite IH; reflexivity].
  injection IH as IH. f_equal.
  destruct r1, r2; cbn [option_map] in Hk; try discriminate Hk; cbn [map]; [|exact IH].
  injection Hk as Hk. rewrite Hk, IH. reflexivity.
Qed.

Section Part3.
  Variable sd : styledata.
  Variable udc : bool.
  Variable inl : list (text * text) -> res (list styledecl).
  Notation process := (process sd udc inl).

  (* `process` on a document and on its whitespace-normalised form: the same outcome (the
     same failure, or both nothing, or two nodes with the same normal form) *)
  Lemma process_dnorm : forall n p idx,
    rmap (option_map NT) (process n p idx) = rmap (option_map NT) (process (dnorm n) p idx).
  Proof.
    apply (node_ind' (fun n => forall p idx,
             rmap (option_map NT) (process n p idx) = rmap (option_map NT) (process (dnorm n) p idx)));
      try reflexivity.
    2:{ intros t p idx. cbn [dnorm Dom.process rmap option_map]. unfold rn_new. cbn [norm_tree].
        rewrite normalise_idem. reflexivity. }
    intros html name attrs kids IH p idx. cbn [dnorm]. rewrite !process_eq.
    apply pbody_congr. apply pk_congr. rewrite Forall_forall in *. intros k Hk i. apply IH, Hk.
  Qed.

  Lemma dom_tree_dnorm doc :
    rmap NT (dom_to_render_tree sd udc inl doc) = rmap NT (dom_to_render_tree sd udc inl (map dnorm doc)).
  Proof.
    unfold dom_to_render_tree. rewrite !process_kids_eq.
    pose proof (pk_congr (fun k i => process k [] i) (fun k i => process k [] i) doc) as H.
    specialize (H ltac:(apply Forall_forall; intros k _ i; apply process_dnorm) 1%Z).
    destruct (pk_of _ doc 1%Z) as [l1| | |], (pk_of _ (map dnorm doc) 1%Z) as [l2| | |];
      cbn [rmap bind] in *; try discriminate H; try reflexivity; [|injection H as H; rewrite H; reflexivity].
    injection H as H. unfold rn_new. cbn [norm_tree]. rewrite H. reflexivity.
  Qed.

  (* PART 3 at a fixed style sheet: the same outcome kind, and ws_equiv trees *)
  Theorem dom_tree_ws_equiv doc1 doc2 :
    dom_ws_equiv doc1 doc2 ->
    rmap NT (dom_to_render_tree sd udc inl doc1) = rmap NT (dom_to_render_tree sd udc inl doc2).
  Proof. intros E. rewrite (dom_tree_dnorm doc1), (dom_tree_dnorm doc2), E. reflexivity. Qed.
End Part3.

Section Routes3.
  Variable inline_styles : list (text * text) -> res (list styledecl).
  Variable doc_rules : list node -> res (list ruleset).

  (* PART 3 (C13, DOM level).  Hypothesis on the style sheet: the two documents are processed
     with the same style data - trivially so when document CSS is off (c13_dom_nodoccss); with
     document CSS the text of <style> elements is CSS source, and its whitespace is not
     covered here. *)
  Theorem c13_dom_trees : forall (c : config) (doc1 doc2 : list node),
    dom_ws_equiv doc1 doc2 ->
    effective_sd doc_rules c doc1 = effective_sd doc_rules c doc2 ->
    rmap norm_tree (to_render_tree inline_styles doc_rules c doc1) =
    rmap norm_tree (to_render_tree inline_styles doc_rules c doc2).
  Proof.
    intros c doc1 doc2 E Hsd. unfold to_render_tree. rewrite Hsd.
    destruct (effective_sd doc_rules c doc2) as [sd| | |]; try reflexivity. cbn [bind].
    apply dom_tree_ws_equiv, E.
  Qed.

  Corollary c13_dom_ws_equiv : forall (c : config) (doc1 doc2 : list node) (t1 t2 : rnode),
    dom_ws_equiv doc1 doc2 ->
    effective_sd doc_rules c doc1 = effective_sd doc_rules c doc2 ->
    to_render_tree inline_styles doc_rules c doc1 = Ok t1 ->
    to_render_tree inline_styles doc_rules c doc2 = Ok t2 ->
    ws_equiv t1 t2.
  Proof.
    intros c doc1 doc2 t1 t2 E Hsd H1 H2. pose proof (c13_dom_trees c doc1 doc2 E Hsd) as H.
    rewrite H1, H2 in H. cbn [rmap] in H. injection H as H. exact H.
  Qed.

  (* SimRel's side condition, on the tree the DOM layer builds (decidable) *)
  Definition doc_tree_ok (c : config) (doc : list node) : bool :=
    match to_render_tree inline_styles doc_rules c doc with Ok t => tree_ok t | _ => true end.

  (* ... hence identical renderings, whatever the outcome *)
  Theorem c13_dom_string : forall (c : config) (doc1 doc2 : list node) (w : N),
    dom_ws_equiv doc1 doc2 ->
    effective_sd doc_rules c doc1 = effective_sd doc_rules c doc2 ->
    doc_tree_ok c doc1 = true -> doc_tree_ok c doc2 = true ->
    string_from_read inline_styles doc_rules c doc1 w = string_from_read inline_styles doc_rules c doc2 w /\
    lines_from_read inline_styles doc_rules c doc1 w = lines_from_read inline_styles doc_rules c doc2 w.
  Proof.
    intros c doc1 doc2 w E Hsd O1 O2. pose proof (c13_dom_trees c doc1 doc2 E Hsd) as H.
    unfold doc_tree_ok in O1, O2. unfold string_from_read, lines_from_read.
    destruct (to_render_tree inline_styles doc_rules c doc1) as [t1| | |],
             (to_render_tree inline_styles doc_rules c doc2) as [t2| | |];
      cbn [rmap bind] in *; try discriminate H; try (split; reflexivity);
      [|injection H as H; rewrite H; split; reflexivity].
    injection H as H. rewrite (c13_render_with_context c t1 t2 w H O1 O2). split; reflexivity.
  Qed.

  Corollary c13_dom_nodoccss : forall (c : config) (doc1 doc2 : list node) (w : N),
    c_use_doc_css c = false ->
    dom_ws_equiv doc1 doc2 ->
    doc_tree_ok c doc1 = true -> doc_tree_ok c doc2 = true ->
    string_from_read inline_styles doc_rules c doc1 w = string_from_read inline_styles doc_rules c doc2 w /\
    lines_from_read inline_styles doc_rules c doc1 w = lines_from_read inline_styles doc_rules c doc2 w.
  Proof.
    intros c doc1 doc2 w Hu E O1 O2. apply c13_dom_string; try assumption.
    unfold effective_sd. rewrite Hu. reflexivity.
  Qed.
End Routes3.
Print Assumptions c13_dom_trees.
Print Assumptions c13_dom_ws_equiv.
Print Assumptions c13_dom_string.
Print Assumptions c13_dom_nodoccss.

(* ================================================================== *)
(* 5. A purely syntactic sufficient condition for doc_plain             *)
(* ================================================================== *)

(* (a) no display:none anywhere in the style data, document CSS off (declarations of another
   display value, `SDisplay false`, are harmless: they can only un-hide) *)
Definition decl_no_hide (sdl : styledecl) : bool :=
  match sd_style sdl with SDisplay true => false | _ => true end.
Definition rules_no_hide (rs : list ruleset) : bool :=
  forallb (fun r => forallb decl_no_hide (rs_styles r)) rs.
Definition sheet_no_hide (sd : styledata) : bool :=
  rules_no_hide (agent_rules sd) && rules_no_hide (user_rules sd) && rules_no_hide (author_rules sd).

Definition shown (cs : cstyle) : Prop := ws_val (c_display (cs_core cs)) <> Some true.

Lemma maybe_update_false (w : withspec bool) imp o sp :
  ws_val w <> Some true -> ws_val (maybe_update w imp o sp false) <> Some true.
Proof.
  intros Hw. unfold maybe_update. destruct (ws_val w) eqn:E; [|cbn [ws_val]; discriminate].
  assert (Hw' : ws_val w <> Some true) by (rewrite E; exact Hw).
  repeat match goal with |- context [if ?c then _ else _] => destruct c end;
    first [exact Hw'|cbn [ws_val]; discriminate].
Qed.

Lemma merge_shown cs imp o sp ps sdl :
  decl_no_hide sdl = true -> shown cs ->
  shown (merge_computed_style cs imp o sp ps (sd_style sdl)).
Proof.
  unfold decl_no_hide, shown. intros Hd Hs.
  destruct ps as [[|]|]; cbn [merge_computed_style cs_core]; try exact Hs.
  destruct (sd_style sdl) as [| |[|]| |]; try discriminate Hd; cbn [merge_core c_display]; try exact Hs.
  apply maybe_update_false, Hs.
Qed.

Lemma fold_merge_shown (f : styledecl -> bool * origin * spec * option pseudo) : forall l cs,
  forallb decl_no_hide l = true -> shown cs ->
  shown (fold_left (fun acc sdl => merge_computed_style acc (fst (fst (fst (f sdl)))) (snd (fst (fst (f sdl))))
                                     (snd (fst (f sdl))) (snd (f sdl)) (sd_style sdl)) l cs).
Proof.
  induction l as [|x l IH]; intros cs Hl Hs; [exact Hs|]. cbn [forallb] in Hl.
  apply andb_true_iff in Hl. destruct Hl as [Hx Hl]. cbn [fold_left]. apply IH; [exact Hl|].
  apply merge_shown; assumption.
Qed.

Lemma apply_rules_shown o p : forall rules cs,
  rules_no_hide rules = true -> shown cs -> shown (apply_rules o rules p cs).
Proof.
  induction rules as [|r rules IH]; intros cs Hr Hs; [exact Hs|]. cbn [rules_no_hide forallb] in Hr.
  apply andb_true_iff in Hr. destruct Hr as [H1 H2]. cbn [apply_rules]. apply IH; [exact H2|].
  destruct (sel_matches (rs_sel r) p); [|exact Hs].
  exact (fold_merge_shown (fun sdl => (sd_important sdl, o, specificity (rs_sel r), pseudo_el (rs_sel r)))
                          (rs_styles r) cs H1 Hs).
Qed.

Lemma computed_shown sd p : sheet_no_hide sd = true -> shown (computed_style sd p []).
Proof.
  unfold sheet_no_hide. intros H. apply andb_true_iff in H. destruct H as [H H3].
  apply andb_true_iff in H. destruct H as [H1 H2]. unfold computed_style. cbn [fold_left].
  apply apply_rules_shown; [exact H3|]. apply apply_rules_shown; [exact H2|].
  apply apply_rules_shown; [exact H1|]. unfold shown. cbn. discriminate.
Qed.

Lemma hidden_false sd inl me attrs : sheet_no_hide sd = true -> hidden sd false inl me attrs = false.
Proof.
  intros H. unfold hidden. pose proof (computed_shown sd me H) as Hs. unfold shown in Hs.
  destruct (ws_val (c_display (cs_core (computed_style sd me [])))) as [[|]|];
    [exfalso; apply Hs; reflexivity|reflexivity|reflexivity].
Qed.

(* (b) no <sup> element has an all-digit text node among its children *)
Definition digit_text (k : node) : bool :=
  match k with NText s => forallb is_ascii_digit s | _ => false end.
Fixpoint nsd (n : node) {struct n} : bool :=
  match n with
  | NElem html name attrs kids =>
    (if html then match kind_of name with KSup => negb (existsb digit_text kids) | _ => true end
     else true) && forallb nsd kids
  | _ => true
  end.
Definition dom_nsd (doc : list node) : bool := forallb nsd doc.

Definition is_text (x : rnode) : bool := match rn_info x with IText _ => true | _ => false end.

Lemma insert_child_not_text a n b : is_text (insert_child a n b) = false.
Proof.
  destruct n as [i st]. destruct i; cbn [insert_child]; try reflexivity; try (destruct b; reflexivity).
  - destruct r; reflexivity.
  - destruct c; reflexivity.
Qed.
Lemma wrap_pseudo_not_text computed n : is_text n = false -> is_text (wrap_pseudo computed n) = false.
Proof.
  intros H. unfold wrap_pseudo.
  destruct (cs_after computed) as [c|].
  - destruct (ws_val (c_content c)); [apply insert_child_not_text|].
    destruct (cs_before computed) as [c'|]; [|exact H].
    destruct (ws_val (c_content c')); [apply insert_child_not_text|exact H].
  - destruct (cs_before computed) as [c'|]; [|exact H].
    destruct (ws_val (c_content c')); [apply insert_child_not_text|exact H].
Qed.
Lemma base_of_not_text K attrs computed cs x :
  base_of K attrs computed cs = Ok (Some x) -> is_text x = false.
Proof.
  destruct K; cbn [base_of]; unfold noempty_, mk_; intros H;
    try (first [discriminate H|ok_inv H; reflexivity]);
    try (destruct cs; first [discriminate H|ok_inv H; reflexivity]).
  - destruct (img_attrs attrs None None) as [[title|] [src|]]; first [discriminate H|ok_inv H; reflexivity].
  - destruct (find_attr attrs s_href); [destruct (existsb _ cs)|]; first [discriminate H|ok_inv H; reflexivity].
  - destruct (flat_map _ cs); [discriminate H|]. bind_inv H t Ht. ok_inv H.
    unfold render_table_new in Ht. bind_inv Ht ps Hps. bind_inv Ht rows' Hr. ok_inv Ht. reflexivity.
  - destruct cs; [discriminate H|]. bind_inv H rows' Hr. ok_inv H. reflexivity.
Qed.

Lemma process_elem_not_text sd udc inl html name attrs kids p idx x :
  process sd udc inl (NElem html name attrs kids) p idx = Ok (Some x) -> is_text x = false.
Proof.
  rewrite process_eq. unfold pbody. intros H. bind_inv H inls Hinl.
  set (computed := computed_style sd _ inls) in *.
  apply disp_match_inv in H; [|discriminate].
  bind_inv H base Hbase.
  assert (Hb : forall b, base = Some b -> is_text b = false).
  { intros b ->. destruct html; cbn [negb] in Hbase.
    - rewrite html_base_eq in Hbase. destruct (kind_leaf (kind_of name)).
      + apply (base_of_not_text _ _ _ _ _ Hbase).
      + bind_inv Hbase cs Hcs. apply (base_of_not_text _ _ _ _ _ Hbase).
    - bind_inv Hbase cs Hcs. destruct cs; [discriminate Hbase|]. ok_inv Hbase. reflexivity. }
  destruct (fragment_of name _ attrs) as [f|].
  - destruct base as [b|]; ok_inv H; [apply insert_child_not_text|reflexivity].
  - destruct base as [b|]; [|discriminate H]. ok_inv H. apply wrap_pseudo_not_text, Hb. reflexivity.
Qed.

Lemma pk_text_origin sd udc inl me : forall kids i cs,
  pk_of (fun k i => process sd udc inl k me i) kids i = Ok cs ->
  forall x, In x cs -> is_text x = true -> exists s, In (NText s) kids /\ rn_info x = IText s.
Proof.
  induction kids as [|k kids IH]; intros i cs H x Hx Ht; cbn [pk_of] in H.
  - ok_inv H. contradiction.
  - bind_inv H r Hr. bind_inv H rs0 Hrs. ok_inv H.
    assert (Hrest : In x rs0 -> exists s, In (NText s) (k :: kids) /\ rn_info x = IText s).
    { intros Hin. destruct (IH _ _ Hrs x Hin Ht) as (s & Hs & E). exists s. split; [right; exact Hs|exact E]. }
    destruct r as [y|]; [|apply Hrest, Hx]. destruct Hx as [<-|Hx]; [|apply Hrest, Hx].
    destruct k as [html name attrs kk|t| |]; cbn [Dom.process] in Hr; try discriminate Hr.
    + rewrite (process_elem_not_text _ _ _ _ _ _ _ _ _ _ Hr) in Ht. discriminate Ht.
    + ok_inv Hr. exists t. split; [left; reflexivity|reflexivity].
Qed.

Lemma plain_suff sd inl : sheet_no_hide sd = true -> forall n p idx,
  nsd n = true -> plain sd false inl n p idx = true.
Proof.
  intros Hs. apply (node_ind' (fun n => forall p idx, nsd n = true -> plain sd false inl n p idx = true));
    try reflexivity.
  intros html name attrs kids IH p idx Hn. cbn [plain]. rewrite (hidden_false sd inl _ attrs Hs).
  cbn [negb andb]. cbn [nsd] in Hn. apply andb_true_iff in Hn. destruct Hn as [Hsup Hk].
  destruct (html && kind_leaf (kind_of name)); [reflexivity|]. apply andb_true_iff. split.
  - clear Hsup. generalize 1%Z. induction kids as [|k kids IHk]; intros i; [reflexivity|].
    inversion IH as [|? ? Hk1 Hk2]; subst. cbn [forallb] in Hk. apply andb_true_iff in Hk.
    destruct Hk as [Hka Hkb]. cbn [blk_of]. rewrite (Hk1 _ i Hka). cbn [andb]. apply IHk; assumption.
  - destruct html; [|reflexivity]. destruct (kind_of name); try reflexivity.
    destruct (pk_of _ kids 1%Z) as [cs| | |] eqn:Epk; try reflexivity.
    destruct (sup_digits cs) as [ds|] eqn:Esd; [|reflexivity]. exfalso.
    unfold sup_digits in Esd. destruct cs as [|x [|y cs']]; try discriminate Esd.
    destruct (rn_info x) as [s| | | | | | | | | | | | | | | | | | | | | | | |] eqn:Ex; try discriminate Esd.
    destruct (forallb is_ascii_digit s) eqn:Ed; [|discriminate Esd].
    destruct (pk_text_origin _ _ _ _ _ _ _ Epk x (or_introl eq_refl)) as (s' & Hin & E').
    { unfold is_text. rewrite Ex. reflexivity. }
    rewrite Ex in E'. injection E' as <-.
    apply negb_true_iff in Hsup. assert (existsb digit_text kids = true); [|congruence].
    apply existsb_exists. exists (NText s). split; [exact Hin|exact Ed].
Qed.

Lemma dom_plain_suff sd inl doc :
  sheet_no_hide sd = true -> dom_nsd doc = true -> dom_plain sd false inl doc = true.
Proof.
  intros Hs Hn. unfold dom_plain, dom_nsd in *. generalize 1%Z.
  induction doc as [|k doc IH]; intros i; [reflexivity|]. cbn [forallb] in Hn.
  apply andb_true_iff in Hn. destruct Hn as [H1 H2]. cbn [blk_of].
  rewrite (plain_suff sd inl Hs k [] i H1). cbn [andb]. apply IH, H2.
Qed.

Lemma doc_plain_suff ist dr (c : config) doc :
  c_use_doc_css c = false -> sheet_no_hide (c_sd c) = true -> dom_nsd doc = true ->
  doc_plain ist dr c doc = true.
Proof.
  intros Hu Hs Hn. unfold doc_plain, effective_sd. rewrite Hu. apply dom_plain_suff; assumption.
Qed.

(* ================================================================== *)
(* 6. End-to-end corollaries                                            *)
(* ================================================================== *)
Section Routes4.
  Variable inline_styles : list (text * text) -> res (list styledecl).
  Variable doc_rules : list node -> res (list ruleset).

  (* C03 from the document to the output (table-free documents: exact order) *)
  Theorem c03_dom_string : forall (c : config) (doc : list node) (width : N) (t : text),
    deco_made (c_deco c) ->
    dom_regular doc = true -> dom_ntab doc = true -> doc_plain inline_styles doc_rules c doc = true ->
    string_from_read inline_styles doc_rules c doc width = Ok t ->
    filter docp t = dom_visible doc.
  Proof.
    intros c doc width t Hd Hr Hn Hp H.
    destruct (to_render_tree inline_styles doc_rules c doc) as [tree| | |] eqn:Et;
      try (unfold string_from_read in H; rewrite Et in H; discriminate H).
    destruct (c14_dom_tree inline_styles doc_rules c doc tree Hd Hr Hn Hp Et) as (Hnt & _ & _).
    rewrite (c03_string_from_read _ _ _ _ _ _ _ Hd Et Hnt H).
    apply (c03_dom_visible inline_styles doc_rules c doc tree Hr Hp Et).
  Qed.

  Theorem c03_dom_lines : forall (c : config) (doc : list node) (width : N) (tls : list tline),
    deco_made (c_deco c) ->
    dom_regular doc = true -> dom_ntab doc = true -> doc_plain inline_styles doc_rules c doc = true ->
    lines_from_read inline_styles doc_rules c doc width = Ok tls ->
    filter docp (flat_map tl_string tls) = dom_visible doc.
  Proof.
    intros c doc width tls Hd Hr Hn Hp H.
    destruct (to_render_tree inline_styles doc_rules c doc) as [tree| | |] eqn:Et;
      try (unfold lines_from_read in H; rewrite Et in H; discriminate H).
    destruct (c14_dom_tree inline_styles doc_rules c doc tree Hd Hr Hn Hp Et) as (Hnt & _ & _).
    rewrite (c03_lines_from_read _ _ _ _ _ _ _ Hd Et Hnt H).
    apply (c03_dom_visible inline_styles doc_rules c doc tree Hr Hp Et).
  Qed.

  (* the same with the purely syntactic side conditions of section 5 *)
  Corollary c03_dom_string_syntactic : forall (c : config) (doc : list node) (width : N) (t : text),
    deco_made (c_deco c) -> c_use_doc_css c = false -> sheet_no_hide (c_sd c) = true ->
    dom_regular doc = true -> dom_ntab doc = true -> dom_nsd doc = true ->
    string_from_read inline_styles doc_rules c doc width = Ok t ->
    filter docp t = dom_visible doc.
  Proof.
    intros c doc width t Hd Hu Hs Hr Hn Hsd H.
    apply (c03_dom_string c doc width t Hd Hr Hn (doc_plain_suff _ _ c doc Hu Hs Hsd) H).
  Qed.
End Routes4.
Print Assumptions c03_dom_string.
Print Assumptions c03_dom_lines.
Print Assumptions c03_dom_string_syntactic.

(* ================================================================== *)
(* 7. Examples: non-vacuity, necessity of the side conditions           *)
(* ================================================================== *)
From H2T Require CssParse.
Module DomRelExamples.
Import String Ascii CssParse.
Local Open Scope string_scope.
Local Open Scope N_scope.

Fixpoint lN (s : string) : list N :=
  match s with EmptyString => [] | String a s' => N_of_ascii a :: lN s' end.
(* a text whose characters carry the labels l0, l0+1, ... (space, tab, newline are whitespace) *)
Fixpoint lab_from (l0 : N) (l : list N) : text :=
  match l with
  | [] => []
  | c :: l' => mkchr c (Some 1) ((c =? 32) || (c =? 10) || (c =? 9)) l0 :: lab_from (l0 + 1) l'
  end.
Definition tx (l0 : N) (s : string) : node := NText (lab_from l0 (lN s)).
Definition txc (s : string) : node :=
  NText (List.map (fun c => mkchr c (Some 1) ((c =? 32) || (c =? 10) || (c =? 9)) 16) (lN s)).
Definition nm (s : string) : text := of_ascii (lN s).
Definition el (name : string) (attrs : list (string * string)) (kids : list node) : node :=
  NElem true (nm name) (List.map (fun kv => (nm (fst kv), nm (snd kv))) attrs) kids.
Definition xel (name : string) (attrs : list (string * string)) (kids : list node) : node :=
  NElem false (nm name) (List.map (fun kv => (nm (fst kv), nm (snd kv))) attrs) kids.
Definition img (l0 : N) (src alt : string) : node :=
  NElem true (nm "img") [(nm "src", nm src); (nm "alt", lab_from l0 (lN alt))] [].
Definition labs (t : text) : list N := List.map lab t.
Definition sh (l : list sitem) : list (list N + N) :=
  List.map (fun x => match x with inl n => inl (cps n) | inr c => inr (lab c) end) l.
Definition tree_of (c : config) (doc : list node) : res rnode :=
  to_render_tree inline_styles doc_rules c doc.

(* <html><head><title>T</title></head><body><h1 id=top>Hi <em>there</em></h1>
   <p>a <a href=u id=l>link</a> <img src=s alt=pic> x<sup>1<i>st</i></sup><!----></p>
   <ul><li id=i1>x</li> <li>y</li></ul><ol> <li>one</li><span id=e></span></ol>
   <blockquote id=q>quo</blockquote><dl><dt>t</dt><dd id=d>dd</dd></dl>
   <a href=v> <b id=lost></b></a><script id=s>js</script><svg><style>css</style></svg> *)
Definition ex1 : list node :=
  [el "html" []
    [el "head" [] [el "title" [] [tx 900 "T"]];
     el "body" []
      [el "h1" [("id","top")] [tx 100 "Hi "; el "em" [] [tx 110 "there"]];
       tx 120 "
 ";
       el "p" [] [tx 130 "a "; el "a" [("href","u"); ("id","l")] [tx 140 "link"]; tx 150 " ";
                  img 155 "s" "pic"; tx 160 " x";
                  el "sup" [] [tx 170 "1"; el "i" [] [tx 175 "st"]]; NComment];
       el "ul" [] [el "li" [("id","i1")] [tx 200 "x"]; tx 205 " "; el "li" [] [tx 210 "y"]];
       el "ol" [] [tx 220 " "; el "li" [] [tx 230 "one"]; el "span" [("id","e")] []];
       el "blockquote" [("id","q")] [tx 240 "quo"];
       el "dl" [] [el "dt" [] [tx 250 "t"]; el "dd" [("id","d")] [tx 260 "dd"]];
       el "a" [("href","v")] [tx 270 " "; el "b" [("id","lost")] []];
       el "script" [("id","s")] [tx 280 "js"];
       xel "svg" [] [xel "style" [] [tx 290 "css"]]]]].

(* the hypotheses hold (dom_nsd does not: <sup>1<i>st</i></sup> has a digit text child, but is
   not rendered with the digit replacement - dom_nsd is only sufficient for doc_plain) *)
Example ex1_hyps :
  dom_regular ex1 = true /\ dom_ntab ex1 = true /\
  doc_plain inline_styles doc_rules cfg_plain ex1 = true /\ dom_nsd ex1 = false.
Proof. vm_compute. repeat split; reflexivity. Qed.

(* the specification: head and script skipped, whitespace dropped, alt text (155..) included,
   the non-HTML <style> is ordinary text *)
Example ex1_visible :
  labs (dom_visible ex1) =
  [100; 101; 110; 111; 112; 113; 114; 130; 140; 141; 142; 143; 155; 156; 157; 161; 170; 175; 176;
   200; 210; 230; 231; 232; 240; 241; 242; 250; 260; 261; 290; 291; 292].
Proof. vm_compute. reflexivity. Qed.

(* PART 1 applies ... *)
Example ex1_c03_tree : forall tree,
  tree_of cfg_plain ex1 = Ok tree -> leaf_stream tree = dom_visible ex1.
Proof.
  intros tree. apply c03_dom_visible; vm_compute; reflexivity.
Qed.
Example ex1_c03_string : forall t,
  string_from_read inline_styles doc_rules cfg_plain ex1 20 = Ok t -> filter docp t = dom_visible ex1.
Proof.
  intros t. apply c03_dom_string; [exact deco_made_plain|vm_compute; reflexivity..].
Qed.
(* ... and is not vacuous: the route answers Ok, and the independently computed label sequence
   of the output string is the one of ex1_visible *)
Example ex1_c03_check :
  match string_from_read inline_styles doc_rules cfg_plain ex1 20 with
  | Ok t => labs (filter docp t) = labs (dom_visible ex1) /\ (0 <? tlen t) = true
  | _ => False
  end.
Proof. vm_compute. split; reflexivity. Qed.

(* PART 2: the specification streams (markers as code points, characters as labels): the
   markers of the empty <span id=e> (dropped by <ol>) and of <b id=lost> (inside a dropped
   link) are in dom_all only; <script id=s> carries a marker although it is skipped *)
Example ex1_live :
  sh (dom_live ex1) =
  [inl [116; 111; 112]; inr 100; inr 101; inr 110; inr 111; inr 112; inr 113; inr 114; inr 130;
   inl [108]; inr 140; inr 141; inr 142; inr 143; inr 155; inr 156; inr 157; inr 161; inr 170;
   inr 175; inr 176; inl [105; 49]; inr 200; inr 210; inr 230; inr 231; inr 232; inl [113];
   inr 240; inr 241; inr 242; inr 250; inl [100]; inr 260; inr 261; inr 290; inr 291; inr 292].
Proof. vm_compute. reflexivity. Qed.
Example ex1_all :
  sh (dom_all ex1) =
  [inl [116; 111; 112]; inr 100; inr 101; inr 110; inr 111; inr 112; inr 113; inr 114; inr 130;
   inl [108]; inr 140; inr 141; inr 142; inr 143; inr 155; inr 156; inr 157; inr 161; inr 170;
   inr 175; inr 176; inl [105; 49]; inr 200; inr 210; inr 230; inr 231; inr 232; inl [101];
   inl [113]; inr 240; inr 241; inr 242; inr 250; inl [100]; inr 260; inr 261;
   inl [108; 111; 115; 116]; inl [115]; inr 290; inr 291; inr 292].
Proof. vm_compute. reflexivity. Qed.
Example ex1_c14 : forall tls,
  lines_from_read inline_styles doc_rules cfg_plain ex1 20 = Ok tls ->
  btw (dom_live ex1) (flat_map mline tls) (dom_all ex1).
Proof.
  intros tls. apply c14_dom_lines; [exact deco_made_plain|vm_compute; reflexivity..].
Qed.
Example ex1_c14_check :
  match lines_from_read inline_styles doc_rules cfg_plain ex1 20 with
  | Ok tls =>
    sh (flat_map mline tls) =
    [inl [116; 111; 112]; inr 100; inr 101; inr 110; inr 111; inr 112; inr 113; inr 114; inr 130;
     inl [108]; inr 140; inr 141; inr 142; inr 143; inr 155; inr 156; inr 157; inr 161; inr 170;
     inr 175; inr 176; inl [105; 49]; inr 200; inr 210; inr 230; inr 231; inr 232; inl [113];
     inr 240; inr 241; inr 242; inr 250; inl [100]; inr 260; inr 261; inl [115]; inr 290; inr 291;
     inr 292]
  | _ => False
  end.
Proof. vm_compute. reflexivity. Qed.

(* PART 1 with a table: <table id=tb> <thead><tr><th>h1<th>h2</tr></thead>
   <tbody><tr><td colspan=2>wide</td></tr> </tbody><caption></caption></table> *)
Definition extab : list node :=
  [el "table" [("id","tb")]
      [tx 90 " ";
       el "thead" [] [el "tr" [] [el "th" [] [tx 100 "h1"]; el "th" [] [tx 105 "h2"]]];
       el "tbody" [] [el "tr" [] [el "td" [("colspan","2")] [tx 110 "wide"]]; tx 115 " "];
       el "caption" [] []]].
Example extab_c03 :
  dom_regular extab = true /\ doc_plain inline_styles doc_rules cfg_plain extab = true /\
  match tree_of cfg_plain extab with
  | Ok t => labs (leaf_stream t) = [100; 101; 105; 106; 110; 111; 112; 113] /\
            leaf_stream t = dom_visible extab
  | _ => False
  end.
Proof.
  split; [vm_compute; reflexivity|]. split; [vm_compute; reflexivity|].
  destruct (tree_of cfg_plain extab) as [t| | |] eqn:E; try (vm_compute in E; discriminate E).
  split; [vm_compute in E; injection E as <-; vm_compute; reflexivity|].
  apply (c03_dom_visible inline_styles doc_rules cfg_plain extab t); [vm_compute; reflexivity..|exact E].
Qed.

(* ---- each exclusion is needed: the document, (dom_regular, doc_plain), the labels of
   dom_visible and of the tree's leaves ---- *)
Definition rep (c : config) (doc : list node) :=
  (dom_regular doc, doc_plain inline_styles doc_rules c doc, labs (dom_visible doc),
   match tree_of c doc with Ok t => Some (labs (leaf_stream t)) | _ => None end).

(* (i) <ol>text<li>a</li></ol> loses "text" *)
Example need_i :
  rep cfg_plain [el "ol" [] [tx 100 "text"; el "li" [] [tx 110 "a"]]] =
  (false, true, [100; 101; 102; 103; 110], Some [110]).
Proof. vm_compute. reflexivity. Qed.
(* (i), (ii) <table>loose<tbody><tr><td>c</td></tr></tbody><tfoot><tr><td>f</td></tr></tfoot></table> *)
Example need_ii :
  rep cfg_plain [el "table" [] [tx 100 "loose"; el "tbody" [] [el "tr" [] [el "td" [] [tx 110 "c"]]];
                                el "tfoot" [] [el "tr" [] [el "td" [] [tx 120 "f"]]]]] =
  (false, true, [100; 101; 102; 103; 104; 110; 120], Some [110]).
Proof. vm_compute. reflexivity. Qed.
(* (iii) is part of the specification: <p><img alt=alt>z</p> - the alt text (labels 100..) is
   not in dom_visible *)
Example spec_iii :
  rep cfg_plain [el "p" [] [NElem true (nm "img") [(nm "alt", lab_from 100 (lN "alt"))] []; tx 110 "z"]] =
  (true, true, [110], Some [110]).
Proof. vm_compute. reflexivity. Qed.
(* (iv) <p><sup>47</sup></p> and <p><sup>47<span></span></sup></p>: the labels are kept, the
   characters are not (U+2074 U+2077 for "47") *)
Example need_iv :
  let d1 := [el "p" [] [el "sup" [] [tx 100 "47"]]] in
  let d2 := [el "p" [] [el "sup" [] [tx 100 "47"; el "span" [] []]]] in
  rep cfg_plain d1 = (true, false, [100; 101], Some [100; 101]) /\
  rep cfg_plain d2 = (true, false, [100; 101], Some [100; 101]) /\
  cps (dom_visible d1) = [52; 55] /\
  match tree_of cfg_plain d1 with Ok t => cps (leaf_stream t) = [8308; 8311] | _ => False end.
Proof. vm_compute. repeat split; reflexivity. Qed.
(* (v) needs no exclusion: <p>a<a href=u> </a>b</p> *)
Example no_need_v :
  rep cfg_plain [el "p" [] [tx 100 "a"; el "a" [("href","u")] [tx 110 " "]; tx 120 "b"]] =
  (true, true, [100; 120], Some [100; 120]).
Proof. vm_compute. reflexivity. Qed.
(* nesting: <div><td>x</td></div> (not parser output; `unreachable!` in the renderer) *)
Example need_nesting :
  rep cfg_plain [el "div" [] [el "td" [] [tx 100 "x"]]] = (false, true, [100], Some []).
Proof. vm_compute. reflexivity. Qed.
(* hidden by CSS: <p style="display:none">h</p><p>v</p> with document CSS *)
Example need_shown :
  rep (set_doc_css cfg_plain) [el "p" [("style","display:none")] [tx 100 "h"]; el "p" [] [tx 110 "v"]] =
  (true, false, [100; 110], Some [110]).
Proof. vm_compute. reflexivity. Qed.
(* ... but a winning display value other than none (cell `Some false`) does not hide: the inline
   display:block beats the sheet's p{display:none}; doc_plain holds and nothing is lost *)
Example shown_other_display :
  rep (set_doc_css cfg_plain)
      [el "style" [] [txc "p{display:none}"]; el "p" [("style","display:block")] [tx 100 "v"]] =
  (true, true, [100], Some [100]).
Proof. vm_compute. reflexivity. Qed.
(* the syntactic condition allows display declarations of another value, and rejects display:none *)
Example sheet_no_hide_other :
  sheet_no_hide (mkstd [] [] [mkrs (mksel [] None) [mksd (SDisplay false) true]]) = true /\
  sheet_no_hide (mkstd [] [] [mkrs (mksel [] None) [mksd (SDisplay true) false]]) = false.
Proof. vm_compute. split; reflexivity. Qed.

(* PART 3: <p>hello   world\n again<b> x  </b></p>  <p>z</p>  against
           <p>hello world again<b>\tx </b></p>\n<p>z</p> *)
Definition ex3a : list node :=
  [el "p" [] [txc "hello   world
 again"; el "b" [] [txc " x  "]]; txc "  "; el "p" [] [txc "z"]].
Definition ex3b : list node :=
  [el "p" [] [txc "hello world again"; el "b" [] [txc "	x "]]; txc "
"; el "p" [] [txc "z"]].
Example ex3_hyps :
  dom_ws_equiv ex3a ex3b /\ c_use_doc_css cfg_plain = false /\
  doc_tree_ok inline_styles doc_rules cfg_plain ex3a = true /\
  doc_tree_ok inline_styles doc_rules cfg_plain ex3b = true.
Proof. repeat split; vm_compute; reflexivity. Qed.
Example ex3_c13 : forall w,
  string_from_read inline_styles doc_rules cfg_plain ex3a w =
  string_from_read inline_styles doc_rules cfg_plain ex3b w.
Proof.
  intros w. destruct ex3_hyps as (E & U & O1 & O2).
  exact (proj1 (c13_dom_nodoccss inline_styles doc_rules cfg_plain ex3a ex3b w U E O1 O2)).
Qed.
Example ex3_check :
  match string_from_read inline_styles doc_rules cfg_plain ex3a 20 with
  | Ok t => cps t = [104; 101; 108; 108; 111; 32; 119; 111; 114; 108; 100; 32; 97; 103; 97; 105; 110;
                     32; 120; 10; 10; 122; 10]
  | _ => False
  end.
Proof. vm_compute. reflexivity. Qed.
(* the syntactic corollary applies to ex3a *)
Example ex3_c03_syntactic : forall t,
  string_from_read inline_styles doc_rules cfg_plain ex3a 20 = Ok t -> filter docp t = dom_visible ex3a.
Proof.
  intros t. apply c03_dom_string_syntactic; [exact deco_made_plain|vm_compute; reflexivity..].
Qed.
End DomRelExamples.

(* ================================================================== *)
(* SUMMARY                                                              *)
(* ================================================================== *)
(* Vocabulary (all computable):
     kind_of name          the element kind, by the if-chains of process / build_element
                           (html_base_eq: process's element-specific part = base_of (kind_of name))
     dom_vis / dom_visible THE SPECIFICATION of Part 1: doc_chars of text nodes and of the alt text
                           of <img> with a non-empty src (img_attrs), in document order; nothing
                           below HTML link, meta, hr, script, style, head, br, img
     dom_regular doc       syntactic: (i)/(ii) a child of <ol> that is not <li>, of <dl> not
                           <dt>/<dd>, of <table> not <thead>/<tbody>, of <thead>/<tbody> not <tr>,
                           of <tr> not <th>/<td> has NO visible character (vis_empty); and the table
                           elements are nested as the parser nests them (<thead>/<tbody>/<tr>/<td>/
                           <th> only as children of <table> / <table>,<thead>,<tbody> / <tr>)
     doc_plain c doc       at the style data the route uses (effective_sd), along the traversal of
                           `process`: no reachable element is hidden (Prune.hidden = false), and no
                           <sup> is rendered with the digit replacement (sup_digits of its processed
                           children = None)
     sheet_no_hide, dom_nsd  syntactic sufficient condition for doc_plain when document CSS is off
                           (doc_plain_suff): no display:none (`SDisplay true`) in the style data
                           - display declarations of another value, `SDisplay false`, are
                           allowed: they can only un-hide; no <sup> with an all-digit text child
     dom_ntab doc          no HTML table/thead/tbody/tr/th/td element (Part 2: FragStream.mtree
                           does not cover tables)
     dom_all / dom_live    Part 2 specification streams: visible characters and the marker of
                           every element with a fragment name (frag_name: first id, for <a> also
                           name) / only of those with a visible character in their subtree
     dnorm, dom_ws_equiv   Part 3: SimRel.normalise on every text node; equal normal forms

   PART 1 (C03)
     c03_dom_visible :  dom_regular doc = true -> doc_plain c doc = true ->
                        to_render_tree ist dr c doc = Ok tree -> leaf_stream tree = dom_visible doc
     c03_dom_doc_stream (deco_made: doc_stream (c_deco c) tree = dom_visible doc),
     c03_dom_string, c03_dom_lines (table-free: filter docp <output> = dom_visible doc),
     c03_dom_string_syntactic.  Tables are included in c03_dom_visible (example extab_c03);
     compose with RenderConserve.c03_render_tree_perm for the output.
     Recorded deviations: (i), (ii) excluded by dom_regular exactly when something visible is
     lost (whitespace text and empty elements between list items / rows are allowed);
     (iii) is built into dom_vis (spec_iii); (iv) excluded by doc_plain (semantically exact:
     need_iv shows <sup>47<span></span></sup> is replaced as well - the test looks at the
     PROCESSED children); (v) needs no exclusion: shallow_empty_leaf / all_shallow_empty_leaf:
     a dropped link has no visible character (no_need_v).
     Excluded beyond (i)-(v): mis-nested table elements (need_nesting: <div><td>x</td></div>
     builds IDiv [ITableCell ..], leaf_stream [], and render_node panics with site 60; this is
     side condition (2) of RenderTotal.dom_ok, not parser output); CSS-hidden elements
     (need_shown), as the task allows.  Slightly stronger than RenderTotal.dok: the children of
     an ordinary element are always checked strictly (dok inherits non-strictness below a
     dropped child of a table element).

   PART 2 (C14), deco_made decorator, no overflow, table-free regular plain document:
     c14_dom_tree  : no_table tree = true /\
                     msub (dom_live doc) (strip (mstream_min d tree)) /\
                     msub (mstream_tree d tree) (dom_all doc)
     c14_dom_lines : lines_from_read .. = Ok tls -> btw (dom_live doc) (flat_map mline tls) (dom_all doc)
     c14_dom_markers : the same in words (1)-(4); dml_marker: a live element's marker stands
                     directly in front of the element's own stream.
     Which elements carry a marker: EVERY processed element with a fragment name, HTML or not,
     including <br>, <img>, <hr>, <script>, <style>, <head>, <link>, <meta> (ex1: <script id=s>)
     - unless hidden by CSS, below a skipped element, dropped by the parent (<ol>/<dl> filter,
     children of a dropped shallow-empty link: ex1 `e`, `lost`; these have no visible character),
     or a table element (attached to the first cell of the first row; lost when there is none:
     recorded finding row_marker_in_empty_first_cell; tables are outside FragStream's stream).

   PART 3 (C13): no regularity hypothesis at all.
     c13_dom_trees : dom_ws_equiv doc1 doc2 -> effective_sd dr c doc1 = effective_sd dr c doc2 ->
                     rmap norm_tree (to_render_tree ist dr c doc1) =
                     rmap norm_tree (to_render_tree ist dr c doc2)
                     (the same failure, or ws_equiv trees: c13_dom_ws_equiv)
     c13_dom_string, c13_dom_nodoccss : with SimRel.tree_ok of both trees (doc_tree_ok): the
                     routes string_from_read / lines_from_read give the very same result.
     The hypothesis on effective_sd holds when document CSS is off; with document CSS the text of
     <style> elements is CSS source whose whitespace is not covered.  What matters about
     whitespace-only text nodes: `process` turns every text node into a node (never drops one),
     is_shallow_empty only asks whether trim t = [] <-> all_ws t (trim_nil_iff,
     shallow_empty_norm), and the emptiness tests (pending_noempty) count nodes.

   NOT PROVED: Part 2 for documents with tables (FragStream has no table stream); Part 1/2 for
   documents with CSS-hidden elements (prune first: Prune.prune_equiv); Part 3 with differing
   <style> whitespace under document CSS. *)
