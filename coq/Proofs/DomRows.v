(* Proofs/DomRows.v -- the two statements Proofs/DomBlocks.v left open:
   (2) thead / tbody: inserting a text node / comment among the children does not change
       `process`, provided the remaining children do not process to `Ok []`;
   (1) the cells of a row are, in order and one to one, the html td / th children whose
       `process` is not `Ok None` (Forall2). *)
From H2T Require Import Base Tagged Wrap Css Dom Api CssParse.
From H2T Require Import Proofs.Prune Proofs.DomBlocks.
From Coq Require Import Lia ZifyN ZifyBool ZifyNat.
From Coq Require String Ascii.
Local Arguments N.add : simpl never.
Local Arguments N.sub : simpl never.
Local Arguments N.leb : simpl never.
Local Arguments N.ltb : simpl never.
Local Arguments N.eqb : simpl never.
Local Arguments N.max : simpl never.
Local Arguments N.min : simpl never.

(* ---------------------------------------------------------------------- *)
(* 1. thead / tbody                                                         *)
(* ---------------------------------------------------------------------- *)
Definition rows_of (cs : list rnode) : list rrow :=
  flat_map (fun n => match rn_info n with ITableRow r => [r] | _ => [] end) cs.

Lemma be_tbody : forall name attrs c cs, cps name = Nm.thead \/ cps name = Nm.tbody ->
  build_element name attrs c cs =
  match cs with
  | [] => Ok None
  | _ :: _ => do rows' <- tbody_rows (rows_of cs); Ok (Some (RN (ITableBody rows') c))
  end.
Proof. intros name attrs c cs [H|H]; be_name H. Qed.

Lemma nonempty_insert : forall {A B} (cs1 o cs2 : list A) (a b : B),
  cs1 ++ cs2 <> [] ->
  match cs1 ++ o ++ cs2 with [] => a | _ :: _ => b end =
  match cs1 ++ cs2 with [] => a | _ :: _ => b end.
Proof.
  intros A B cs1 o cs2 a b H. destruct cs1 as [|x cs1]; cbn [app] in *; [|reflexivity].
  destruct cs2 as [|y cs2]; [congruence|]. destruct o; reflexivity.
Qed.

Section IndentBody.
  Variable sd : styledata.
  Variable udc : bool.
  Variable inl : list (text * text) -> res (list styledecl).
  Notation process := (process sd udc inl).
  Notation process_kids := (process_kids sd udc inl).

  (* SIDE CONDITION `<> Ok []`: as for ol / dl the emptiness test of thead / tbody is made on ALL
     processed children, before the rows are filtered out: "<tbody></tbody>" is nothing,
     "<tbody> </tbody>" is a body without rows (DomBlocks.ex_tbody_empty_differs, and
     ex_tbody_needs_condition below): without the condition the statement is false. *)
  Theorem tbody_insert_nonelem : forall name attrs l1 x l2 p idx,
    cps name = Nm.thead \/ cps name = Nm.tbody -> is_elem x = false ->
    process_kids (l1 ++ l2) (mkanc name attrs idx :: p) 1%Z <> Ok [] ->
    process (NElem true name attrs (l1 ++ x :: l2)) p idx =
    process (NElem true name attrs (l1 ++ l2)) p idx.
  Proof.
    intros name attrs l1 x l2 p idx Hn Hx Hne. apply process_insert_gen; [exact Hx|].
    intros c cs1 cs2 Hk. rewrite !(be_tbody _ _ _ _ Hn). unfold rows_of.
    rewrite (flat_map_insert_nonelem _ cs1 cs2 x Hx) by reflexivity.
    apply nonempty_insert. intros E. rewrite E in Hk. exact (Hne Hk).
  Qed.
End IndentBody.
Print Assumptions tbody_insert_nonelem.

(* ---------------------------------------------------------------------- *)
(* 2. the cells of a row, one by one                                        *)
(* ---------------------------------------------------------------------- *)
Section RowForall2.
  Variable sd : styledata.
  Variable udc : bool.
  Variable inl : list (text * text) -> res (list styledecl).
  Notation process := (process sd udc inl).
  Notation process_kids := (process_kids sd udc inl).

  (* the children that give a cell, each with the element index it is processed with
     (same threading as DomBlocks.count_cells) *)
  Fixpoint visible_tdth (me : list anc) (kids : list node) (i : Z) : list (node * Z) :=
    match kids with
    | [] => []
    | k :: kids' => (if cell_kid sd udc inl me k i then [(k, i)] else []) ++
                    visible_tdth me kids' (if is_elem k then (i + 1)%Z else i)
    end.

  Definition cell_of_kid (me : list anc) (ki : node * Z) (cell : rcell) : Prop :=
    exists name attrs kk nd,
      fst ki = NElem true name attrs kk /\ names [[116;104]; [116;100]] name = true /\
      process (fst ki) me (snd ki) = Ok (Some nd) /\ rn_info nd = ITableCell cell /\
      cell_colspan cell = td_colspan attrs.

  Lemma visible_tdth_length : forall kids me i,
    length (visible_tdth me kids i) = count_cells sd udc inl me kids i.
  Proof.
    induction kids as [|k kids IH]; intros me i; [reflexivity|].
    cbn [visible_tdth count_cells]. rewrite app_length, IH.
    destruct (cell_kid sd udc inl me k i); reflexivity.
  Qed.

  Theorem row_cells_forall2 : forall kids me i cs,
    process_kids kids me i = Ok cs ->
    Forall2 (cell_of_kid me) (visible_tdth me kids i) (cells_of cs).
  Proof.
    induction kids as [|k kids IH]; intros me i cs H.
    - injection H as <-. constructor.
    - cbn [Dom.process_kids] in H. cbn [visible_tdth]. unfold cell_kid.
      change (match k with NElem _ _ _ _ => true | _ => false end) with (is_elem k) in H.
      destruct (process k me i) as [r| | |] eqn:Ek; cbn [bind] in H; try discriminate H.
      destruct (process_kids kids me _) as [rs| | |] eqn:Er; cbn [bind] in H; try discriminate H.
      injection H as <-. specialize (IH _ _ _ Er).
      destruct r as [nd|].
      + change (cells_of (nd :: rs))
          with ((match rn_info nd with ITableCell c => [c] | _ => [] end) ++ cells_of rs).
        destruct (is_tdth k) eqn:Et; cbn [andb app].
        * destruct k as [[|] name attrs kk|t| |]; try discriminate Et.
          destruct (tdth_gives_cell sd udc inl _ _ _ _ _ _ Et Ek) as (k' & s & Hi).
          rewrite Hi. cbn [app]. constructor; [|exact IH].
          exists name, attrs, kk, nd. cbn [fst snd].
          split; [reflexivity|]. split; [exact Et|]. split; [exact Ek|].
          split; [exact Hi|reflexivity].
        * destruct (rn_info nd) eqn:Ei; try exact IH.
          assert (Hc : is_cell nd = true) by (unfold is_cell; rewrite Ei; reflexivity).
          rewrite (cell_only_from_tdth sd udc inl _ _ _ _ Ek Hc) in Et. discriminate Et.
      + rewrite Bool.andb_false_r. exact IH.
  Qed.
End RowForall2.
Print Assumptions row_cells_forall2.

(* `visible_tdth` is a filter of the children paired with their element indices: the
   correspondence of row_cells_forall2 is order preserving and one to one *)
Fixpoint indexed (kids : list node) (i : Z) : list (node * Z) :=
  match kids with
  | [] => []
  | k :: kids' => (k, i) :: indexed kids' (if is_elem k then (i + 1)%Z else i)
  end.

Lemma visible_tdth_filter : forall sd udc inl kids me i,
  visible_tdth sd udc inl me kids i =
  filter (fun ki => cell_kid sd udc inl me (fst ki) (snd ki)) (indexed kids i).
Proof.
  intros sd udc inl. induction kids as [|k kids IH]; intros me i; [reflexivity|].
  cbn [visible_tdth indexed filter fst snd]. rewrite IH.
  destruct (cell_kid sd udc inl me k i); reflexivity.
Qed.

Lemma indexed_fst : forall kids i, List.map fst (indexed kids i) = kids.
Proof.
  induction kids as [|k kids IH]; intros i; [reflexivity|].
  cbn [indexed List.map fst]. rewrite IH. reflexivity.
Qed.

(* for a whole <tr>: its render node, and its cells matched with its visible td / th kids *)
Theorem tr_cells_forall2 : forall (sd : styledata) (udc : bool)
    (inl : list (text * text) -> res (list styledecl)) (name : text) (attrs : list (text * text))
    (kids : list node) (p : list anc) (idx : Z) (inls : list styledecl) (cs : list rnode),
  let me := mkanc name attrs idx :: p in
  let computed := computed_style sd me inls in
  (if udc then inl attrs else Ok []) = Ok inls ->
  hidden_style computed = false ->
  process_kids sd udc inl kids me 1%Z = Ok cs ->
  cps name = Nm.tr ->
  process sd udc inl (NElem true name attrs kids) p idx =
    Ok (finish computed true name attrs
          (Some (RN (ITableRow (RRow (cells_of cs) computed)) computed))) /\
  Forall2 (cell_of_kid sd udc inl me) (visible_tdth sd udc inl me kids 1%Z) (cells_of cs) /\
  length (cells_of cs) = count_cells sd udc inl me kids 1%Z.
Proof.
  intros sd udc inl name attrs kids p idx inls cs me computed Hi Hv Hk Hn. split; [|split].
  - exact (process_tr sd udc inl name attrs kids p idx inls cs Hi Hv Hk Hn).
  - exact (row_cells_forall2 sd udc inl kids me 1%Z cs Hk).
  - exact (row_cell_count sd udc inl kids me 1%Z cs Hk).
Qed.
Print Assumptions tr_cells_forall2.

(* ---------------------------------------------------------------------- *)
(* 3. Examples                                                              *)
(* ---------------------------------------------------------------------- *)
Module DomRowsExamples.
Import PruneExamples DomBlocksExamples.
Import String Ascii.
Local Open Scope string_scope.

Definition row (s : string) := el "tr" [] [el "td" [] [tx s]].

Example ex_tbody_insert :
  proc (el "tbody" [] ([row "a"] ++ tx "
   " :: [row "b"])) =
  proc (el "tbody" [] ([row "a"] ++ [row "b"])).
Proof.
  unfold proc, el. apply tbody_insert_nonelem; [right; reflexivity|reflexivity|].
  vm_compute. discriminate.
Qed.
Example ex_thead_insert :
  proc (el "thead" [] ([] ++ tx " " :: [row "b"])) = proc (el "thead" [] ([] ++ [row "b"])).
Proof.
  unfold proc, el. apply tbody_insert_nonelem; [left; reflexivity|reflexivity|].
  vm_compute. discriminate.
Qed.
(* the result is a real body with two rows *)
Example ex_tbody_insert_value :
  match proc (el "tbody" [] ([row "a"] ++ tx " " :: [row "b"])) with
  | Ok (Some (RN (ITableBody [RRow [RCell 1 [_] _] _; RRow [RCell 1 [_] _] _]) _)) => True
  | _ => False
  end.
Proof. vm_compute. exact I. Qed.
(* without the side condition the statement is false *)
Example ex_tbody_needs_condition :
  proc (el "tbody" [] ([] ++ tx " " :: [])) <> proc (el "tbody" [] ([] ++ [])) /\
  process_kids sd0 true inline_styles ([] ++ []) [mkanc (t "tbody") [] 1%Z] 1%Z = Ok [].
Proof. split; [vm_compute; discriminate|reflexivity]. Qed.

(* 4 element children (two visible cells, one hidden cell, one p), text and comment *)
Definition kids0 := [tx " "; el "td" [] []; NComment; el "th" [("colspan", "2")] [tx "x"];
                     el "td" hide [tx "h"]; el "p" [] [tx "lost"]].
Definition me0 := [mkanc (t "tr") [] 1%Z].
Example ex_visible :
  visible_tdth sd0 true inline_styles me0 kids0 1%Z =
  [(el "td" [] [], 1%Z); (el "th" [("colspan", "2")] [tx "x"], 2%Z)].
Proof. vm_compute. reflexivity. Qed.
Example ex_row_forall2 :
  exists cs, process_kids sd0 true inline_styles kids0 me0 1%Z = Ok cs /\
    List.map cell_colspan (cells_of cs) = [1; 2] /\
    Forall2 (cell_of_kid sd0 true inline_styles me0)
      [(el "td" [] [], 1%Z); (el "th" [("colspan", "2")] [tx "x"], 2%Z)] (cells_of cs).
Proof.
  eexists. split; [vm_compute; reflexivity|]. split; [vm_compute; reflexivity|].
  rewrite <- ex_visible. apply row_cells_forall2. vm_compute. reflexivity.
Qed.
Example ex_tr_thm :
  let cs := match process_kids sd0 true inline_styles kids0 me0 1%Z with Ok cs => cs | _ => [] end in
  proc (el "tr" [] kids0) =
    Ok (Some (RN (ITableRow (RRow (cells_of cs) (st0 "tr" []))) (st0 "tr" []))) /\
  List.length (cells_of cs) = 2%nat.
Proof.
  cbv zeta. split; vm_compute; reflexivity.
Qed.
End DomRowsExamples.
Print Assumptions DomRowsExamples.ex_row_forall2.
Print Assumptions DomRowsExamples.ex_tbody_needs_condition.

(* ---------------------------------------------------------------------- *)
(* 4. the full description of each cell                                     *)
(* ---------------------------------------------------------------------- *)
Section RowFull.
  Variable sd : styledata.
  Variable udc : bool.
  Variable inl : list (text * text) -> res (list styledecl).
  Notation process := (process sd udc inl).
  Notation process_kids := (process_kids sd udc inl).

  (* a td / th that yields a node: the node is `finish` of the cell made of its processed
     children, its colspan and its computed (visible) style *)
  Theorem tdth_gives_cell_full : forall name attrs kids p i nd,
    names [[116;104]; [116;100]] name = true ->
    process (NElem true name attrs kids) p i = Ok (Some nd) ->
    exists inls kcs,
      (if udc then inl attrs else Ok []) = Ok inls /\
      process_kids kids (mkanc name attrs i :: p) 1%Z = Ok kcs /\
      hidden_style (computed_style sd (mkanc name attrs i :: p) inls) = false /\
      Some nd = finish (computed_style sd (mkanc name attrs i :: p) inls) true name attrs
                  (Some (RN (ITableCell (RCell (td_colspan attrs) kcs
                                           (computed_style sd (mkanc name attrs i :: p) inls)))
                            (computed_style sd (mkanc name attrs i :: p) inls))).
  Proof.
    intros name attrs kids p i nd Hn H. apply tdth_cps in Hn.
    rewrite process_elem_unfold in H. cbv zeta in H.
    destruct (if udc then inl attrs else Ok []) as [inls| | |] eqn:Ei; cbn [bind] in H;
      try discriminate H.
    destruct (hidden_style _) eqn:Eh; [discriminate H|].
    assert (Hc : childless name = false)
      by (destruct Hn as [Hn|Hn]; rewrite (childless_cps _ _ Hn); reflexivity).
    unfold childless in Hc.
    apply Bool.orb_false_iff in Hc. destruct Hc as (Hc & Hc3).
    apply Bool.orb_false_iff in Hc. destruct Hc as (Hc1 & Hc2).
    rewrite Hc1, Hc2, Hc3 in H.
    destruct (Dom.process_kids _ _ _ _ _ _) as [cs| | |] eqn:Ek; cbn [bind] in H; try discriminate H.
    rewrite (be_td _ _ _ _ Hn) in H. cbn [bind] in H. injection H as H.
    exists inls, cs. split; [reflexivity|]. split; [first [reflexivity|exact Ek]|].
    split; [first [reflexivity|exact Eh]|].
    symmetry. exact H.
  Qed.

  Definition cell_of_kid_full (me : list anc) (ki : node * Z) (cell : rcell) : Prop :=
    exists name attrs kk inls kcs nd,
      fst ki = NElem true name attrs kk /\ names [[116;104]; [116;100]] name = true /\
      (if udc then inl attrs else Ok []) = Ok inls /\
      process_kids kk (mkanc name attrs (snd ki) :: me) 1%Z = Ok kcs /\
      hidden_style (computed_style sd (mkanc name attrs (snd ki) :: me) inls) = false /\
      Some nd = finish (computed_style sd (mkanc name attrs (snd ki) :: me) inls) true name attrs
                  (Some (RN (ITableCell (RCell (td_colspan attrs) kcs
                               (computed_style sd (mkanc name attrs (snd ki) :: me) inls)))
                            (computed_style sd (mkanc name attrs (snd ki) :: me) inls))) /\
      rn_info nd = ITableCell cell /\
      cell_colspan cell = td_colspan attrs /\
      cell_style cell = computed_style sd (mkanc name attrs (snd ki) :: me) inls.

  Lemma cell_of_kid_to_full : forall me ki cell,
    cell_of_kid sd udc inl me ki cell -> cell_of_kid_full me ki cell.
  Proof.
    intros me [k i] cell (name & attrs & kk & nd & Hk & Hn & Hp & Hi & Hc).
    cbn [fst snd] in *. subst k.
    destruct (tdth_gives_cell_full _ _ _ _ _ _ Hn Hp) as (inls & kcs & H1 & H2 & H3 & H4).
    exists name, attrs, kk, inls, kcs, nd. cbn [fst snd].
    repeat (split; [first [reflexivity|assumption]|]).
    destruct (finish_colspan (computed_style sd (mkanc name attrs i :: me) inls) true name attrs
                (td_colspan attrs) kcs (computed_style sd (mkanc name attrs i :: me) inls)
                (computed_style sd (mkanc name attrs i :: me) inls)) as (k' & Hf).
    rewrite Hf in H4. injection H4 as ->. cbn [rn_info] in Hi. injection Hi as <-. reflexivity.
  Qed.

  Theorem row_cells_forall2_full : forall kids me i cs,
    process_kids kids me i = Ok cs ->
    Forall2 (cell_of_kid_full me) (visible_tdth sd udc inl me kids i) (cells_of cs).
  Proof.
    intros kids me i cs H. pose proof (row_cells_forall2 sd udc inl kids me i cs H) as F.
    induction F as [|ki cell l l' HR F IH]; constructor; [|exact IH].
    apply cell_of_kid_to_full. exact HR.
  Qed.
End RowFull.
Print Assumptions row_cells_forall2_full.

Module DomRowsExamples2.
Import PruneExamples DomBlocksExamples DomRowsExamples.
Import String Ascii.
Local Open Scope string_scope.
Example ex_row_forall2_full :
  exists cs, process_kids sd0 true inline_styles kids0 me0 1%Z = Ok cs /\
    List.map cell_content (cells_of cs) = [[]; [txn "x"]] /\
    Forall2 (cell_of_kid_full sd0 true inline_styles me0)
      [(el "td" [] [], 1%Z); (el "th" [("colspan", "2")] [tx "x"], 2%Z)] (cells_of cs).
Proof.
  eexists. split; [vm_compute; reflexivity|]. split; [vm_compute; reflexivity|].
  rewrite <- ex_visible. apply row_cells_forall2_full. vm_compute. reflexivity.
Qed.
End DomRowsExamples2.
Print Assumptions DomRowsExamples2.ex_row_forall2_full.
