(* Proofs/DomSplit.v -- C13 for the rewrites that change the SHAPE of the tree: a comment that
   splits a text node, a bare <span> around a run of siblings.  No axioms (Print Assumptions after
   every main theorem).

   METHOD.  The renderer reads a render tree only through its SIGNATURE `sgn E t : snode`
   (sections 3, 4, 7): neutral containers (style without colour / background / pre white-space /
   <pre>; the node of a bare span) dissolved into their parent's list, adjacent neutral text nodes
   concatenated, <sup> over a sole all-digit text replaced by its superscript text, and annotated
   with the values of the size estimates that Render.render_node actually uses: the minimum inner
   width of every prefixed block (heading, quote, ul, ol, dd) and the estimate of every table cell.
   `srun d : snode -> rstate -> res rstate` is the renderer on signatures (no estimates computed).
     render_tree_factor (THEOREM 1):
       tree_ok t = true -> eok d mw t = true ->
       render_tree d mw o width t = srun_tree d o width (sgn (Ek d mw) t)
     (eok: every node has an estimate; est_ok_deep: it follows from `est_node d mw t = Ok e`, which
     render_tree checks first.  tree_ok = SimRel's side condition: no white-space: pre style, no
     character that is both whitespace and an ASCII digit).
   The text level: Wrap.wb_add_text and Sub.add_inline_text of a concatenation = two calls in a
   row, in normal white-space mode (wb_add_text_app, ait_app; the position of the cut is
   arbitrary -- it need not be next to whitespace).

   MAIN THEOREMS (render-tree level)
   (A) split_equiv t1 t2 := sshape t1 = sshape t2  (the signature without the estimates; decidable:
       split_equiv_dec).  sq / lsq (section 10) = the reflexive-symmetric-transitive congruence
       closure of  lsq_split: [IText (t1++t2)] ~ [IText t1; IText t2]  (neutral styles) and
       lsq_wrap: ks ~ [IContainer ks] (neutral style, ks ANY run of siblings, blocks included);
       sq_split_equiv : sq t1 t2 -> split_equiv t1 t2.
   (B) split_equiv_both_ok / c13_split_both_ok:
         tree_ok t1, tree_ok t2, table_free t1, o_allow_overflow o = false, split_equiv t1 t2 (sq t1 t2),
         render_tree d mw o width t1 = Ok s1, render_tree d mw o width t2 = Ok s2  ->  s1 = s2
       (hence the same lines, tags and fragment markers), for every width, decorator, min_wrap and
       every other option.  BOTH extra hypotheses are needed, see (C)(2).
   (C) split_safe d mw t1 t2 := sgn (Ek d mw) t1 = sgn (Ek d mw) t2 : the same shape AND the same
       values of the estimates the renderer reads (decidable: split_safe_dec).
         split_safe_render: tree_ok t1, tree_ok t2, est_node d mw ti = Ok ei, split_safe d mw t1 t2 ->
                            render_tree d mw o width t1 = render_tree d mw o width t2
       (the same outcome -- Ok with the same sub-renderer, TooNarrow, the same Panic site -- tables,
       prefixed blocks and allow_width_overflow included).
       (1) exc_too_narrow_one_side: without split_safe the outcome differs (<ul><li>a b</li></ul>
           at width 4 is TooNarrow, with "a " split off it renders: finding short_split_min_width).
       (2) two SUCCESSFUL renderings can differ:
           exc_overflow_differs -- NEW FINDING, table-free: with allow_width_overflow a prefixed
             block that does not fit gets max(rest, estimated minimum) columns (Sub.width_minus), so
             <blockquote>a b</blockquote> at width 3 gives "> a b" but <blockquote>a <!---->b
             </blockquote> gives "> a" / "> b" (also ul, ol, dd, h1..h6; html2text agrees);
           exc_table_differs -- in a table the estimated sizes decide the column widths.
   (D) exc_sup_differs: <sup> is the only node kind that looks at the shape of its children
       (Render.sup_digits); the signature records its answer, so ISup [IText "47"] and
       ISup [IContainer [IText "47"]] are not split-equivalent (finding sup_digits_wrapped); the
       closure rule sq_sup asks for `sup_digits c1 = sup_digits c2`.

   DOM LEVEL (section 11; table-free documents, `dom_ntab`)
     dn W / dl W m: documents related by inserting / removing comments (and doctype nodes) anywhere,
     cutting text nodes in pieces (not directly below <ul>, <sup>), and -- when W = true -- putting
     runs of children into bare <span> elements (not directly below <ul>, <sup>, <a>, <ol>, <dl>).
     dom_split_trees (W = false; NO condition on the style sheet) and dom_span_trees (W = true;
     side conditions: sd_span_ok -- no combinator / :nth-child in the effective sheet and a bare span
     gets a neutral style and no pseudo-element content -- and inline_styles [] = Ok []):
       res_rel tn (to_render_tree .. c doc1) (to_render_tree .. c doc2)
     i.e. the same failure, or two trees related by tn, which implies split_equiv (tn_split_equiv).
     c13_dom_split_routes / c13_dom_span_routes: with doc_tree_ok, doc_table_free, c_overflow c =
     false: if lines_from_read (string_from_read) succeeds on both documents the results are equal.
     The excluded positions are genuine:
       exd_ul_differs -- NEW FINDING: directly below <ul> every child node is a list item of its
         own, text nodes included: <ul>x y<li>a</li></ul> renders "* x y / * a",
         <ul>x <!---->y<li>a</li></ul> renders "* x / * y / * a" (html2text agrees);
       exd_span_modes -- <ol><span><li>a</li></span><li>b</li></ol> loses item a (only <li> children
         are kept), <a href=u><span> </span></a> is rendered, <a href=u> </a> is not (recorded
         finding empty_link_with_markup).
   NOT PROVED: the converse split_equiv -> sq; text splits directly below <sup> next to whitespace
   (harmless, but excluded by mode MPoint); tables at the DOM level (dom_ntab). *)
From H2T Require Import Base Tagged Wrap Sub Css Dom Render Api.
From H2T Require Import Proofs.WrapInv Proofs.Small Proofs.RenderWidth Proofs.OptionRel.
From H2T Require Import Proofs.Compose Proofs.SimRel Proofs.Prune Proofs.DomRel.
From Coq Require Import Lia ZifyN ZifyBool ZifyNat.

Local Arguments N.add : simpl never.
Local Arguments N.sub : simpl never.
Local Arguments N.mul : simpl never.
Local Arguments N.div : simpl never.
Local Arguments N.modulo : simpl never.
Local Arguments N.leb : simpl never.
Local Arguments N.ltb : simpl never.
Local Arguments N.eqb : simpl never.
Local Arguments N.min : simpl never.
Local Arguments N.max : simpl never.
Local Arguments N.to_nat : simpl never.
Local Arguments N.of_nat : simpl never.
Local Open Scope N_scope.

(* ================================================================== *)
(* 1. The wrapped block in normal mode: splitting a text is invisible   *)
(* ================================================================== *)
Ltac wprj :=
  cbn [wwidth wtext wline spacetag wword wordlen wslen pre_wrapped pad_blocks allow_overflow
       set_line set_text_line set_space set_word set_prew] in *.

Lemma ffl_pw b b' : force_flush_line b = Ok b' -> pre_wrapped b' = pre_wrapped b.
Proof.
  unfold force_flush_line. intros H. bind_inv H l Hl. ok_inv H. reflexivity.
Qed.

Lemma flush_line_pw b b' : flush_line b = Ok b' -> pre_wrapped b' = pre_wrapped b.
Proof.
  unfold flush_line. destruct (tl_is_empty (wline b)); intros H; [ok_inv H; reflexivity|].
  eapply ffl_pw, H.
Qed.

Lemma hw_piece_pw t w : forall fuel b rest consumed ll wp r,
  hw_piece fuel b t w rest consumed ll wp = Ok r -> pre_wrapped (fst r) = pre_wrapped b.
Proof.
  induction fuel as [|f IH]; intros b rest consumed ll wp r H; cbn [hw_piece] in H; [discriminate|].
  bind_inv H rem Hrem. destruct (ll <? rem).
  - bind_inv H sc Hsc. destruct sc as [[taken l'] wpos']. bind_inv H b2 Hb2.
    apply IH in H. rewrite H. apply ffl_pw in Hb2. rewrite Hb2. reflexivity.
  - destruct (negb consumed).
    + bind_inv H l2 Hl2. ok_inv H. reflexivity.
    + destruct rest; [ok_inv H; reflexivity|]. bind_inv H l2 Hl2. ok_inv H. reflexivity.
Qed.

Lemma hw_elems_pw : forall els b ll b',
  hw_elems b els ll = Ok b' -> pre_wrapped b' = pre_wrapped b.
Proof.
  induction els as [|[s t|n] els IH]; intros b ll b' H; cbn [hw_elems] in H.
  - ok_inv H. reflexivity.
  - bind_inv H r Hr. destruct r as [b1 l1]. apply IH in H. rewrite H.
    apply hw_piece_pw in Hr. exact Hr.
  - apply IH in H. rewrite H. reflexivity.
Qed.

Lemma fwhw_pw b b' : flush_word_hard_wrap b = Ok b' -> pre_wrapped b' = pre_wrapped b.
Proof.
  unfold flush_word_hard_wrap. intros H. bind_inv H ll Hll. apply hw_elems_pw in H. exact H.
Qed.

Lemma ws_loop_pw : forall fuel b b', ws_loop fuel b = Ok b' -> pre_wrapped b' = pre_wrapped b.
Proof.
  induction fuel as [|f IH]; intros b b' H; cbn [ws_loop] in H.
  - destruct (wslen b =? 0); [ok_inv H; reflexivity|discriminate].
  - destruct (wslen b =? 0); [ok_inv H; reflexivity|].
    destruct (wwidth b =? 0); [ok_inv H; reflexivity|].
    destruct (spacetag b) as [st|]; [|discriminate].
    bind_inv H b2 Hb2. apply IH in H. rewrite H. wprj.
    destruct (N.min (wslen b) (wwidth b) =? wwidth b).
    + apply flush_line_pw in Hb2. exact Hb2.
    + ok_inv Hb2. reflexivity.
Qed.

Lemma flush_word_normal_pw b b' :
  flush_word b WsNormal = Ok b' -> pre_wrapped b' = pre_wrapped b.
Proof.
  unfold flush_word. destruct (word_is_empty (wword b)); intros H; [ok_inv H; reflexivity|].
  bind_inv H sil Hsil. destruct (wslen b + wordlen b <=? sil).
  - bind_inv H b1 Hb1. ok_inv H. wprj.
    destruct (0 <? wslen b); [|ok_inv Hb1; reflexivity].
    destruct (spacetag b); [|discriminate]. ok_inv Hb1. reflexivity.
  - cbn [do_wrap negb is_pre] in H. bind_inv H b1 Hb1. ok_inv Hb1.
    bind_inv H b2 Hb2. bind_inv H b4 Hb4. bind_inv H b6 Hb6. ok_inv H. wprj.
    apply fwhw_pw in Hb6. rewrite Hb6. wprj. apply ws_loop_pw in Hb4. rewrite Hb4.
    apply flush_line_pw in Hb2. exact Hb2.
Qed.

Lemma add_char_normal_pw t1 t2 b u c b' u' :
  add_char WsNormal t1 t2 (b, u) c = Ok (b', u') -> u' = u /\ pre_wrapped b' = pre_wrapped b.
Proof.
  unfold add_char. intros H. bind_inv H b1 Hb1.
  assert (E1 : pre_wrapped b1 = pre_wrapped b).
  { destruct (ws c && (0 <? wordlen b)); [eapply flush_word_normal_pw, Hb1|ok_inv Hb1; reflexivity]. }
  cbn [preserve_ws is_pre andb] in H. destruct (ws c).
  - destruct ((0 <? tlen_ (wline b1)) && (wslen b1 =? 0)); ok_inv H; auto.
  - destruct (cw c); ok_inv H; cbn [orb]; rewrite ?orb_false_r; auto.
Qed.

Lemma add_chars_normal_pw t1 t2 : forall s b u b' u',
  add_chars WsNormal t1 t2 (b, u) s = Ok (b', u') -> u' = u /\ pre_wrapped b' = pre_wrapped b.
Proof.
  induction s as [|c s IH]; intros b u b' u' H; cbn [add_chars] in H.
  - ok_inv H. auto.
  - bind_inv H st Hst. destruct st as [b1 u1]. apply add_char_normal_pw in Hst.
    apply IH in H. destruct Hst as [-> E1], H as [-> E2]. split; congruence.
Qed.

Lemma add_chars_app m t1 t2 : forall x y st,
  add_chars m t1 t2 st (x ++ y) = do st' <- add_chars m t1 t2 st x; add_chars m t1 t2 st' y.
Proof.
  induction x as [|c x IH]; intros y st; cbn [app add_chars bind]; [reflexivity|].
  destruct (add_char m t1 t2 st c); cbn [bind]; auto.
Qed.

(* the split of a text over two calls is invisible *)
Lemma wb_add_text_app b x y t1 t2 :
  wb_add_text b (x ++ y) WsNormal t1 t2 =
  do b1 <- wb_add_text b x WsNormal t1 t2; wb_add_text b1 y WsNormal t1 t2.
Proof.
  unfold wb_add_text. rewrite add_chars_app.
  destruct (add_chars WsNormal t1 t2 (b, pre_wrapped b) x) as [[b1 u1]| | |] eqn:E; cbn [bind fst];
    try reflexivity.
  apply add_chars_normal_pw in E. destruct E as [-> E]. rewrite E. reflexivity.
Qed.

(* whitespace at the start of an empty block is dropped *)
Lemma add_chars_ws_fresh t1 t2 : forall s b u,
  wordlen b = 0 -> tlen_ (wline b) = 0 -> all_ws s = true ->
  add_chars WsNormal t1 t2 (b, u) s = Ok (b, u).
Proof.
  induction s as [|c s IH]; intros b u Hw Hl Hs; cbn [add_chars]; [reflexivity|].
  unfold all_ws in Hs. cbn [forallb] in Hs. apply andb_true_iff in Hs. destruct Hs as [Hc Hs].
  unfold add_char. rewrite Hc, Hw. replace (0 <? 0) with false by reflexivity.
  cbn [andb bind preserve_ws]. rewrite Hl. replace (0 <? 0) with false by reflexivity.
  cbn [andb bind]. apply IH; assumption.
Qed.

Lemma wb_add_text_ws_fresh b x y t1 t2 :
  wordlen b = 0 -> tlen_ (wline b) = 0 -> all_ws x = true ->
  wb_add_text b (x ++ y) WsNormal t1 t2 = wb_add_text b y WsNormal t1 t2.
Proof.
  intros Hw Hl Hx. unfold wb_add_text. rewrite add_chars_app, (add_chars_ws_fresh _ _ _ _ _ Hw Hl Hx).
  reflexivity.
Qed.

(* ---- the strikeout filter ---- *)
Lemma filter_strikeout_app x y : filter_strikeout (x ++ y) = filter_strikeout x ++ filter_strikeout y.
Proof. unfold filter_strikeout. apply flat_map_app. Qed.

Lemma apply_filters_app : forall n x y, apply_filters n (x ++ y) = apply_filters n x ++ apply_filters n y.
Proof.
  induction n as [|n IH]; intros x y; cbn [apply_filters]; [reflexivity|].
  rewrite filter_strikeout_app. apply IH.
Qed.

Lemma filter_strikeout_ws : forall x, all_ws x = true -> filter_strikeout x = x.
Proof.
  unfold filter_strikeout, all_ws. induction x as [|c x IH]; intros H; [reflexivity|].
  cbn [forallb] in H. apply andb_true_iff in H. destruct H as [Hc Hx].
  cbn [flat_map]. rewrite Hc. cbn [negb andb app]. f_equal. apply IH, Hx.
Qed.

Lemma apply_filters_ws : forall n x, all_ws x = true -> apply_filters n x = x.
Proof.
  induction n as [|n IH]; intros x H; cbn [apply_filters]; [reflexivity|].
  rewrite (filter_strikeout_ws x H). apply IH, H.
Qed.

(* ================================================================== *)
(* 2. The sub-renderer: add_inline_text of a concatenation              *)
(* ================================================================== *)
Ltac sprj' :=
  cbn [swidth_ sopts slines pending_frags at_block_end wrapping ann_stack filter_depth pre_depth
       ws_stack set_lines set_abe set_wrapping set_ann set_filter set_pre_depth set_ws_stack] in *.

Lemma ds_add_line_wr s l : wrapping (add_line s l) = wrapping s /\
                           at_block_end (add_line s l) = at_block_end s.
Proof. unfold add_line. destruct (pending_frags s); destruct l; sprj'; auto. Qed.

Lemma ds_extend_lines_wr ls : forall s, wrapping (extend_lines s ls) = wrapping s.
Proof.
  unfold extend_lines. induction ls as [|l ls IH]; intros s; cbn [fold_left]; [reflexivity|].
  rewrite IH. apply ds_add_line_wr.
Qed.

Lemma ds_flush_wr s s' : flush_wrapping s = Ok s' -> wrapping s' = None.
Proof.
  unfold flush_wrapping. destruct (wrapping s) as [w|] eqn:E.
  - destruct (take_trailing_fragments w) as [w1 frags]. intros H. bind_inv H lm Hlm. ok_inv H.
    sprj'. rewrite ds_extend_lines_wr. reflexivity.
  - intros H. ok_inv H. exact E.
Qed.

Lemma ds_start_block_wr s s' :
  start_block s = Ok s' -> wrapping s' = None /\ at_block_end s' = false.
Proof.
  unfold start_block. intros H. bind_inv H s1 H1. bind_inv H s2 H2. ok_inv H. sprj'.
  split; [|reflexivity]. apply ds_flush_wr in H1.
  destruct (existsb rline_has_content (slines s1)).
  - unfold add_empty_line in H2. bind_inv H2 s3 H3. ok_inv H2. sprj'.
    rewrite (proj1 (ds_add_line_wr _ _)). eapply ds_flush_wr, H3.
  - ok_inv H2. exact H1.
Qed.

Lemma all_ws_app x y : all_ws (x ++ y) = all_ws x && all_ws y.
Proof. unfold all_ws. apply forallb_app. Qed.

(* the tail of add_inline_text, as a function of the sub-renderer after start_block *)
Definition ait_body (d : deco) (s1 : subr) (t : text) : res subr :=
  do w1 <- wb_add_text (get_wrapping s1) (apply_filters (filter_depth s1) t) (ws_mode s1)
             (if 0 <? pre_depth s1 then ann_stack s1 ++ [d_pre_first d] else ann_stack s1)
             (if 0 <? pre_depth s1 then ann_stack s1 ++ [d_pre_cont d] else ann_stack s1);
  Ok (set_wrapping s1 (Some w1)).

Lemma ait_unf d s t :
  add_inline_text d s t =
  if negb (preserve_ws (ws_mode s)) && at_block_end s && all_ws t then Ok s else
  do s1 <- (if at_block_end s then start_block s else Ok s); ait_body d s1 t.
Proof. reflexivity. Qed.

(* in normal white-space mode two consecutive texts act as their concatenation *)
Lemma ait_app d s x y :
  ws_stack s = [] ->
  add_inline_text d s (x ++ y) = do s1 <- add_inline_text d s x; add_inline_text d s1 y.
Proof.
  intros Hw.
  assert (Kbody : forall s1, ws_stack s1 = [] -> at_block_end s1 = false ->
            ait_body d s1 (x ++ y) = do s2 <- ait_body d s1 x; add_inline_text d s2 y).
  { intros s1 Hw1 Ha1. unfold ait_body, ws_mode. rewrite Hw1, apply_filters_app, wb_add_text_app.
    destruct (wb_add_text (get_wrapping s1) (apply_filters (filter_depth s1) x) WsNormal _ _)
      as [w1| | |]; cbn [bind]; try reflexivity.
    rewrite ait_unf. unfold ait_body, ws_mode, get_wrapping, set_wrapping. sprj'.
    rewrite Hw1, Ha1. cbn [preserve_ws negb andb bind]. reflexivity. }
  assert (Kws : forall s1, ws_stack s1 = [] -> wrapping s1 = None -> all_ws x = true ->
            ait_body d s1 (x ++ y) = ait_body d s1 y).
  { intros s1 Hw1 Hn Hx. unfold ait_body, ws_mode. rewrite Hw1, apply_filters_app.
    rewrite (apply_filters_ws _ x Hx). rewrite wb_add_text_ws_fresh; [reflexivity| | |exact Hx];
      unfold get_wrapping; rewrite Hn; reflexivity. }
  rewrite (ait_unf d s (x ++ y)), (ait_unf d s x). unfold ws_mode. rewrite Hw.
  cbn [preserve_ws negb andb]. rewrite all_ws_app.
  destruct (at_block_end s) eqn:Ha; cbn [andb].
  - destruct (all_ws x) eqn:Hx; cbn [andb bind].
    + (* the first text is dropped *)
      rewrite ait_unf. unfold ws_mode. rewrite Hw, Ha. cbn [preserve_ws negb andb].
      destruct (all_ws y); [reflexivity|].
      destruct (start_block s) as [s1| | |] eqn:E; cbn [bind]; try reflexivity.
      apply Kws; [|apply (ds_start_block_wr _ _ E)|reflexivity].
      rewrite (km_ws _ _ (km_start_block _ _ E)). exact Hw.
    + destruct (start_block s) as [s1| | |] eqn:E; cbn [bind]; try reflexivity.
      apply Kbody; [|apply (ds_start_block_wr _ _ E)].
      rewrite (km_ws _ _ (km_start_block _ _ E)). exact Hw.
  - cbn [bind]. apply Kbody; assumption.
Qed.

(* ================================================================== *)
(* 3. Signature trees                                                   *)
(* ================================================================== *)
(* A style is NEUTRAL when applying it does nothing: no colour, no background, no preserving
   white-space mode, not a <pre> element.  (display and the pseudo-element contents are not read
   by the renderer.)  cstyle0 -- the style of every text node and of a bare <span> that no rule
   matches -- is neutral. *)
Definition neutral (s : cstyle) : bool :=
  match ws_val (c_colour (cs_core s)), ws_val (c_bg (cs_core s)), wsm_of s with
  | None, None, None => negb (cs_internal_pre s)
  | _, _, _ => false
  end.

Inductive wkind :=
| WCont | WEm | WStrong | WStrike | WCode | WBlock | WDiv | WDl | WDt | WSup | WLink (h : text).
Inductive lkind := LText (t : text) | LImg (src title : text) | LBreak | LFrag (n : text) | LBad.
Inductive pkind := PHeader (lvl : N) | PQuote | PDd.
Inductive ikind := QUl | QOl (start : Z).

(* What the renderer reads of a render tree:
   - SText: a maximal run of neutral text (adjacent neutral text nodes are concatenated, neutral
     containers are dissolved into their parent's list);
   - imin: the minimum inner width of a block with a prefix (from the size estimate of its children);
   - the estimate of every table cell;
   - <sup> over a sole all-digit text child is the text of the superscript digits. *)
Inductive snode :=
| SText (t : text)
| SLeaf (k : lkind) (s : cstyle)
| SWrap (k : wkind) (s : cstyle) (l : list snode)
| SPre (k : pkind) (s : cstyle) (imin : N) (l : list snode)
| SList (k : ikind) (s : cstyle) (imin : N) (items : list snode)
| STable (s : cstyle) (rows : list srow) (ncols : N)
with srow := SRow (cells : list scell) (s : cstyle)
with scell := SCell (colspan : N) (e : est) (content : list snode) (s : cstyle).

Definition splice (x : snode) : list snode :=
  match x with
  | SWrap WCont s l => if neutral s then l else [x]
  | _ => [x]
  end.

Fixpoint merge (l : list snode) : list snode :=
  match l with
  | [] => []
  | SText t :: l' =>
    match merge l' with
    | SText u :: r => SText (t ++ u) :: r
    | m => SText t :: m
    end
  | x :: l' => x :: merge l'
  end.

Definition glue (xs : list snode) : list snode := merge (flat_map splice xs).

Definition stext (s : cstyle) (t : text) : snode := if neutral s then SText t else SLeaf (LText t) s.

Section Sig.
  (* the size estimate of a list of children (total) *)
  Variable E : list rnode -> est.

  Fixpoint sgn (n : rnode) : snode :=
    let sgns (cs : list rnode) := glue (map sgn cs) in
    let scell (c : rcell) := match c with RCell k cs s => SCell k (E cs) (sgns cs) s end in
    let srow (r : rrow) := match r with RRow cells s => SRow (map scell cells) s end in
    match n with
    | RN i s =>
      match i with
      | IText t => stext s t
      | IContainer cs => SWrap WCont s (sgns cs)
      | ILink h cs => SWrap (WLink h) s (sgns cs)
      | IEm cs => SWrap WEm s (sgns cs)
      | IStrong cs => SWrap WStrong s (sgns cs)
      | IStrikeout cs => SWrap WStrike s (sgns cs)
      | ICode cs => SWrap WCode s (sgns cs)
      | IImg a b => SLeaf (LImg a b) s
      | IBlock cs | IListItem cs => SWrap WBlock s (sgns cs)
      | IHeader l cs => SPre (PHeader l) s (e_min (E cs)) (sgns cs)
      | IDiv cs => SWrap WDiv s (sgns cs)
      | IBlockQuote cs => SPre PQuote s (e_min (E cs)) (sgns cs)
      | IUl cs => SList QUl s (e_min (E cs)) (map sgn cs)
      | IOl z cs => SList (QOl z) s (e_min (E cs)) (map sgn cs)
      | IDl cs => SWrap WDl s (sgns cs)
      | IDt cs => SWrap WDt s (sgns cs)
      | IDd cs => SPre PDd s (e_min (E cs)) (sgns cs)
      | IBreak => SLeaf LBreak s
      | ITable rows nc => STable s (map srow rows) nc
      | ITableBody _ | ITableRow _ | ITableCell _ => SLeaf LBad s
      | IFragStart nm => SLeaf (LFrag nm) s
      | ISup cs =>
        match sup_digits cs with
        | Some ds => stext s ds
        | None => SWrap WSup s (sgns cs)
        end
      end
    end.

  Definition sgns (cs : list rnode) : list snode := glue (map sgn cs).
  Definition sgn_cell (c : rcell) : scell :=
    match c with RCell k cs s => SCell k (E cs) (sgns cs) s end.
  Definition sgn_row (r : rrow) : srow :=
    match r with RRow cells s => SRow (map sgn_cell cells) s end.
End Sig.

(* ================================================================== *)
(* 4. The renderer on signature trees                                   *)
(* ================================================================== *)
Definition srow_cells (r : srow) : list scell := match r with SRow c _ => c end.
Definition scell_colspan (c : scell) : N := match c with SCell n _ _ _ => n end.
Definition scell_est (c : scell) : est := match c with SCell _ e _ _ => e end.

Section Run.
  Variable d : deco.

  Definition pre_op (k : wkind) (st : rstate) : res rstate :=
    match k with
    | WCont => Ok st
    | WEm => with_top st (start_emphasis d)
    | WStrong => with_top st (start_strong d)
    | WStrike => with_top st (start_strikeout d)
    | WCode => with_top st (start_code d)
    | WBlock | WDl => with_top st start_block
    | WDiv => with_top st new_line
    | WDt => do st1 <- with_top st new_line; with_top st1 (start_emphasis d)
    | WSup => with_top st (start_superscript d)
    | WLink h => with_top (mkrst (stack st) (links st ++ [h])) (fun s => sub_start_link d s h)
    end.

  Definition post_op (k : wkind) (st : rstate) : res rstate :=
    match k with
    | WCont | WDl => Ok st
    | WEm | WDt => with_top st (end_emphasis d)
    | WStrong => with_top st (end_strong d)
    | WStrike => with_top st (end_strikeout d)
    | WCode => with_top st (end_code d)
    | WBlock => with_top' st end_block
    | WDiv => with_top st new_line
    | WSup => with_top st (end_superscript d)
    | WLink h =>
      do st4 <- with_top st (fun s => sub_end_link d s);
      do tp <- top st4;
      if o_footnotes (sopts tp)
      then inline_text d st4 (ftext ([91] ++ dec_N (N.of_nat (length (links st4))) ++ [93]))
      else Ok st4
    end.

  Definition leaf_op (k : lkind) (st : rstate) : res rstate :=
    match k with
    | LText t => inline_text d st t
    | LImg src title => with_top st (fun s => add_image d s src title)
    | LBreak => with_top st new_line_hard
    | LFrag name => with_top' st (fun s => record_frag_start s name)
    | LBad => Panic 60
    end.

  Definition pk_prefix (k : pkind) : text :=
    match k with
    | PHeader level => d_header_prefix d level
    | PQuote => d_quote_prefix d
    | PDd => ptext [32; 32]
    end.
  Definition pk_plen (k : pkind) : N :=
    match k with PDd => 2 | _ => swidth (pk_prefix k) end.

  Fixpoint srun (x : snode) (st0 : rstate) {struct x} : res rstate :=
    let sruns (l : list snode) (st : rstate) : res rstate :=
        fold_left (fun acc c => do s <- acc; srun c s) l (Ok st) in
    match x with
    | SText t => inline_text d st0 t
    | SLeaf k s =>
      do ap <- apply_style d st0 s;
      let '(st, p) := ap in
      do st1 <- leaf_op k st; unwind d p st1
    | SWrap k s l =>
      do ap <- apply_style d st0 s;
      let '(st, p) := ap in
      do st1 <- pre_op k st;
      do st2 <- sruns l st1;
      do st3 <- post_op k st2; unwind d p st3
    | SPre k s imin l =>
      do ap <- apply_style d st0 s;
      let '(st, p) := ap in
      let prefix := pk_prefix k in
      do tp <- top st;
      do w <- width_minus tp (pk_plen k) imin;
      do st2 <- sruns l (push_sub st (new_sub_renderer tp w));
      do pp <- pop_sub st2;
      let '(sub, st3) := pp in
      match k with
      | PDd => do st4 <- with_top st3 (fun s => append_subrender s sub prefix prefix); unwind d p st4
      | _ => do st4 <- with_top st3 start_block;
             do st5 <- with_top st4 (fun s => append_subrender s sub prefix prefix);
             do st6 <- with_top' st5 end_block; unwind d p st6
      end
    | SList QUl s imin items =>
      do ap <- apply_style d st0 s;
      let '(st, p) := ap in
      let prefix := d_ul_prefix d in
      let plen := swidth prefix in
      let indent := repeat_chr (spacel L_prefix) (N.to_nat plen) in
      do st1 <- fold_left
           (fun acc item =>
              do s <- acc;
              do tp <- top s;
              do w <- width_minus tp plen imin;
              do s2 <- srun item (push_sub s (new_sub_renderer tp w));
              do pp <- pop_sub s2;
              let '(sub, s3) := pp in
              with_top s3 (fun t => append_subrender t sub prefix indent))
           items (Ok st);
      unwind d p st1
    | SList (QOl start) s imin items =>
      do ap <- apply_style d st0 s;
      let '(st, p) := ap in
      let sn := isat64 (start + Z.of_nat (length items)) in
      let max_number := isat64 (sn - 1) in
      let prefix_width := N.max (swidth (d_ol_prefix d start)) (swidth (d_ol_prefix d max_number)) in
      let prefixn := pad_chars [] prefix_width in
      do r <- fold_left
           (fun acc item =>
              do si <- acc;
              let '(s, i) := si in
              do tp <- top s;
              do w <- width_minus tp prefix_width imin;
              do s2 <- srun item (push_sub s (new_sub_renderer tp w));
              do pp <- pop_sub s2;
              let '(sub, s3) := pp in
              let prefix1 := pad_width (d_ol_prefix d i) prefix_width in
              do s4 <- with_top s3 (fun t => append_subrender t sub prefix1 prefixn);
              Ok (s4, isat64 (i + 1)))
           items (Ok (st, start));
      unwind d p (fst r)
    | STable s rows ncols =>
      do ap <- apply_style d st0 s;
      let '(st, pushed_style) := ap in
      let row_step (sizes : list est) (r : srow) : res (list est) :=
          do res_ <- fold_left
               (fun acc c =>
                  do a <- acc;
                  let '(sz_, colno) := a in
                  let ce := scell_est c in
                  let cspan := scell_colspan c in
                  if cspan =? 0 then Panic 33 else
                  let e := mkest (e_size ce / cspan) (e_min ce / cspan) (e_prefix ce) in
                  match upd_range sz_ (N.to_nat colno) (N.to_nat cspan) (fun s => est_max s e) with
                  | Some sz' => Ok (sz', colno + cspan)
                  | None => Panic 31
                  end)
               (srow_cells r) (Ok (sizes, 0));
          Ok (fst res_) in
      do col_sizes <- fold_left (fun acc r => do s <- acc; row_step s r) rows
                                (Ok (repeat est0 (N.to_nat ncols)));
      let tot_size := sumN (map e_size col_sizes) in
      let min_size := sumN (map e_min col_sizes) + (N.of_nat (length col_sizes) - 1) in
      do tp <- top st;
      let width := swidth_ tp in
      let vert_row := o_raw (sopts tp) || ((width <? min_size) || (width =? 0)) in
      do col_widths <-
         (if negb vert_row
          then
            let ws0 := map (col_width_of width tot_size) col_sizes in
            match ws0 with
            | [] => Ok ws0
            | _ => shrink_loop (S (N.to_nat (sumN ws0))) width (map e_min col_sizes) ws0
            end
          else Ok (map (fun _ => width) col_sizes));
      let table_width :=
          if vert_row then width
          else sumN col_widths + (N.of_nat (length (filter (fun w => 0 <? w) col_widths)) - 1) in
      do st1 <- with_top st start_block;
      do st2 <- (if negb (table_width =? 0) && o_borders (sopts tp)
                 then with_top st1 (fun s => add_horizontal_border_width s table_width)
                 else Ok st1);
      do st_rows <- fold_left
        (fun acc r =>
           do s <- acc;
           match r with
           | SRow rcells rstyle =>
             do apr <- apply_style d s rstyle;
             let '(s1, prow) := apr in
             do cws <- cell_widths vert_row col_widths
                         (map (fun c => RCell (scell_colspan c) [] cstyle0) rcells) 0;
             do rr <- (fix cells_loop (cells : list scell) (wsl : list (option N))
                           (s2 : rstate) (subs : list subr) {struct cells}
                        : res (rstate * list subr) :=
                         match cells, wsl with
                         | SCell _ _ content cstyle_ :: cells', Some w :: wsl' =>
                           do tp2 <- top s2;
                           let s3 := push_sub s2 (new_sub_renderer tp2 w) in
                           do apc <- apply_style d s3 cstyle_;
                           let '(s4, pcell) := apc in
                           do s5 <- sruns content s4;
                           do s6 <- unwind d pcell s5;
                           do pp <- pop_sub s6;
                           let '(sub, s7) := pp in
                           cells_loop cells' wsl' s7 (subs ++ [sub])
                         | _ :: cells', None :: wsl' => cells_loop cells' wsl' s2 subs
                         | _, _ => Ok (s2, subs)
                         end) rcells cws s1 [];
             let '(s8, subs) := rr in
             do s9 <- (if vert_row
                       then with_top s8 (fun t => append_vert_row t subs)
                       else if existsb (fun c => negb (sub_empty c)) subs
                            then with_top s8 (fun t => append_columns_with_borders t subs true)
                            else Ok s8);
             unwind d prow s9
           end)
        rows (Ok st2);
      unwind d pushed_style st_rows
    end.

  Definition sruns (l : list snode) (st : rstate) : res rstate :=
    fold_left (fun acc c => do s <- acc; srun c s) l (Ok st).
End Run.

(* ================================================================== *)
(* 5. Monadic folds                                                     *)
(* ================================================================== *)
Lemma bind_ext_ok {A B} (e : res A) (k1 k2 : A -> res B) :
  (forall a, e = Ok a -> k1 a = k2 a) -> bind e k1 = bind e k2.
Proof. intros H. destruct e; cbn [bind]; auto. Qed.

Lemma bind_ret {A} (e : res A) : (do x <- e; Ok x) = e.
Proof. destruct e; reflexivity. Qed.

Lemma bind_assoc {A B C} (e : res A) (f : A -> res B) (g : B -> res C) :
  (do y <- (do x <- e; f x); g y) = (do x <- e; do y <- f x; g y).
Proof. destruct e; reflexivity. Qed.

Lemma mfold_fail {A B} (f : B -> A -> res A) (l : list B) (e : res A) :
  (forall a, e <> Ok a) -> fold_left (fun acc b => do s <- acc; f b s) l e = e.
Proof.
  revert e. induction l as [|b l IH]; intros e He; cbn [fold_left]; [reflexivity|].
  destruct e as [a| | |]; [exfalso; eapply He; reflexivity| | |]; cbn [bind]; apply IH; discriminate.
Qed.

Lemma mfold_cons {A B} (f : B -> A -> res A) (x : B) (l : list B) (a : A) :
  fold_left (fun acc b => do s <- acc; f b s) (x :: l) (Ok a) =
  do a1 <- f x a; fold_left (fun acc b => do s <- acc; f b s) l (Ok a1).
Proof.
  cbn [fold_left bind]. destruct (f x a); cbn [bind]; try reflexivity; apply mfold_fail; discriminate.
Qed.

Lemma mfold_app {A B} (f : B -> A -> res A) (l1 l2 : list B) : forall a,
  fold_left (fun acc b => do s <- acc; f b s) (l1 ++ l2) (Ok a) =
  do a1 <- fold_left (fun acc b => do s <- acc; f b s) l1 (Ok a);
  fold_left (fun acc b => do s <- acc; f b s) l2 (Ok a1).
Proof.
  induction l1 as [|x l1 IH]; intros a; [reflexivity|].
  cbn [app]. rewrite !mfold_cons. destruct (f x a); cbn [bind]; auto.
Qed.

(* two monadic folds agree when their steps agree on the states that satisfy an invariant *)
Lemma mfold_ext_inv {A B C} (I : A -> Prop) (f : B -> A -> res A) (g : C -> A -> res A) (h : B -> C) :
  forall l a, I a ->
  (forall b, In b l -> forall a, I a -> f b a = g (h b) a /\ (forall a', f b a = Ok a' -> I a')) ->
  fold_left (fun acc b => do s <- acc; f b s) l (Ok a) =
  fold_left (fun acc c => do s <- acc; g c s) (map h l) (Ok a).
Proof.
  induction l as [|b l IH]; intros a Ha Hs; [reflexivity|].
  cbn [map]. rewrite !mfold_cons. destruct (Hs b (or_introl eq_refl) a Ha) as [E Hp]. rewrite <- E.
  apply bind_ext_ok. intros a1 E1. apply IH; [apply Hp, E1|]. intros b' Hb'. apply Hs. right. exact Hb'.
Qed.

(* ================================================================== *)
(* 6. Normal white-space mode is kept (from the simulation of SimRel)   *)
(* ================================================================== *)
(* the top sub-renderer is in normal mode; r = the rest of the stack *)
Definition invr (r : list subr) (a : rstate) : Prop :=
  exists s, stack a = s :: r /\ ws_stack s = [].

Lemma invr_GSt r a : invr r a -> GSt SRB r r a a.
Proof.
  intros (s & E & Hw). split; [reflexivity|]. exists s, s. repeat split; assumption.
Qed.

Lemma GSt_invr r a b : GSt SRB r r a b -> invr r a.
Proof. intros (_ & s1 & s2 & E1 & _ & _ & Hw). exists s1. auto. Qed.

Lemma rs_invr r (e : res rstate) a' : rs MStrict (GSt SRB r r) e e -> e = Ok a' -> invr r a'.
Proof. intros H ->. cbn [rs] in H. eapply GSt_invr, H. Qed.

Section Keep.
  Variables (d : deco) (mw : N).
  Let ops := SRB_ops d mw.

  Lemma inv_with_top r f a a' :
    gop MStrict SRB f -> invr r a -> with_top a f = Ok a' -> invr r a'.
  Proof.
    intros Hf Hi. apply rs_invr. apply g_with_top; [exact Hf|apply invr_GSt, Hi].
  Qed.

  Lemma inv_with_top' r g a a' :
    pureR SRB g -> invr r a -> with_top' a g = Ok a' -> invr r a'.
  Proof.
    intros Hg. apply inv_with_top. intros x y Hxy. cbn [rs]. apply Hg, Hxy.
  Qed.

  Lemma inv_apply_style r s a a' p :
    SOKB s -> invr r a -> apply_style d a s = Ok (a', p) -> invr r a'.
  Proof.
    intros Hs Hi E.
    pose proof (g_apply_style MStrict d mw SRB TIB SOKB ops r r s a a Hs (invr_GSt _ _ Hi)) as H.
    rewrite E in H. cbn [rs fst] in H. eapply GSt_invr, (proj1 H).
  Qed.

  Lemma inv_inline r t a a' : invr r a -> inline_text d a t = Ok a' -> invr r a'.
  Proof.
    intros Hi. apply rs_invr. apply (g_inline_same MStrict d mw SRB TIB SOKB ops), invr_GSt, Hi.
  Qed.

  Lemma inv_render r n a a' :
    tree_ok n = true -> invr r a -> render_node d mw n a = Ok a' -> invr r a'.
  Proof.
    intros Hok Hi E.
    pose proof (gnode_all MStrict d mw SRB TIB SOKB ops n (norm_tree n) (trel_norm n Hok)
                          r r a a (invr_GSt _ _ Hi)) as H.
    rewrite E in H. cbn [rs] in H. destruct (render_node d mw (norm_tree n) a); try contradiction.
    eapply GSt_invr, H.
  Qed.

  Lemma inv_top r a tp : invr r a -> top a = Ok tp -> stack a = tp :: r /\ ws_stack tp = [].
  Proof. intros (s & E & Hw). unfold top. rewrite E. intros H. ok_inv H. auto. Qed.

  Lemma inv_push r a tp w :
    stack a = tp :: r -> ws_stack tp = [] -> invr (tp :: r) (push_sub a (new_sub_renderer tp w)).
  Proof. intros E Hw. exists (new_sub_renderer tp w). cbn [push_sub stack]. rewrite E. auto. Qed.

  Lemma inv_pop r tp a sub a' :
    invr (tp :: r) a -> ws_stack tp = [] -> pop_sub a = Ok (sub, a') -> invr r a'.
  Proof.
    intros (s & E & Hw) Ht. unfold pop_sub. rewrite E. intros H. ok_inv H.
    exists tp. cbn [stack]. auto.
  Qed.
End Keep.

(* ================================================================== *)
(* 7. render_node factors through the signature                         *)
(* ================================================================== *)
Definition pushed0 : pushed := mkpushed false false false false.

Lemma apply_style_neutral d st s : neutral s = true -> apply_style d st s = Ok (st, pushed0).
Proof.
  unfold neutral, apply_style, wsm_of.
  destruct (ws_val (c_colour (cs_core s))); [discriminate|].
  destruct (ws_val (c_bg (cs_core s))); [discriminate|].
  destruct (ws_val (c_white_space (cs_core s))) as [[| |]|]; try discriminate;
    intros H; apply negb_true_iff in H; rewrite H; reflexivity.
Qed.

Lemma unwind0 d st : unwind d pushed0 st = Ok st.
Proof. reflexivity. Qed.

Lemma neutral_SOKB s : neutral s = true -> SOKB s.
Proof.
  unfold neutral, SOKB. destruct (ws_val (c_colour (cs_core s))); [discriminate|].
  destruct (ws_val (c_bg (cs_core s))); [discriminate|]. destruct (wsm_of s); [discriminate|reflexivity].
Qed.

Section Factor.
  Variables (d : deco) (mw : N).

  (* the estimate of a list of children; total (est0 when the estimate fails, which the side
     condition `eok` excludes) *)
  Definition Ek (cs : list rnode) : est :=
    match est_kids d mw cs with Ok e => e | _ => est0 end.

  Notation sg := (sgn Ek).
  Notation sgs := (sgns Ek).
  Notation rn_ := (srun d).
  Notation rns := (sruns d).

  Lemma sruns_cons x l a : rns (x :: l) a = do a1 <- rn_ x a; rns l a1.
  Proof. unfold sruns. apply (mfold_cons (fun c s => srun d c s)). Qed.

  Lemma sruns_app l1 l2 a : rns (l1 ++ l2) a = do a1 <- rns l1 a; rns l2 a1.
  Proof. unfold sruns. apply (mfold_app (fun c s => srun d c s)). Qed.

  Lemma sruns_nil a : rns [] a = Ok a.
  Proof. reflexivity. Qed.

  Lemma srun_wrap k s l a :
    rn_ (SWrap k s l) a =
    do ap <- apply_style d a s;
    let '(st, p) := ap in
    do st1 <- pre_op d k st; do st2 <- rns l st1; do st3 <- post_op d k st2; unwind d p st3.
  Proof. reflexivity. Qed.

  Lemma srun_splice x a : rns (splice x) a = rn_ x a.
  Proof.
    assert (K : rns [x] a = rn_ x a) by (rewrite sruns_cons; cbn [sruns fold_left]; apply bind_ret).
    destruct x as [t|k s|k s l|k s i l|k s i l|s rows nc]; try exact K.
    destruct k; try exact K. cbn [splice]. destruct (neutral s) eqn:En; [|exact K].
    rewrite srun_wrap, (apply_style_neutral d a s En). cbn [bind pre_op post_op].
    rewrite <- (bind_ret (rns l a)) at 1. apply bind_ext_ok. intros; reflexivity.
  Qed.

  Lemma sruns_flat_splice : forall xs a,
    rns (flat_map splice xs) a = rns xs a.
  Proof.
    induction xs as [|x xs IH]; intros a; [reflexivity|].
    cbn [flat_map]. rewrite sruns_app, sruns_cons, srun_splice. apply bind_ext_ok. intros; apply IH.
  Qed.

  (* running an element keeps the normal mode of the top sub-renderer *)
  Definition pres (x : snode) : Prop := forall r a a', invr r a -> rn_ x a = Ok a' -> invr r a'.

  Lemma pres_text t : pres (SText t).
  Proof. intros r a a' Hi H. cbn [srun] in H. eapply (inv_inline d mw); eassumption. Qed.

  Lemma pres_merge : forall l, Forall pres l -> Forall pres (merge l).
  Proof.
    induction l as [|x l IH]; intros HF; [constructor|].
    pose proof (IH (Forall_inv_tail HF)) as Hm.
    destruct x; cbn [merge]; try (constructor; [exact (Forall_inv HF)|exact Hm]).
    destruct (merge l) as [|[u| | | | |] m']; constructor;
      try apply pres_text; try exact Hm. exact (Forall_inv_tail Hm).
  Qed.

  Lemma inline_app r a x y :
    invr r a -> inline_text d a (x ++ y) = do a1 <- inline_text d a x; inline_text d a1 y.
  Proof.
    intros (s & E & Hw). unfold inline_text, with_top. rewrite E, (ait_app d s x y Hw).
    destruct (add_inline_text d s x) as [s1| | |]; cbn [bind stack]; reflexivity.
  Qed.

  (* adjacent texts may be concatenated *)
  Lemma sruns_merge : forall l r a, Forall pres l -> invr r a -> rns (merge l) a = rns l a.
  Proof.
    induction l as [|x l IH]; intros r a HF Hi; [reflexivity|].
    pose proof (Forall_inv HF) as Hx. pose proof (Forall_inv_tail HF) as Hl.
    assert (K : rns (x :: merge l) a = rns (x :: l) a).
    { rewrite !sruns_cons. apply bind_ext_ok. intros a1 E1. apply (IH r); [exact Hl|].
      eapply Hx; eassumption. }
    destruct x; cbn [merge]; try exact K.
    destruct (merge l) as [|[u| | | | |] m'] eqn:Em; try exact K.
    rewrite <- K, (sruns_cons (SText (t ++ u))), (sruns_cons (SText t)). cbn [srun].
    rewrite (inline_app r a t u Hi), bind_assoc. apply bind_ext_ok. intros a1 _.
    rewrite sruns_cons. reflexivity.
  Qed.

  (* ---- the side condition on the estimates: every node of the tree has one ---- *)
  Definition isok {A} (r : res A) : bool := match r with Ok _ => true | _ => false end.

  Fixpoint eok (n : rnode) : bool :=
    let okc (c : rcell) := match c with RCell _ k _ => forallb eok k end in
    let okr (r : rrow) := match r with RRow cells _ => forallb okc cells end in
    isok (est_node d mw n) &&
    match n with
    | RN i _ =>
      match i with
      | IText _ | IImg _ _ | IBreak | IFragStart _ => true
      | IContainer cs | ILink _ cs | IEm cs | IStrong cs | IStrikeout cs | ICode cs | IBlock cs
      | IHeader _ cs | IDiv cs | IBlockQuote cs | IUl cs | IOl _ cs | IDl cs | IDt cs | IDd cs
      | IListItem cs | ISup cs => forallb eok cs
      | ITable rows _ => forallb okr rows
      | ITableBody _ | ITableRow _ | ITableCell _ => true
      end
    end.
  Definition eok_cell (c : rcell) : bool := match c with RCell _ k _ => forallb eok k end.
  Definition eok_row (r : rrow) : bool := match r with RRow cells _ => forallb eok_cell cells end.

  Lemma eok_est n : eok n = true -> exists e, est_node d mw n = Ok e.
  Proof.
    destruct n as [i s]. cbn [eok]. intros H. apply andb_true_iff in H. destruct H as [H _].
    destruct (est_node d mw (RN i s)) as [e| | |]; try discriminate. eauto.
  Qed.

  Lemma est_kids_ok : forall cs, forallb eok cs = true -> exists e, est_kids d mw cs = Ok e.
  Proof.
    intros cs H. unfold est_kids. generalize est0.
    induction cs as [|c cs IH]; intros e0; [cbn [fold_left]; eauto|].
    cbn [forallb] in H. apply andb_true_iff in H. destruct H as [Hc Hcs].
    destruct (eok_est c Hc) as (e & E). cbn [fold_left bind]. rewrite E. cbn [bind]. apply IH, Hcs.
  Qed.

  Lemma Ek_ok cs : forallb eok cs = true -> est_kids d mw cs = Ok (Ek cs).
  Proof. intros H. unfold Ek. destruct (est_kids_ok cs H) as (e & ->). reflexivity. Qed.

  (* ---- the statement proved by induction on the tree ---- *)
  Definition Peq (n : rnode) : Prop :=
    forall r a, invr r a -> render_node d mw n a = rn_ (sg n) a.
  Definition PF (n : rnode) : Prop :=
    tree_ok n = true -> eok n = true -> Peq n /\ Forall pres (splice (sg n)).

  Lemma Peq_pres n : tree_ok n = true -> Peq n -> pres (sg n).
  Proof.
    intros Hok He r a a' Hi H. rewrite <- (He r a Hi) in H. eapply (inv_render d mw); eassumption.
  Qed.

  Lemma kids_eq cs :
    Forall PF cs -> forallb tree_ok cs = true -> forallb eok cs = true ->
    (forall r a, invr r a -> rkids d mw cs a = rns (sgs cs) a) /\ Forall pres (sgs cs).
  Proof.
    intros HF Hok He.
    assert (Hp : Forall pres (flat_map splice (map sg cs))).
    { clear -HF Hok He. induction cs as [|c cs IH]; [constructor|].
      cbn [forallb] in Hok, He. apply andb_true_iff in Hok. apply andb_true_iff in He.
      cbn [map flat_map]. apply Forall_app. split.
      - apply (Forall_inv HF); tauto.
      - apply IH; [exact (Forall_inv_tail HF)|tauto|tauto]. }
    split; [|apply pres_merge, Hp].
    intros r a Hi. unfold sgns, glue. rewrite (sruns_merge _ r a Hp Hi), sruns_flat_splice.
    unfold rkids, sruns.
    apply (mfold_ext_inv (invr r) (fun c s => render_node d mw c s) (fun x s => srun d x s) sg);
      [exact Hi|].
    intros c Hc a0 Hi0. rewrite Forall_forall in HF. rewrite forallb_forall in Hok, He.
    destruct (HF c Hc (Hok c Hc) (He c Hc)) as [Hq _]. split; [apply (Hq r a0 Hi0)|].
    intros a' E. eapply (inv_render d mw); [apply Hok, Hc|exact Hi0|exact E].
  Qed.

  Lemma items_eq cs :
    Forall PF cs -> forallb tree_ok cs = true -> forallb eok cs = true ->
    Forall (fun c => Peq c /\ tree_ok c = true) cs.
  Proof.
    intros HF Hok He. rewrite Forall_forall in *. rewrite forallb_forall in Hok, He.
    intros c Hc. split; [apply (HF c Hc); auto|auto].
  Qed.

  (* ---- leaves ---- *)
  Lemma text_eq s t r a :
    style_no_pre s = true -> invr r a ->
    (do ap <- apply_style d a s; let '(st, p) := ap in do st1 <- inline_text d st t; unwind d p st1) =
    rn_ (stext s t) a.
  Proof.
    intros Hs Hi. unfold stext. destruct (neutral s) eqn:En; [|reflexivity].
    rewrite (apply_style_neutral d a s En). cbn [bind srun]. apply bind_ret.
  Qed.

  (* ---- wrappers ---- *)
  Lemma pre_op_inv k r a a' : invr r a -> pre_op d k a = Ok a' -> invr r a'.
  Proof.
    pose proof (SRB_ops d mw) as ops.
    intros Hi H. destruct k; cbn [pre_op] in H.
    - ok_inv H. exact Hi.
    - eapply inv_with_top; [apply (go_em_s _ _ _ _ _ _ ops)|exact Hi|exact H].
    - eapply inv_with_top; [apply (go_strong_s _ _ _ _ _ _ ops)|exact Hi|exact H].
    - eapply inv_with_top; [apply (go_strike_s _ _ _ _ _ _ ops)|exact Hi|exact H].
    - eapply inv_with_top; [apply (go_code_s _ _ _ _ _ _ ops)|exact Hi|exact H].
    - eapply inv_with_top; [apply (go_start_block _ _ _ _ _ _ ops)|exact Hi|exact H].
    - eapply inv_with_top; [apply (go_new_line _ _ _ _ _ _ ops)|exact Hi|exact H].
    - eapply inv_with_top; [apply (go_start_block _ _ _ _ _ _ ops)|exact Hi|exact H].
    - bind_inv H a1 H1.
      eapply inv_with_top; [apply (go_em_s _ _ _ _ _ _ ops)| |exact H].
      eapply inv_with_top; [apply (go_new_line _ _ _ _ _ _ ops)|exact Hi|exact H1].
    - eapply inv_with_top; [apply (go_sup_s _ _ _ _ _ _ ops)|exact Hi|exact H].
    - eapply inv_with_top; [apply (go_start_link _ _ _ _ _ _ ops)| |exact H].
      destruct Hi as (s & E & Hw). exists s. cbn [stack]. auto.
  Qed.

  Lemma wrap_eq k s cs r a :
    style_no_pre s = true -> invr r a ->
    (forall r' a', invr r' a' -> rkids d mw cs a' = rns (sgs cs) a') ->
    (do ap <- apply_style d a s;
     let '(st, p) := ap in
     do st1 <- pre_op d k st; do st2 <- rkids d mw cs st1; do st3 <- post_op d k st2; unwind d p st3) =
    rn_ (SWrap k s (sgs cs)) a.
  Proof.
    intros Hs Hi HK. rewrite srun_wrap. apply bind_ext_ok. intros [st p] E.
    pose proof (inv_apply_style d mw r s a st p (style_no_pre_ok s Hs) Hi E) as Hi1.
    apply bind_ext_ok. intros st1 E1. rewrite (HK r st1); [reflexivity|].
    eapply pre_op_inv; eassumption.
  Qed.

  (* ---- blocks with a prefix ---- *)
  Lemma inv_pop' r tp a sub a' :
    invr (tp :: r) a -> ws_stack tp = [] -> pop_sub a = Ok (sub, a') ->
    invr r a' /\ ws_stack sub = [].
  Proof.
    intros (s & E & Hw) Ht. unfold pop_sub. rewrite E. intros H. ok_inv H.
    split; [exists tp; cbn [stack]; auto|exact Hw].
  Qed.

  Lemma append_gop sub f r0 : ws_stack sub = [] -> gop MStrict SRB (fun t => append_subrender t sub f r0).
  Proof.
    intros Hw x y Hxy. apply (go_append _ _ _ _ _ _ (SRB_ops d mw)); [exact Hxy|]. split; auto.
  Qed.

  Lemma pre_eq k s cs r a :
    style_no_pre s = true -> invr r a ->
    (forall r' a', invr r' a' -> rkids d mw cs a' = rns (sgs cs) a') ->
    (do ap <- apply_style d a s;
     let '(st, p) := ap in
     do tp <- top st;
     do w <- width_minus tp (pk_plen d k) (e_min (Ek cs));
     do st2 <- rkids d mw cs (push_sub st (new_sub_renderer tp w));
     do pp <- pop_sub st2;
     let '(sub, st3) := pp in
     match k with
     | PDd => do st4 <- with_top st3 (fun s => append_subrender s sub (pk_prefix d k) (pk_prefix d k));
              unwind d p st4
     | _ => do st4 <- with_top st3 start_block;
            do st5 <- with_top st4 (fun s => append_subrender s sub (pk_prefix d k) (pk_prefix d k));
            do st6 <- with_top' st5 end_block; unwind d p st6
     end) =
    rn_ (SPre k s (e_min (Ek cs)) (sgs cs)) a.
  Proof.
    intros Hs Hi HK. cbn [srun]. apply bind_ext_ok. intros [st p] E.
    pose proof (inv_apply_style d mw r s a st p (style_no_pre_ok s Hs) Hi E) as Hi1.
    apply bind_ext_ok. intros tp Etp. destruct (inv_top r st tp Hi1 Etp) as [Es Hw].
    apply bind_ext_ok. intros w Ew.
    fold (sruns d). rewrite (HK (tp :: r)); [reflexivity|]. apply inv_push; assumption.
  Qed.

  Lemma est_prefixed cs pw :
    forallb eok cs = true ->
    (do e <- est_kids d mw cs;
     Ok (mkest (e_size (est_add_hor e (mkest pw pw 0))) (e_min (est_add_hor e (mkest pw pw 0))) pw)) =
    Ok (mkest (e_size (Ek cs) + pw) (e_min (Ek cs) + pw) pw).
  Proof. intros H. rewrite (Ek_ok cs H). reflexivity. Qed.

  Lemma usub_add s m p : usub s (m + p) p = Ok m.
  Proof.
    unfold usub. destruct (N.leb_spec p (m + p)) as [_|Hlt]; [|lia]. f_equal. lia.
  Qed.

  (* ---- lists ---- *)
  Lemma scope_step {C} (item : rnode) r s pl mn (k : subr -> rstate -> res C)
        (Q : C -> Prop) :
    Peq item -> tree_ok item = true -> invr r s ->
    (forall sub s3, ws_stack sub = [] -> invr r s3 -> forall s', k sub s3 = Ok s' -> Q s') ->
    (do tp <- top s; do w <- width_minus tp pl mn;
     do s2 <- render_node d mw item (push_sub s (new_sub_renderer tp w));
     do pp <- pop_sub s2; let '(sub, s3) := pp in k sub s3) =
    (do tp <- top s; do w <- width_minus tp pl mn;
     do s2 <- rn_ (sg item) (push_sub s (new_sub_renderer tp w));
     do pp <- pop_sub s2; let '(sub, s3) := pp in k sub s3) /\
    (forall s', (do tp <- top s; do w <- width_minus tp pl mn;
                 do s2 <- render_node d mw item (push_sub s (new_sub_renderer tp w));
                 do pp <- pop_sub s2; let '(sub, s3) := pp in k sub s3) = Ok s' -> Q s').
  Proof.
    intros Hq Hok Hi HQ. split.
    - apply bind_ext_ok. intros tp Etp. destruct (inv_top r s tp Hi Etp) as [Es Hw].
      apply bind_ext_ok. intros w Ew. rewrite (Hq (tp :: r)); [reflexivity|].
      apply inv_push; assumption.
    - intros s' H. bind_inv H tp Etp. destruct (inv_top r s tp Hi Etp) as [Es Hw].
      bind_inv H w Ew. bind_inv H s2 E2. bind_inv H pp Epp. destruct pp as [sub s3].
      assert (Hi2 : invr (tp :: r) s2).
      { eapply (inv_render d mw); [exact Hok| |exact E2]. apply inv_push; assumption. }
      destruct (inv_pop' r tp s2 sub s3 Hi2 Hw Epp) as [Hi3 Hsub].
      eapply HQ; eassumption.
  Qed.

  (* ---- tables ---- *)
  Fixpoint scells_loop (cells : list scell) (wsl : list (option N)) (s2 : rstate)
           (subs : list subr) {struct cells} : res (rstate * list subr) :=
    match cells, wsl with
    | SCell _ _ content cstyle_ :: cells', Some w :: wsl' =>
      do tp2 <- top s2;
      let s3 := push_sub s2 (new_sub_renderer tp2 w) in
      do apc <- apply_style d s3 cstyle_;
      let '(s4, pcell) := apc in
      do s5 <- rns content s4;
      do s6 <- unwind d pcell s5;
      do pp <- pop_sub s6;
      let '(sub, s7) := pp in
      scells_loop cells' wsl' s7 (subs ++ [sub])
    | _ :: cells', None :: wsl' => scells_loop cells' wsl' s2 subs
    | _, _ => Ok (s2, subs)
    end.

  Lemma inv_unwind r p a a' : invr r a -> unwind d p a = Ok a' -> invr r a'.
  Proof.
    intros Hi. apply rs_invr.
    apply (g_unwind MStrict d mw SRB TIB SOKB (SRB_ops d mw)), invr_GSt, Hi.
  Qed.

  Lemma inv_rkids cs : forallb tree_ok cs = true ->
    forall r a a', invr r a -> rkids d mw cs a = Ok a' -> invr r a'.
  Proof.
    intros Hok r a a' Hi H. unfold rkids in H.
    apply (fold_bind_inv (invr r) (fun c s => render_node d mw c s) cs) in H; [exact H| |exact Hi].
    intros c Hc a0 a1 Hi0 E. rewrite forallb_forall in Hok.
    eapply (inv_render d mw); [apply Hok, Hc|exact Hi0|exact E].
  Qed.

  Definition cell_hyp (c : rcell) : Prop :=
    (forall r a, invr r a -> rkids d mw (cell_content c) a = rns (sgs (cell_content c)) a) /\
    forallb tree_ok (cell_content c) = true /\ style_no_pre (cell_style c) = true.

  Definition subs_ok (subs : list subr) : Prop := Forall (fun u => ws_stack u = []) subs.

  Lemma cells_eq : forall cells wsl r s2 subs,
    Forall cell_hyp cells -> invr r s2 -> subs_ok subs ->
    cells_loop d mw cells wsl s2 subs = scells_loop (map (sgn_cell Ek) cells) wsl s2 subs /\
    (forall res, cells_loop d mw cells wsl s2 subs = Ok res -> invr r (fst res) /\ subs_ok (snd res)).
  Proof.
    induction cells as [|[n content csty] cells IH]; intros wsl r s2 subs HF Hi Hsubs.
    - cbn [cells_loop map scells_loop]. split; [reflexivity|]. intros res H. ok_inv H. auto.
    - pose proof (Forall_inv HF) as (HK & Hok & Hs). cbn [cell_content cell_style] in HK, Hok, Hs.
      pose proof (Forall_inv_tail HF) as HF'.
      cbn [cells_loop map sgn_cell scells_loop]. fold (sgns Ek content).
      destruct wsl as [|[w|] wsl]; [split; [reflexivity|intros res H; ok_inv H; auto]| |].
      + split.
        * apply bind_ext_ok. intros tp2 Etp. destruct (inv_top r s2 tp2 Hi Etp) as [Es Hw].
          apply bind_ext_ok. intros [s4 pcell] E4.
          assert (Hi4 : invr (tp2 :: r) s4).
          { eapply (inv_apply_style d mw); [apply style_no_pre_ok, Hs| |exact E4].
            apply inv_push; assumption. }
          change (fold_left (fun acc c => do s <- acc; render_node d mw c s) content (Ok s4))
            with (rkids d mw content s4).
          rewrite (HK _ _ Hi4). apply bind_ext_ok. intros s5 E5. apply bind_ext_ok. intros s6 E6.
          apply bind_ext_ok. intros [sub s7] E7.
          assert (Hi5 : invr (tp2 :: r) s5).
          { rewrite <- (HK _ _ Hi4) in E5. eapply inv_rkids; eassumption. }
          pose proof (inv_unwind _ _ _ _ Hi5 E6) as Hi6.
          destruct (inv_pop' r tp2 s6 sub s7 Hi6 Hw E7) as [Hi7 Hsub].
          apply (IH wsl r s7 (subs ++ [sub]) HF' Hi7).
          apply Forall_app. split; [exact Hsubs|]. constructor; [exact Hsub|constructor].
        * intros res H. bind_inv H tp2 Etp. destruct (inv_top r s2 tp2 Hi Etp) as [Es Hw].
          bind_inv H apc E4. destruct apc as [s4 pcell].
          assert (Hi4 : invr (tp2 :: r) s4).
          { eapply (inv_apply_style d mw); [apply style_no_pre_ok, Hs| |exact E4].
            apply inv_push; assumption. }
          bind_inv H s5 E5. bind_inv H s6 E6. bind_inv H pp E7. destruct pp as [sub s7].
          assert (Hi5 : invr (tp2 :: r) s5) by (eapply inv_rkids; eassumption).
          pose proof (inv_unwind _ _ _ _ Hi5 E6) as Hi6.
          destruct (inv_pop' r tp2 s6 sub s7 Hi6 Hw E7) as [Hi7 Hsub].
          apply (IH wsl r s7 (subs ++ [sub]) HF' Hi7); [|exact H].
          apply Forall_app. split; [exact Hsubs|]. constructor; [exact Hsub|constructor].
      + apply IH; assumption.
  Qed.

  Lemma cell_widths_dummy vr cw : forall (cells : list rcell) colno,
    cell_widths vr cw
      (map (fun c => RCell (scell_colspan c) [] cstyle0) (map (sgn_cell Ek) cells)) colno =
    cell_widths vr cw cells colno.
  Proof.
    induction cells as [|[n k s] cells IH]; intros colno; [reflexivity|].
    cbn [map sgn_cell scell_colspan cell_widths cell_colspan]. rewrite IH. reflexivity.
  Qed.

  Lemma subs_ok_F2 subs : subs_ok subs -> Forall2 SRB subs subs.
  Proof. induction 1; constructor; auto. split; auto. Qed.

  Lemma sgn_unf i s : sg (RN i s) =
      match i with
      | IText t => stext s t
      | IContainer cs => SWrap WCont s (sgs cs)
      | ILink h cs => SWrap (WLink h) s (sgs cs)
      | IEm cs => SWrap WEm s (sgs cs)
      | IStrong cs => SWrap WStrong s (sgs cs)
      | IStrikeout cs => SWrap WStrike s (sgs cs)
      | ICode cs => SWrap WCode s (sgs cs)
      | IImg a b => SLeaf (LImg a b) s
      | IBlock cs | IListItem cs => SWrap WBlock s (sgs cs)
      | IHeader l cs => SPre (PHeader l) s (e_min (Ek cs)) (sgs cs)
      | IDiv cs => SWrap WDiv s (sgs cs)
      | IBlockQuote cs => SPre PQuote s (e_min (Ek cs)) (sgs cs)
      | IUl cs => SList QUl s (e_min (Ek cs)) (map sg cs)
      | IOl z cs => SList (QOl z) s (e_min (Ek cs)) (map sg cs)
      | IDl cs => SWrap WDl s (sgs cs)
      | IDt cs => SWrap WDt s (sgs cs)
      | IDd cs => SPre PDd s (e_min (Ek cs)) (sgs cs)
      | IBreak => SLeaf LBreak s
      | ITable rows nc => STable s (map (sgn_row Ek) rows) nc
      | ITableBody _ | ITableRow _ | ITableCell _ => SLeaf LBad s
      | IFragStart nm => SLeaf (LFrag nm) s
      | ISup cs =>
        match sup_digits cs with
        | Some ds => stext s ds
        | None => SWrap WSup s (sgs cs)
        end
      end.
  Proof. destruct i; reflexivity. Qed.

  Lemma pres_splice x :
    pres x -> (forall s l, x = SWrap WCont s l -> neutral s = true -> Forall pres l) ->
    Forall pres (splice x).
  Proof.
    intros Hp Hc.
    destruct x as [t|k s|k s l|k s i l|k s i l|s rows nc]; try (constructor; [exact Hp|constructor]).
    destruct k; try (constructor; [exact Hp|constructor]).
    cbn [splice]. destruct (neutral s) eqn:En; [apply (Hc s l eq_refl En)|].
    constructor; [exact Hp|constructor].
  Qed.

  Lemma stext_not_cont s t s' l : stext s t <> SWrap WCont s' l.
  Proof. unfold stext. destruct (neutral s); discriminate. Qed.

  Lemma factor_all : forall n, PF n.
  Proof.
    apply rnode_ind'. intros i sty IH Hok He.
    assert (Hs : style_no_pre sty = true).
    { cbn [tree_ok] in Hok. apply andb_true_iff in Hok. apply Hok. }
    assert (Hpres : Peq (RN i sty) ->
                    (forall s l, sg (RN i sty) = SWrap WCont s l -> neutral s = true -> Forall pres l) ->
                    Peq (RN i sty) /\ Forall pres (splice (sg (RN i sty)))).
    { intros Hq Hc. split; [exact Hq|]. apply pres_splice; [|exact Hc]. apply Peq_pres; assumption. }
    destruct (eok_est _ He) as (sz & Eest).
    cbn [tree_ok] in Hok. apply andb_true_iff in Hok. destruct Hok as [_ Hok].
    cbn [eok] in He. apply andb_true_iff in He. destruct He as [_ He].
    destruct i; cbn [direct_kids] in IH;
      try (destruct (kids_eq _ IH Hok He) as [HK HKp]);
      (apply Hpres;
       [intros rr aa Hi; rewrite sgn_unf; cbn [render_node rn_info rn_style]; unfold est_of;
        try rewrite Eest; cbn [bind]
       |intros s0 l0; rewrite sgn_unf; try discriminate]).
    - (* IText *) apply (text_eq sty t rr); assumption.
    - intros E; exfalso; eapply stext_not_cont, E.
    - (* IContainer *) apply (wrap_eq WCont sty cs rr); assumption.
    - intros E _. injection E as <- <-. exact HKp.
    - (* ILink *)
      etransitivity; [|apply (wrap_eq (WLink href) sty cs rr); assumption].
      apply bind_ext_ok. intros [st p] _. apply bind_ext_ok. intros st2 _.
      apply bind_ext_ok. intros st3 _. cbn [post_op]. rewrite bind_assoc.
      apply bind_ext_ok. intros st4 _. rewrite bind_assoc. reflexivity.
    - (* IEm *) apply (wrap_eq WEm sty cs rr); assumption.
    - (* IStrong *) apply (wrap_eq WStrong sty cs rr); assumption.
    - (* IStrikeout *) apply (wrap_eq WStrike sty cs rr); assumption.
    - (* ICode *) apply (wrap_eq WCode sty cs rr); assumption.
    - (* IImg *) reflexivity.
    - (* IBlock *) apply (wrap_eq WBlock sty cs rr); assumption.
    - (* IHeader *)
      assert (E2 : est_node d mw (RN (IHeader level cs) sty) = Ok _)
        by (apply (est_prefixed cs (swidth (d_header_prefix d level)) He)).
      rewrite E2 in Eest. ok_inv Eest. cbn [e_prefix e_min e_size].
      rewrite N.eqb_refl, N.add_sub. cbn [negb].
      apply (pre_eq (PHeader level) sty cs rr); assumption.
    - (* IDiv *) apply (wrap_eq WDiv sty cs rr); assumption.
    - (* IBlockQuote *)
      assert (E2 : est_node d mw (RN (IBlockQuote cs) sty) = Ok _)
        by (apply (est_prefixed cs (swidth (d_quote_prefix d)) He)).
      rewrite E2 in Eest. ok_inv Eest. cbn [e_prefix e_min e_size].
      rewrite N.eqb_refl, usub_add. cbn [negb bind].
      apply (pre_eq PQuote sty cs rr); assumption.
    - (* IUl *)
      assert (E2 : est_node d mw (RN (IUl cs) sty) = Ok _)
        by (apply (est_prefixed cs (swidth (d_ul_prefix d)) He)).
      rewrite E2 in Eest. ok_inv Eest. cbn [e_prefix e_min e_size srun].
      pose proof (items_eq _ IH Hok He) as HI. rewrite Forall_forall in HI.
      apply bind_ext_ok. intros [st p] E.
      pose proof (inv_apply_style d mw rr sty aa st p (style_no_pre_ok sty Hs) Hi E) as Hi1.
      match goal with |- bind ?e1 _ = bind ?e2 _ => assert (EE : e1 = e2); [|rewrite EE; reflexivity] end.
      apply (mfold_ext_inv (invr rr) _ _ sg); [exact Hi1|].
      intros item Hitem s Hi_s. rewrite usub_add. cbn [bind].
      destruct (HI item Hitem) as [Hq Hokc].
      apply (scope_step item rr s _ _
               (fun sub s3 => with_top s3 (fun t => append_subrender t sub (d_ul_prefix d)
                    (repeat_chr (spacel L_prefix) (N.to_nat (swidth (d_ul_prefix d))))))
               (invr rr) Hq Hokc Hi_s).
      intros sub s3 Hsub Hi3 s' H'. eapply (inv_with_top rr); [apply append_gop, Hsub|exact Hi3|exact H'].
    - (* IOl *)
      assert (E2 : est_node d mw (RN (IOl start cs) sty) = Ok _)
        by (apply (est_prefixed cs _ He)).
      rewrite E2 in Eest. ok_inv Eest. cbn [e_prefix e_min e_size srun]. rewrite map_length.
      pose proof (items_eq _ IH Hok He) as HI. rewrite Forall_forall in HI.
      apply bind_ext_ok. intros [st p] E.
      pose proof (inv_apply_style d mw rr sty aa st p (style_no_pre_ok sty Hs) Hi E) as Hi1.
      match goal with |- bind ?e1 _ = bind ?e2 _ => assert (EE : e1 = e2); [|rewrite EE; reflexivity] end.
      apply (mfold_ext_inv (fun si => invr rr (fst si)) _ _ sg); [exact Hi1|].
      intros item Hitem [s i] Hi_s. cbn [fst] in Hi_s. rewrite usub_add. cbn [bind].
      destruct (HI item Hitem) as [Hq Hokc].
      set (pw := N.max (swidth (d_ol_prefix d start))
                       (swidth (d_ol_prefix d (isat64 (isat64 (start + Z.of_nat (length cs)) - 1))))).
      apply (scope_step item rr s _ _
               (fun sub s3 => do s4 <- with_top s3 (fun t => append_subrender t sub
                                       (pad_width (d_ol_prefix d i) pw) (pad_chars [] pw));
                              Ok (s4, isat64 (i + 1)))
               (fun si => invr rr (fst si)) Hq Hokc Hi_s).
      intros sub s3 Hsub Hi3 s' H'. bind_inv H' s4 H4. ok_inv H'. cbn [fst].
      eapply (inv_with_top rr); [apply append_gop, Hsub|exact Hi3|exact H4].
    - (* IDl *) apply (wrap_eq WDl sty cs rr); assumption.
    - (* IDt *)
      etransitivity; [|apply (wrap_eq WDt sty cs rr); assumption].
      apply bind_ext_ok. intros [st p] _. cbn [pre_op]. rewrite bind_assoc. reflexivity.
    - (* IDd *)
      assert (E2 : est_node d mw (RN (IDd cs) sty) = Ok _)
        by (apply (est_prefixed cs 2 He)).
      rewrite E2 in Eest. ok_inv Eest. cbn [e_prefix e_min e_size].
      rewrite usub_add. cbn [bind].
      apply (pre_eq PDd sty cs rr); assumption.
    - (* IBreak *) reflexivity.
    - (* ITable *)
      change (forallb eok_row rows = true) in He.
      change (forallb ok_row rows = true) in Hok.
      cbn [srun]. apply bind_ext_ok. intros [st p] E.
      pose proof (inv_apply_style d mw rr sty aa st p (style_no_pre_ok sty Hs) Hi E) as Hi1.
      (* the column sizes *)
      match goal with |- bind ?e1 _ = bind ?e2 _ => assert (EE : e1 = e2); [|rewrite EE; clear EE] end.
      { apply (mfold_ext_inv (fun _ => True) _ _ (sgn_row Ek)); [exact I|].
        intros r Hr sizes _. split; [|auto].
        match goal with |- bind ?e1 _ = bind ?e2 _ => assert (EE : e1 = e2); [|rewrite EE; reflexivity] end.
        rewrite forallb_forall in He. specialize (He r Hr). destruct r as [cells rsty].
        cbn [row_cells sgn_row srow_cells]. cbn [eok_row] in He.
        apply (mfold_ext_inv (fun _ => True) _ _ (sgn_cell Ek)); [exact I|].
        intros c Hc [sz_ colno] _. split; [|auto].
        rewrite forallb_forall in He. specialize (He c Hc). destruct c as [n k cs0].
        cbn [eok_cell] in He. cbn [cell_content cell_colspan sgn_cell scell_est scell_colspan].
        rewrite (Ek_ok k He). reflexivity. }
      apply bind_ext_ok. intros col_sizes _. apply bind_ext_ok. intros tp Etp.
      apply bind_ext_ok. intros col_widths _.
      apply bind_ext_ok. intros st1 E1.
      assert (Hi2 : invr rr st1).
      { eapply (inv_with_top rr); [apply (go_start_block _ _ _ _ _ _ (SRB_ops d mw))|exact Hi1|exact E1]. }
      apply bind_ext_ok. intros st2 E2.
      assert (Hi3 : invr rr st2).
      { match type of E2 with (if ?c then _ else _) = _ => destruct c end; [|ok_inv E2; exact Hi2].
        eapply (inv_with_top rr); [apply (go_hborder _ _ _ _ _ _ (SRB_ops d mw))|exact Hi2|exact E2]. }
      match goal with |- bind ?e1 _ = bind ?e2 _ => assert (EE : e1 = e2); [|rewrite EE; reflexivity] end.
      apply (mfold_ext_inv (invr rr) _ _ (sgn_row Ek)); [exact Hi3|].
      intros r Hr s Hi_s.
      apply Forall_flat_map in IH. rewrite Forall_forall in IH. specialize (IH r Hr).
      rewrite forallb_forall in He, Hok. specialize (He r Hr). specialize (Hok r Hr).
      destruct r as [cells rsty]. cbn [sgn_row]. unfold row_kids in IH. cbn [row_cells] in IH.
      cbn [eok_row] in He. cbn [ok_row] in Hok. apply andb_true_iff in Hok. destruct Hok as [Hrs Hok].
      assert (HC : Forall cell_hyp cells).
      { apply Forall_flat_map in IH. rewrite Forall_forall in IH. apply Forall_forall. intros c Hc.
        rewrite forallb_forall in He, Hok. specialize (He c Hc). specialize (Hok c Hc).
        specialize (IH c Hc). destruct c as [n k cs0]. cbn [eok_cell] in He. cbn [ok_cell] in Hok.
        apply andb_true_iff in Hok. destruct Hok as [Hcs Hok]. cbn [cell_content] in IH.
        destruct (kids_eq k IH Hok He) as [HKc _]. split; [exact HKc|]. split; assumption. }
      set (vr := o_raw (sopts tp)
                 || ((swidth_ tp <? sumN (map e_min col_sizes) + (N.of_nat (length col_sizes) - 1))
                     || (swidth_ tp =? 0))).
      assert (Hrow : forall (k1 k2 : rstate * pushed -> res rstate),
                 (forall ap, apply_style d s rsty = Ok ap -> k1 ap = k2 ap) ->
                 bind (apply_style d s rsty) k1 = bind (apply_style d s rsty) k2)
        by (intros; apply bind_ext_ok; assumption).
      split.
      + apply bind_ext_ok. intros [s1 prow] Es1.
        pose proof (inv_apply_style d mw rr rsty s s1 prow (style_no_pre_ok _ Hrs) Hi_s Es1) as Hi_1.
        rewrite cell_widths_dummy. apply bind_ext_ok. intros cws _.
        change (bind (cells_loop d mw cells cws s1 [])
                  (fun rr0 => let '(s8, subs) := rr0 in
                     do s9 <- (if vr then with_top s8 (fun t => append_vert_row t subs)
                               else if existsb (fun c => negb (sub_empty c)) subs
                                    then with_top s8 (fun t => append_columns_with_borders t subs true)
                                    else Ok s8);
                     unwind d prow s9) =
                bind (scells_loop (map (sgn_cell Ek) cells) cws s1 [])
                  (fun rr0 => let '(s8, subs) := rr0 in
                     do s9 <- (if vr then with_top s8 (fun t => append_vert_row t subs)
                               else if existsb (fun c => negb (sub_empty c)) subs
                                    then with_top s8 (fun t => append_columns_with_borders t subs true)
                                    else Ok s8);
                     unwind d prow s9)).
        rewrite (proj1 (cells_eq cells cws rr s1 [] HC Hi_1 (Forall_nil _))). reflexivity.
      + intros s' H. bind_inv H ap Es1. destruct ap as [s1 prow].
        pose proof (inv_apply_style d mw rr rsty s s1 prow (style_no_pre_ok _ Hrs) Hi_s Es1) as Hi_1.
        bind_inv H cws Ecws.
        change (bind (cells_loop d mw cells cws s1 [])
                  (fun rr0 => let '(s8, subs) := rr0 in
                     do s9 <- (if vr then with_top s8 (fun t => append_vert_row t subs)
                               else if existsb (fun c => negb (sub_empty c)) subs
                                    then with_top s8 (fun t => append_columns_with_borders t subs true)
                                    else Ok s8);
                     unwind d prow s9) = Ok s') in H.
        bind_inv H rs8 Eres. destruct rs8 as [s8 subs].
        destruct (proj2 (cells_eq cells cws rr s1 [] HC Hi_1 (Forall_nil _)) _ Eres) as [Hi8 Hsubs].
        cbn [fst snd] in Hi8, Hsubs. bind_inv H s9 E9.
        eapply inv_unwind; [|exact H].
        destruct vr.
        * eapply (inv_with_top rr); [|exact Hi8|exact E9]. intros x y Hxy.
          apply (go_vert _ _ _ _ _ _ (SRB_ops d mw)); [exact Hxy|apply subs_ok_F2, Hsubs].
        * destruct (existsb (fun c => negb (sub_empty c)) subs); [|ok_inv E9; exact Hi8].
          eapply (inv_with_top rr); [|exact Hi8|exact E9]. intros x y Hxy.
          apply (go_cols _ _ _ _ _ _ (SRB_ops d mw)); [exact Hxy|apply subs_ok_F2, Hsubs].
    - (* ITableBody *) apply bind_ext_ok. intros [st p] _. reflexivity.
    - (* ITableRow *) apply bind_ext_ok. intros [st p] _. reflexivity.
    - (* ITableCell *) apply bind_ext_ok. intros [st p] _. reflexivity.
    - (* IFragStart *) reflexivity.
    - (* IListItem *) apply (wrap_eq WBlock sty cs rr); assumption.
    - (* ISup *)
      destruct (sup_digits cs) as [ds|].
      + apply (text_eq sty ds rr); assumption.
      + apply (wrap_eq WSup sty cs rr); assumption.
    - destruct (sup_digits cs) as [ds|]; [|discriminate].
      intros E; exfalso; eapply stext_not_cont, E.
  Qed.

  (* ---- the whole renderer ---- *)
  Definition fin_tree (st : rstate) : res subr :=
    match stack st with
    | [s] =>
      let lines := sub_finalise s (links st) in
      match lines with
      | [] => Ok s
      | _ => do s1 <- start_block s; Ok (fmt_links s1 lines)
      end
    | _ => Panic 12
    end.
  Definition srun_tree (o : ropts) (width : N) (x : snode) : res subr :=
    do st <- rn_ x (mkrst [sub_new width o] []); fin_tree st.

  (* THEOREM 1 (factorisation): the renderer reads a tree only through its signature *)
  Theorem render_tree_factor o width t :
    tree_ok t = true -> eok t = true ->
    render_tree d mw o width t = srun_tree o width (sg t).
  Proof.
    intros Hok He. unfold render_tree, srun_tree, fin_tree, est_of.
    destruct (eok_est t He) as (e & ->). cbn [bind].
    destruct (factor_all t Hok He) as [Hq _]. rewrite (Hq []); [reflexivity|].
    exists (sub_new width o). split; reflexivity.
  Qed.

  (* ---- the side condition follows from the estimate of the root ---- *)
  Lemma mfold_ok_inv {A B} (f : B -> A -> res A) : forall (l : list B) a r,
    fold_left (fun acc b => do s <- acc; f b s) l (Ok a) = Ok r ->
    Forall (fun b => exists a0 a1, f b a0 = Ok a1) l.
  Proof.
    induction l as [|b l IH]; intros a r H; [constructor|].
    rewrite mfold_cons in H. bind_inv H a1 H1. constructor; [eauto|eapply IH, H].
  Qed.

  Lemma est_ok_deep : forall n e, est_node d mw n = Ok e -> eok n = true.
  Proof.
    apply (rnode_ind' (fun n => forall e, est_node d mw n = Ok e -> eok n = true)).
    intros i sty IH e H. cbn [eok]. rewrite H. cbn [isok andb].
    assert (K : forall cs e0 e1,
              Forall (fun n => forall e, est_node d mw n = Ok e -> eok n = true) cs ->
              fold_left (fun acc c => do a <- acc; do e <- est_node d mw c; Ok (est_add a e)) cs (Ok e0)
              = Ok e1 -> forallb eok cs = true).
    { intros cs e0 e1 HF HE. apply forallb_forall. intros c Hc.
      apply (mfold_ok_inv (fun c a => do e <- est_node d mw c; Ok (est_add a e))) in HE.
      rewrite Forall_forall in HF, HE. destruct (HE c Hc) as (a0 & a1 & E). bind_inv E e' E'.
      eapply HF; eassumption. }
    destruct i; cbn [direct_kids] in IH; cbn [est_node rn_info] in H; try reflexivity;
      try (eapply K; eassumption);
      try (bind_inv H e1 H1; eapply K; eassumption).
    - (* IOl *) bind_inv H ps Hps. bind_inv H e1 H1. eapply K; eassumption.
    - (* ITable *)
      apply Forall_flat_map in IH. rewrite Forall_forall in IH.
      apply forallb_forall. intros r Hr. specialize (IH r Hr). unfold row_kids in IH.
      apply Forall_flat_map in IH. rewrite Forall_forall in IH.
      destruct r as [cells rsty]. cbn [row_cells] in IH. apply forallb_forall. intros c Hc.
      specialize (IH c Hc). destruct c as [n k cs0]. cbn [cell_content] in IH.
      destruct (ncols =? 0).
      + bind_inv H u Hu.
        apply (mfold_ok_inv (fun r (_a : unit) =>
                 fold_left (fun acc2 c => do _b <- acc2;
                              do _c <- match c with RCell _ k _ =>
                                 fold_left (fun acc c0 => do a <- acc; do e <- est_node d mw c0; Ok (est_add a e))
                                           k (Ok est0) end; Ok tt)
                           (row_cells r) (Ok tt))) in Hu.
        rewrite Forall_forall in Hu. destruct (Hu _ Hr) as (a0 & a1 & E). cbn [row_cells] in E.
        apply (mfold_ok_inv (fun c (_b : unit) =>
                 do _c <- match c with RCell _ k _ =>
                    fold_left (fun acc c0 => do a <- acc; do e <- est_node d mw c0; Ok (est_add a e))
                              k (Ok est0) end; Ok tt)) in E.
        rewrite Forall_forall in E. destruct (E _ Hc) as (b0 & b1 & E'). bind_inv E' e2 E2.
        eapply K; eassumption.
      + bind_inv H sizes Hsz.
        apply (mfold_ok_inv (fun r s =>
                 do res_ <- fold_left
                   (fun acc c =>
                      do st <- acc;
                      let '(sz, colno) := st in
                      do ce <- match c with RCell _ k _ =>
                                 fold_left (fun acc1 c0 => do a <- acc1; do e <- est_node d mw c0; Ok (est_add a e))
                                           k (Ok est0) end;
                      match upd_range sz (N.to_nat colno) (N.to_nat (cell_colspan c))
                              (fun s0 => mkest (e_size s0 + e_size ce / cell_colspan c)
                                               (N.max (e_min s0) (e_min ce / cell_colspan c))
                                               (e_prefix s0)) with
                      | Some sz' => Ok (sz', colno + cell_colspan c)
                      | None => Panic 31
                      end) (row_cells r) (Ok (s, 0));
                 Ok (fst res_))) in Hsz.
        rewrite Forall_forall in Hsz. destruct (Hsz _ Hr) as (a0 & a1 & E). cbn [row_cells] in E.
        bind_inv E res_ E1.
        apply (mfold_ok_inv (fun c st =>
                      let '(sz, colno) := st in
                      do ce <- match c with RCell _ k _ =>
                                 fold_left (fun acc1 c0 => do a <- acc1; do e <- est_node d mw c0; Ok (est_add a e))
                                           k (Ok est0) end;
                      match upd_range sz (N.to_nat colno) (N.to_nat (cell_colspan c))
                              (fun s0 => mkest (e_size s0 + e_size ce / cell_colspan c)
                                               (N.max (e_min s0) (e_min ce / cell_colspan c))
                                               (e_prefix s0)) with
                      | Some sz' => Ok (sz', colno + cell_colspan c)
                      | None => Panic 31
                      end)) in E1.
        rewrite Forall_forall in E1. destruct (E1 _ Hc) as ([sz0 col0] & b1 & E'). bind_inv E' e2 E2.
        eapply K; eassumption.
  Qed.
End Factor.

(* THEOREM 2 (C): two trees with the same signature -- the same text runs, the same nesting, and
   the same values of the estimates that the renderer reads (minimum inner widths of prefixed
   blocks, table-cell estimates) -- render identically: the same outcome (Ok with the same
   sub-renderer, TooNarrow, or the same Panic site), at every width, for all options, tables and
   prefixed blocks included. *)
Definition split_safe (d : deco) (mw : N) (t1 t2 : rnode) : Prop :=
  sgn (Ek d mw) t1 = sgn (Ek d mw) t2.

Theorem split_safe_render d mw o width t1 t2 e1 e2 :
  tree_ok t1 = true -> tree_ok t2 = true ->
  est_node d mw t1 = Ok e1 -> est_node d mw t2 = Ok e2 ->
  split_safe d mw t1 t2 ->
  render_tree d mw o width t1 = render_tree d mw o width t2.
Proof.
  intros H1 H2 E1 E2 Hs.
  rewrite (render_tree_factor d mw o width t1 H1 (est_ok_deep d mw t1 e1 E1)).
  rewrite (render_tree_factor d mw o width t2 H2 (est_ok_deep d mw t2 e2 E2)).
  unfold split_safe in Hs. rewrite Hs. reflexivity.
Qed.
Print Assumptions render_tree_factor.
Print Assumptions split_safe_render.

(* ================================================================== *)
(* 8. Without the estimates: shapes                                     *)
(* ================================================================== *)
Definition scell_content (c : scell) : list snode := match c with SCell _ _ k _ => k end.
Definition srow_kids (r : srow) : list snode := flat_map scell_content (srow_cells r).
Definition sdirect (x : snode) : list snode :=
  match x with
  | SText _ | SLeaf _ _ => []
  | SWrap _ _ l | SPre _ _ _ l | SList _ _ _ l => l
  | STable _ rows _ => flat_map srow_kids rows
  end.

Section SnodeInd.
  Variable P : snode -> Prop.
  Hypothesis H : forall x, Forall P (sdirect x) -> P x.

  Fixpoint snode_ind' (x : snode) : P x :=
    let list_all :=
        fix list_all (cs : list snode) : Forall P cs :=
          match cs with
          | [] => Forall_nil P
          | c :: cs' => @Forall_cons _ P c cs' (snode_ind' c) (list_all cs')
          end in
    let cell_all (c : scell) : Forall P (scell_content c) :=
        match c with SCell _ _ k _ => list_all k end in
    let cells_all :=
        fix cells_all (cells : list scell) : Forall P (flat_map scell_content cells) :=
          match cells with
          | [] => Forall_nil P
          | c :: cells' => Forall_app_t P _ _ (cell_all c) (cells_all cells')
          end in
    let row_all (r : srow) : Forall P (srow_kids r) :=
        match r with SRow cells _ => cells_all cells end in
    let rows_all :=
        fix rows_all (rows : list srow) : Forall P (flat_map srow_kids rows) :=
          match rows with
          | [] => Forall_nil P
          | r :: rows' => Forall_app_t P _ _ (row_all r) (rows_all rows')
          end in
    H x (match x return Forall P (sdirect x) with
         | SText _ | SLeaf _ _ => Forall_nil P
         | SWrap _ _ l | SPre _ _ _ l | SList _ _ _ l => list_all l
         | STable _ rows _ => rows_all rows
         end).
End SnodeInd.

(* the shape of a signature: the estimates erased *)
Fixpoint sstrip (x : snode) : snode :=
  match x with
  | SText t => SText t
  | SLeaf k s => SLeaf k s
  | SWrap k s l => SWrap k s (map sstrip l)
  | SPre k s _ l => SPre k s 0 (map sstrip l)
  | SList k s _ l => SList k s 0 (map sstrip l)
  | STable s rows nc =>
    STable s (map (fun r => match r with
                            | SRow cells rs =>
                              SRow (map (fun c => match c with
                                                  | SCell n _ k cs => SCell n est0 (map sstrip k) cs
                                                  end) cells) rs
                            end) rows) nc
  end.

Fixpoint stfree (x : snode) : bool :=
  match x with
  | SText _ | SLeaf _ _ => true
  | SWrap _ _ l | SPre _ _ _ l | SList _ _ _ l => forallb stfree l
  | STable _ _ _ => false
  end.

(* every sub-renderer on the stack forbids width overflow *)
Definition oinv (a : rstate) : Prop :=
  Forall (fun s => o_allow_overflow (sopts s) = false) (stack a).

Definition okeeps (f : subr -> res subr) : Prop := forall x x', f x = Ok x' -> sopts x' = sopts x.

Lemma keeps_km f : (forall x x', f x = Ok x' -> km x' = km x) -> okeeps f.
Proof. intros H x x' E. apply H in E. unfold km in E. congruence. Qed.

Lemma oinv_with_top f a a' : okeeps f -> oinv a -> with_top a f = Ok a' -> oinv a'.
Proof.
  unfold with_top, oinv. intros Hf Hi H. destruct (stack a) as [|s rest] eqn:E; [discriminate|].
  bind_inv H s' Hs'. ok_inv H. cbn [stack]. inversion Hi; subst. constructor; [|assumption].
  rewrite (Hf _ _ Hs'). assumption.
Qed.

Lemma oinv_with_top' g a a' : (forall x, sopts (g x) = sopts x) -> oinv a -> with_top' a g = Ok a' -> oinv a'.
Proof. intros Hg. apply oinv_with_top. intros x x' E. ok_inv E. apply Hg. Qed.

Lemma oinv_apply_style d s a a' p : oinv a -> apply_style d a s = Ok (a', p) -> oinv a'.
Proof.
  unfold apply_style. intros Hi H. bind_inv H a1 H1. bind_inv H a2 H2. bind_inv H a3 H3.
  bind_inv H a4 H4. ok_inv H.
  assert (Hi1 : oinv a1).
  { destruct (ws_val (c_colour (cs_core s))) as [[[r g] b]|]; [|ok_inv H1; exact Hi].
    eapply oinv_with_top'; [|exact Hi|exact H1]. intros x. unfold push_colour. destruct (d_colours d); reflexivity. }
  assert (Hi2 : oinv a2).
  { destruct (ws_val (c_bg (cs_core s))) as [[[r g] b]|]; [|ok_inv H2; exact Hi1].
    eapply oinv_with_top'; [|exact Hi1|exact H2]. intros x. unfold push_bgcolour. destruct (d_colours d); reflexivity. }
  assert (Hi3 : oinv a3).
  { destruct (match ws_val (c_white_space (cs_core s)) with
              | Some WsPre => Some WsPre | Some WsPreWrap => Some WsPreWrap | _ => None end);
      [|ok_inv H3; exact Hi2].
    eapply oinv_with_top'; [|exact Hi2|exact H3]. reflexivity. }
  destruct (cs_internal_pre s); [|ok_inv H4; exact Hi3].
  eapply oinv_with_top'; [|exact Hi3|exact H4]. reflexivity.
Qed.

Lemma oinv_unwind d p a a' : oinv a -> unwind d p a = Ok a' -> oinv a'.
Proof.
  unfold unwind. intros Hi H. bind_inv H a1 H1. bind_inv H a2 H2. bind_inv H a3 H3.
  assert (Hc : forall x, sopts (pop_colour d x) = sopts x)
    by (intros x; unfold pop_colour; destruct (d_colours d); reflexivity).
  assert (Hi1 : oinv a1).
  { destruct (p_bg p); [|ok_inv H1; exact Hi]. eapply oinv_with_top'; [exact Hc|exact Hi|exact H1]. }
  assert (Hi2 : oinv a2).
  { destruct (p_colour p); [|ok_inv H2; exact Hi1]. eapply oinv_with_top'; [exact Hc|exact Hi1|exact H2]. }
  assert (Hi3 : oinv a3).
  { destruct (p_ws p); [|ok_inv H3; exact Hi2]. eapply oinv_with_top'; [|exact Hi2|exact H3]. reflexivity. }
  destruct (p_pre p); [|ok_inv H; exact Hi3].
  eapply oinv_with_top; [|exact Hi3|exact H]. intros x x' E. unfold pop_preformat in E.
  destruct (0 <? pre_depth x); [|discriminate]. ok_inv E. reflexivity.
Qed.

Lemma oinv_inline d t a a' : oinv a -> inline_text d a t = Ok a' -> oinv a'.
Proof. apply oinv_with_top, keeps_km. intros x x'. apply km_add_inline_text. Qed.

Lemma oinv_pre_op d k a a' : oinv a -> pre_op d k a = Ok a' -> oinv a'.
Proof.
  intros Hi H. destruct k; cbn [pre_op] in H.
  - ok_inv H. exact Hi.
  - eapply oinv_with_top; [apply keeps_km; intros x x'; apply km_start_deco|exact Hi|exact H].
  - eapply oinv_with_top; [apply keeps_km; intros x x'; apply km_start_deco|exact Hi|exact H].
  - eapply oinv_with_top; [apply keeps_km; intros x x'; apply km_start_strikeout|exact Hi|exact H].
  - eapply oinv_with_top; [apply keeps_km; intros x x'; apply km_start_deco|exact Hi|exact H].
  - eapply oinv_with_top; [apply keeps_km; intros x x'; apply km_start_block|exact Hi|exact H].
  - eapply oinv_with_top; [apply keeps_km; intros x x'; apply km_flush_wrapping|exact Hi|exact H].
  - eapply oinv_with_top; [apply keeps_km; intros x x'; apply km_start_block|exact Hi|exact H].
  - bind_inv H a1 H1.
    eapply oinv_with_top; [apply keeps_km; intros x x'; apply km_start_deco| |exact H].
    eapply oinv_with_top; [apply keeps_km; intros x x'; apply km_flush_wrapping|exact Hi|exact H1].
  - eapply oinv_with_top; [apply keeps_km; intros x x'; apply km_start_deco|exact Hi|exact H].
  - eapply oinv_with_top; [apply keeps_km; intros x x'; apply km_start_deco| |exact H]. exact Hi.
Qed.

Lemma oinv_post_op d k a a' : oinv a -> post_op d k a = Ok a' -> oinv a'.
Proof.
  intros Hi H. destruct k; cbn [post_op] in H.
  - ok_inv H. exact Hi.
  - eapply oinv_with_top; [apply keeps_km; intros x x'; apply km_end_deco|exact Hi|exact H].
  - eapply oinv_with_top; [apply keeps_km; intros x x'; apply km_end_deco|exact Hi|exact H].
  - eapply oinv_with_top; [apply keeps_km; intros x x'; apply km_end_strikeout|exact Hi|exact H].
  - eapply oinv_with_top; [apply keeps_km; intros x x'; apply km_end_deco|exact Hi|exact H].
  - eapply oinv_with_top'; [|exact Hi|exact H]. reflexivity.
  - eapply oinv_with_top; [apply keeps_km; intros x x'; apply km_flush_wrapping|exact Hi|exact H].
  - ok_inv H. exact Hi.
  - eapply oinv_with_top; [apply keeps_km; intros x x'; apply km_end_deco|exact Hi|exact H].
  - eapply oinv_with_top; [apply keeps_km; intros x x'; apply km_end_deco|exact Hi|exact H].
  - bind_inv H a4 H4. bind_inv H tp Htp.
    assert (Hi4 : oinv a4).
    { eapply oinv_with_top; [apply keeps_km; intros x x'; apply km_end_deco|exact Hi|exact H4]. }
    destruct (o_footnotes (sopts tp)); [eapply oinv_inline; eassumption|ok_inv H; exact Hi4].
Qed.

Lemma oinv_leaf_op d k a a' : oinv a -> leaf_op d k a = Ok a' -> oinv a'.
Proof.
  intros Hi H. destruct k; cbn [leaf_op] in H.
  - eapply oinv_inline; eassumption.
  - eapply oinv_with_top; [apply keeps_km; intros x x'; apply km_add_image|exact Hi|exact H].
  - eapply oinv_with_top; [apply keeps_km; intros x x'; apply km_new_line_hard|exact Hi|exact H].
  - eapply oinv_with_top'; [|exact Hi|exact H]. reflexivity.
  - discriminate.
Qed.

(* one monadic fold simulates another, step by step, on the states that satisfy an invariant *)
Lemma mfold_sim_ok {A B C} (I : A -> Prop) (f : B -> A -> res A) (g : C -> A -> res A) (h : B -> C) :
  forall l a r, I a ->
  (forall b, In b l -> forall a a', I a -> f b a = Ok a' -> g (h b) a = Ok a' /\ I a') ->
  fold_left (fun acc b => do s <- acc; f b s) l (Ok a) = Ok r ->
  fold_left (fun acc c => do s <- acc; g c s) (map h l) (Ok a) = Ok r /\ I r.
Proof.
  induction l as [|b l IH]; intros a r Ha Hs H.
  - cbn [fold_left] in H. ok_inv H. cbn [map fold_left]. auto.
  - cbn [map]. rewrite mfold_cons in H. rewrite mfold_cons. bind_inv H a1 H1.
    destruct (Hs b (or_introl eq_refl) a a1 Ha H1) as [E1 Ha1]. rewrite E1. cbn [bind].
    apply IH; [exact Ha1| |exact H]. intros b' Hb'. apply Hs. right. exact Hb'.
Qed.

Lemma width_minus_0 tp p m w :
  o_allow_overflow (sopts tp) = false -> width_minus tp p m = Ok w -> width_minus tp p 0 = Ok w.
Proof.
  unfold width_minus. intros Ho. rewrite Ho. cbn [negb]. rewrite !andb_true_r.
  destruct ((swidth_ tp - p <? m) || (swidth_ tp <? p)) eqn:E; [discriminate|].
  apply orb_false_iff in E. destruct E as [E1 E2]. intros H. ok_inv H.
  rewrite E2, orb_false_r. replace (swidth_ tp - p <? 0) with false by (symmetry; apply N.ltb_ge; lia).
  f_equal. lia.
Qed.

Lemma oinv_top a tp : oinv a -> top a = Ok tp -> o_allow_overflow (sopts tp) = false.
Proof.
  unfold top, oinv. destruct (stack a) as [|s rest]; [discriminate|]. intros Hi H. ok_inv H.
  exact (Forall_inv Hi).
Qed.

Lemma oinv_push a tp w : oinv a -> top a = Ok tp -> oinv (push_sub a (new_sub_renderer tp w)).
Proof.
  intros Hi Ht. unfold oinv. cbn [push_sub stack]. constructor; [|exact Hi].
  cbn [new_sub_renderer sopts]. eapply oinv_top; eassumption.
Qed.

Lemma oinv_pop a sub a' : oinv a -> pop_sub a = Ok (sub, a') -> oinv a'.
Proof.
  unfold pop_sub, oinv. destruct (stack a) as [|s rest]; [discriminate|]. intros Hi H. ok_inv H.
  cbn [stack]. exact (Forall_inv_tail Hi).
Qed.

Lemma oinv_append sub f r0 a a' :
  oinv a -> with_top a (fun t => append_subrender t sub f r0) = Ok a' -> oinv a'.
Proof. apply oinv_with_top, keeps_km. intros x x'. apply km_append_subrender. Qed.

Lemma srun_pre d k s imin l st0 :
  srun d (SPre k s imin l) st0 =
  do ap <- apply_style d st0 s;
  let '(st, p) := ap in
  do tp <- top st;
  do w <- width_minus tp (pk_plen d k) imin;
  do st2 <- sruns d l (push_sub st (new_sub_renderer tp w));
  do pp <- pop_sub st2;
  let '(sub, st3) := pp in
  match k with
  | PDd => do st4 <- with_top st3 (fun s => append_subrender s sub (pk_prefix d k) (pk_prefix d k));
           unwind d p st4
  | _ => do st4 <- with_top st3 start_block;
         do st5 <- with_top st4 (fun s => append_subrender s sub (pk_prefix d k) (pk_prefix d k));
         do st6 <- with_top' st5 end_block; unwind d p st6
  end.
Proof. reflexivity. Qed.

Section Strip.
  Variable d : deco.

  Definition SP (x : snode) : Prop :=
    stfree x = true -> forall a a', oinv a -> srun d x a = Ok a' -> srun d (sstrip x) a = Ok a' /\ oinv a'.

  Lemma sruns_sstrip l :
    Forall SP l -> forallb stfree l = true ->
    forall a a', oinv a -> sruns d l a = Ok a' -> sruns d (map sstrip l) a = Ok a' /\ oinv a'.
  Proof.
    intros HF Ht a a' Hi H. unfold sruns in *.
    apply (mfold_sim_ok oinv (fun x s => srun d x s) (fun x s => srun d x s) sstrip l a a' Hi); [|exact H].
    intros x Hx a0 a1 Hi0 E. rewrite Forall_forall in HF. rewrite forallb_forall in Ht.
    apply (HF x Hx (Ht x Hx)); assumption.
  Qed.

  (* in a table-free tree and without allow_width_overflow, a successful run does not depend on the
     estimated minimum widths *)
  Lemma srun_sstrip : forall x, SP x.
  Proof.
    apply snode_ind'. intros x IH Ht a a' Hi H.
    destruct x as [t|k s|k s l|k s imin l|k s imin l|s rows nc]; cbn [sdirect] in IH; cbn [stfree] in Ht;
      cbn [sstrip].
    - split; [exact H|]. cbn [srun] in H. eapply oinv_inline; eassumption.
    - split; [exact H|]. cbn [srun] in H. bind_inv H ap E. destruct ap as [st p]. bind_inv H st1 E1.
      eapply oinv_unwind; [|exact H]. eapply oinv_leaf_op; [|exact E1]. eapply oinv_apply_style; eassumption.
    - rewrite srun_wrap in *. bind_inv H ap E. destruct ap as [st p]. rewrite E. cbn [bind].
      bind_inv H st1 E1. rewrite E1. cbn [bind]. bind_inv H st2 E2.
      pose proof (oinv_apply_style _ _ _ _ _ Hi E) as Hi0.
      pose proof (oinv_pre_op _ _ _ _ Hi0 E1) as Hi1.
      destruct (sruns_sstrip l IH Ht st1 st2 Hi1 E2) as [E2' Hi2]. rewrite E2'. cbn [bind].
      bind_inv H st3 E3. rewrite E3. cbn [bind]. split; [exact H|].
      eapply oinv_unwind; [|exact H]. eapply oinv_post_op; eassumption.
    - rewrite srun_pre in *. bind_inv H ap E. destruct ap as [st p]. rewrite E. cbn [bind].
      pose proof (oinv_apply_style _ _ _ _ _ Hi E) as Hi0.
      bind_inv H tp Etp. rewrite Etp. cbn [bind]. bind_inv H w Ew.
      rewrite (width_minus_0 tp _ _ w (oinv_top _ _ Hi0 Etp) Ew). cbn [bind].
      bind_inv H st2 E2.
      destruct (sruns_sstrip l IH Ht _ st2 (oinv_push st tp w Hi0 Etp) E2) as [E2' Hi2].
      rewrite E2'. cbn [bind]. bind_inv H pp Epp. destruct pp as [sub st3]. rewrite Epp. cbn [bind].
      pose proof (oinv_pop _ _ _ Hi2 Epp) as Hi3.
      destruct k.
      + bind_inv H st4 E4. rewrite E4. cbn [bind]. bind_inv H st5 E5. rewrite E5. cbn [bind].
        bind_inv H st6 E6. rewrite E6. cbn [bind]. split; [exact H|].
        eapply oinv_unwind; [|exact H]. eapply oinv_with_top'; [|
          eapply oinv_append; [|exact E5];
          eapply oinv_with_top; [apply keeps_km; intros y y'; apply km_start_block|exact Hi3|exact E4]
          |exact E6]. reflexivity.
      + bind_inv H st4 E4. rewrite E4. cbn [bind]. bind_inv H st5 E5. rewrite E5. cbn [bind].
        bind_inv H st6 E6. rewrite E6. cbn [bind]. split; [exact H|].
        eapply oinv_unwind; [|exact H]. eapply oinv_with_top'; [|
          eapply oinv_append; [|exact E5];
          eapply oinv_with_top; [apply keeps_km; intros y y'; apply km_start_block|exact Hi3|exact E4]
          |exact E6]. reflexivity.
      + bind_inv H st4 E4. rewrite E4. cbn [bind]. split; [exact H|].
        eapply oinv_unwind; [|exact H]. eapply oinv_append; eassumption.
    - rewrite Forall_forall in IH. rewrite forallb_forall in Ht. destruct k as [|start].
      + cbn [srun] in *. bind_inv H ap E. destruct ap as [st p]. rewrite E. cbn [bind].
        pose proof (oinv_apply_style _ _ _ _ _ Hi E) as Hi0.
        bind_inv H st1 E1.
        match type of E1 with fold_left (fun acc item => do s <- acc; @?f item s) _ _ = _ =>
          match goal with |- context [fold_left (fun acc item => do s <- acc; @?g item s) (map sstrip l) _] =>
            destruct (mfold_sim_ok oinv f g sstrip l st st1 Hi0) as [E1' Hi1]; [|exact E1|]
          end end.
        { intros item Hitem a0 a1 Hi_0 E0. cbv beta in *.
          bind_inv E0 tp Etp. rewrite Etp. cbn [bind]. bind_inv E0 w Ew.
          rewrite (width_minus_0 tp _ _ w (oinv_top _ _ Hi_0 Etp) Ew). cbn [bind].
          bind_inv E0 s2 E2.
          destruct (IH item Hitem (Ht item Hitem) _ s2 (oinv_push a0 tp w Hi_0 Etp) E2) as [E2' Hi2].
          rewrite E2'. cbn [bind]. bind_inv E0 pp Epp. destruct pp as [sub s3]. rewrite Epp. cbn [bind].
          split; [exact E0|]. eapply oinv_append; [|exact E0]. eapply oinv_pop; eassumption. }
        rewrite E1'. cbn [bind]. split; [exact H|]. eapply oinv_unwind; eassumption.
      + cbn [srun] in *. rewrite map_length. bind_inv H ap E. destruct ap as [st p]. rewrite E. cbn [bind].
        pose proof (oinv_apply_style _ _ _ _ _ Hi E) as Hi0.
        bind_inv H r1 E1.
        match type of E1 with fold_left (fun acc item => do s <- acc; @?f item s) _ _ = _ =>
          match goal with |- context [fold_left (fun acc item => do s <- acc; @?g item s) (map sstrip l) _] =>
            destruct (mfold_sim_ok (fun si => oinv (fst si)) f g sstrip l (st, start) r1 Hi0) as [E1' Hi1];
              [|exact E1|]
          end end.
        { intros item Hitem [a0 i0] a1 Hi_0 E0. cbv beta in *. cbn [fst] in Hi_0.
          bind_inv E0 tp Etp. rewrite Etp. cbn [bind]. bind_inv E0 w Ew.
          rewrite (width_minus_0 tp _ _ w (oinv_top _ _ Hi_0 Etp) Ew). cbn [bind].
          bind_inv E0 s2 E2.
          destruct (IH item Hitem (Ht item Hitem) _ s2 (oinv_push a0 tp w Hi_0 Etp) E2) as [E2' Hi2].
          rewrite E2'. cbn [bind]. bind_inv E0 pp Epp. destruct pp as [sub s3]. rewrite Epp. cbn [bind].
          bind_inv E0 s4 E4. rewrite E4. cbn [bind]. split; [exact E0|]. ok_inv E0. cbn [fst].
          eapply oinv_append; [|exact E4]. eapply oinv_pop; eassumption. }
        rewrite E1'. cbn [bind]. split; [exact H|]. eapply oinv_unwind; eassumption.
    - discriminate.
  Qed.
End Strip.

(* ---- the shape does not depend on the estimates ---- *)
Lemma sstrip_merge : forall l, map sstrip (merge l) = merge (map sstrip l).
Proof.
  induction l as [|x l IH]; [reflexivity|].
  destruct x; cbn [merge map sstrip]; try (rewrite IH; reflexivity).
  rewrite <- IH. destruct (merge l) as [|[u| | | | |] m']; reflexivity.
Qed.

Lemma sstrip_splice x : map sstrip (splice x) = splice (sstrip x).
Proof.
  destruct x as [t|k s|k s l|k s i l|k s i l|s rows nc]; try reflexivity.
  destruct k; try reflexivity. cbn [splice sstrip]. destruct (neutral s); reflexivity.
Qed.

Lemma sstrip_glue xs : map sstrip (glue xs) = glue (map sstrip xs).
Proof.
  unfold glue. rewrite sstrip_merge. f_equal.
  induction xs as [|x xs IH]; [reflexivity|]. cbn [flat_map map]. rewrite map_app, sstrip_splice, IH.
  reflexivity.
Qed.

Lemma sstrip_stext s t : sstrip (stext s t) = stext s t.
Proof. unfold stext. destruct (neutral s); reflexivity. Qed.

Lemma sgn_unfE E i s : sgn E (RN i s) =
    match i with
    | IText t => stext s t
    | IContainer cs => SWrap WCont s (sgns E cs)
    | ILink h cs => SWrap (WLink h) s (sgns E cs)
    | IEm cs => SWrap WEm s (sgns E cs)
    | IStrong cs => SWrap WStrong s (sgns E cs)
    | IStrikeout cs => SWrap WStrike s (sgns E cs)
    | ICode cs => SWrap WCode s (sgns E cs)
    | IImg a b => SLeaf (LImg a b) s
    | IBlock cs | IListItem cs => SWrap WBlock s (sgns E cs)
    | IHeader l cs => SPre (PHeader l) s (e_min (E cs)) (sgns E cs)
    | IDiv cs => SWrap WDiv s (sgns E cs)
    | IBlockQuote cs => SPre PQuote s (e_min (E cs)) (sgns E cs)
    | IUl cs => SList QUl s (e_min (E cs)) (map (sgn E) cs)
    | IOl z cs => SList (QOl z) s (e_min (E cs)) (map (sgn E) cs)
    | IDl cs => SWrap WDl s (sgns E cs)
    | IDt cs => SWrap WDt s (sgns E cs)
    | IDd cs => SPre PDd s (e_min (E cs)) (sgns E cs)
    | IBreak => SLeaf LBreak s
    | ITable rows nc => STable s (map (sgn_row E) rows) nc
    | ITableBody _ | ITableRow _ | ITableCell _ => SLeaf LBad s
    | IFragStart nm => SLeaf (LFrag nm) s
    | ISup cs =>
      match sup_digits cs with
      | Some ds => stext s ds
      | None => SWrap WSup s (sgns E cs)
      end
    end.
Proof. destruct i; reflexivity. Qed.

Lemma sstrip_sgn_indep (E E' : list rnode -> est) : forall n, sstrip (sgn E n) = sstrip (sgn E' n).
Proof.
  apply rnode_ind'. intros i sty IH.
  assert (Km : forall cs, Forall (fun n => sstrip (sgn E n) = sstrip (sgn E' n)) cs ->
                          map sstrip (map (sgn E) cs) = map sstrip (map (sgn E') cs)).
  { induction 1 as [|c cs Hc _ IHc]; [reflexivity|]. cbn [map]. rewrite Hc, IHc. reflexivity. }
  assert (K : forall cs, Forall (fun n => sstrip (sgn E n) = sstrip (sgn E' n)) cs ->
                         map sstrip (sgns E cs) = map sstrip (sgns E' cs)).
  { intros cs HF. unfold sgns. rewrite !sstrip_glue, (Km cs HF). reflexivity. }
  assert (KC : forall cells, Forall (fun n => sstrip (sgn E n) = sstrip (sgn E' n)) (flat_map cell_content cells) ->
             map (fun c => match c with SCell n _ k cs => SCell n est0 (map sstrip k) cs end)
                 (map (sgn_cell E) cells) =
             map (fun c => match c with SCell n _ k cs => SCell n est0 (map sstrip k) cs end)
                 (map (sgn_cell E') cells)).
  { induction cells as [|[n k s] cells IHc]; intros HF; [reflexivity|].
    cbn [flat_map cell_content] in HF. apply Forall_app in HF. destruct HF as [H1 H2].
    cbn [map sgn_cell]. rewrite (K k H1), (IHc H2). reflexivity. }
  assert (KR : forall rows, Forall (fun n => sstrip (sgn E n) = sstrip (sgn E' n)) (flat_map row_kids rows) ->
             map (fun r => match r with
                           | SRow cells rs =>
                             SRow (map (fun c => match c with SCell n _ k cs => SCell n est0 (map sstrip k) cs end)
                                       cells) rs
                           end) (map (sgn_row E) rows) =
             map (fun r => match r with
                           | SRow cells rs =>
                             SRow (map (fun c => match c with SCell n _ k cs => SCell n est0 (map sstrip k) cs end)
                                       cells) rs
                           end) (map (sgn_row E') rows)).
  { induction rows as [|[cells s] rows IHr]; intros HF; [reflexivity|].
    cbn [flat_map] in HF. apply Forall_app in HF. destruct HF as [H1 H2]. unfold row_kids in H1.
    cbn [row_cells] in H1. cbn [map sgn_row]. rewrite (KC cells H1), (IHr H2). reflexivity. }
  rewrite !sgn_unfE.
  destruct i; cbn [direct_kids] in IH; cbn [sstrip]; rewrite ?sstrip_stext;
    rewrite ?(K _ IH), ?(Km _ IH), ?(KR _ IH); try reflexivity.
  destruct (sup_digits cs); cbn [sstrip]; rewrite ?(K _ IH); reflexivity.
Qed.

Definition E0 (_ : list rnode) : est := est0.
(* the shape of a render tree: neutral containers dissolved, adjacent neutral texts concatenated,
   a <sup> over a sole all-digit text replaced by its superscript text; no estimates *)
Definition sshape (t : rnode) : snode := sstrip (sgn E0 t).

(* (A) two trees are split-equivalent when they have the same shape (section 10 shows that this
   contains the congruence closure of the two rewrites) *)
Definition split_equiv (t1 t2 : rnode) : Prop := sshape t1 = sshape t2.
Definition table_free (t : rnode) : bool := stfree (sshape t).

Lemma stfree_sstrip : forall x, stfree (sstrip x) = stfree x.
Proof.
  apply snode_ind'. intros x IH.
  assert (K : forall l, Forall (fun x => stfree (sstrip x) = stfree x) l ->
                        forallb stfree (map sstrip l) = forallb stfree l).
  { induction 1 as [|y l Hy _ IHl]; [reflexivity|]. cbn [map forallb]. rewrite Hy, IHl. reflexivity. }
  destruct x; cbn [sdirect] in IH; cbn [sstrip stfree]; auto.
Qed.

Lemma sshape_sgn E t : sstrip (sgn E t) = sshape t.
Proof. apply sstrip_sgn_indep. Qed.

(* THEOREM 3 (B): split-equivalent table-free trees, rendered without allow_width_overflow, give
   the same result whenever both renderings succeed -- at every width, for every decorator and
   every other option. *)
Theorem split_equiv_both_ok d mw o width t1 t2 s1 s2 :
  tree_ok t1 = true -> tree_ok t2 = true ->
  table_free t1 = true -> o_allow_overflow o = false ->
  split_equiv t1 t2 ->
  render_tree d mw o width t1 = Ok s1 -> render_tree d mw o width t2 = Ok s2 ->
  s1 = s2.
Proof.
  intros Hok1 Hok2 Htf Ho He R1 R2.
  assert (K : forall t s, tree_ok t = true -> table_free t = true ->
              render_tree d mw o width t = Ok s ->
              exists st, srun d (sshape t) (mkrst [sub_new width o] []) = Ok st /\ fin_tree st = Ok s).
  { intros t s Hok Ht R.
    assert (Ee : exists e, est_node d mw t = Ok e).
    { unfold render_tree, est_of in R. destruct (est_node d mw t); try discriminate. eauto. }
    destruct Ee as (e & Ee).
    rewrite (render_tree_factor d mw o width t Hok (est_ok_deep d mw t e Ee)) in R.
    unfold srun_tree in R. bind_inv R st Hst. exists st. split; [|exact R].
    rewrite <- (sshape_sgn (Ek d mw) t).
    apply (srun_sstrip d (sgn (Ek d mw) t)); [| |exact Hst].
    - rewrite <- stfree_sstrip, sshape_sgn. exact Ht.
    - constructor; [exact Ho|constructor]. }
  assert (Htf2 : table_free t2 = true) by (unfold table_free; rewrite <- He; exact Htf).
  destruct (K t1 s1 Hok1 Htf R1) as (st1 & E1 & F1).
  destruct (K t2 s2 Hok2 Htf2 R2) as (st2 & E2 & F2).
  unfold split_equiv in He. rewrite He in E1. rewrite E1 in E2. ok_inv E2.
  rewrite F1 in F2. ok_inv F2. reflexivity.
Qed.
Print Assumptions split_equiv_both_ok.

(* ================================================================== *)
(* 9. Examples and counterexamples                                      *)
(* ================================================================== *)
Definition txn (l : list N) : rnode := ex_n (IText (exw_str l)).
Definition span (ks : list rnode) : rnode := ex_n (IContainer ks).

(* <p>hello wide world</p><blockquote>one two three</blockquote><ul><li>ab cd ef</li></ul> *)
Definition exs_tree1 : rnode :=
  span [ex_n (IBlock [txn [104;101;108;108;111;32;119;105;100;101;32;119;111;114;108;100]]);
        ex_n (IBlockQuote [txn [111;110;101;32;116;119;111;32;116;104;114;101;101]]);
        ex_n (IUl [ex_n (IListItem [txn [97;98;32;99;100;32;101;102]])])].
(* the same with text nodes split (comments) and inline runs wrapped in spans:
   <p>hello <!---->wide<span> world</span></p>
   <blockquote><span>one <span>two</span></span> three</blockquote>
   <ul><li>ab <!---->cd<!----> ef</li></ul> *)
Definition exs_tree2 : rnode :=
  span [ex_n (IBlock [txn [104;101;108;108;111;32]; txn [119;105;100;101]; span [txn [32;119;111;114;108;100]]]);
        ex_n (IBlockQuote [span [txn [111;110;101;32]; span [txn [116;119;111]]]; txn [32;116;104;114;101;101]]);
        ex_n (IUl [ex_n (IListItem [txn [97;98;32]; txn [99;100]; txn [32;101;102]])])].

Example exs_hyps :
  split_equiv exs_tree1 exs_tree2 /\ exs_tree1 <> exs_tree2 /\
  tree_ok exs_tree1 = true /\ tree_ok exs_tree2 = true /\ table_free exs_tree1 = true /\
  o_allow_overflow exb_opts = false.
Proof.
  split; [vm_compute; reflexivity|]. split; [discriminate|]. repeat split; reflexivity.
Qed.

Example exs_both_ok :
  out_of (render_tree plain_deco 3 exb_opts 12 exs_tree1) =
    Ok [[104;101;108;108;111;32;119;105;100;101]; [119;111;114;108;100]; [];
        [62;32;111;110;101;32;116;119;111]; [62;32;116;104;114;101;101];
        [42;32;97;98;32;99;100;32;101;102]] /\
  exists s, render_tree plain_deco 3 exb_opts 12 exs_tree1 = Ok s /\
            render_tree plain_deco 3 exb_opts 12 exs_tree2 = Ok s.
Proof.
  split; [vm_compute; reflexivity|].
  destruct (render_tree plain_deco 3 exb_opts 12 exs_tree1) as [s1| | |] eqn:E1;
    [|vm_compute in E1; discriminate..].
  destruct (render_tree plain_deco 3 exb_opts 12 exs_tree2) as [s2| | |] eqn:E2;
    [|vm_compute in E2; discriminate..].
  destruct exs_hyps as (He & _ & H1 & H2 & Ht & Ho).
  exists s1. split; [reflexivity|].
  rewrite (split_equiv_both_ok plain_deco 3 exb_opts 12 _ _ s1 s2 H1 H2 Ht Ho He E1 E2). reflexivity.
Qed.

(* the strict theorem applies when the estimates read by the renderer agree: here every piece of
   text is at least as long as min_wrap = 3 columns, or stands alone in its block *)
Definition exs_tree3 : rnode :=
  span [ex_n (IBlockQuote [txn [111;110;101;32;116;119;111;32;116;104;114;101;101]]);
        ex_n (ITable [RRow [RCell 1 [txn [97;98;99;100]; txn [32;101;102;103;104]] cstyle0;
                            RCell 1 [span [txn [105;106;107]]] cstyle0] cstyle0] 2)].
Definition exs_tree4 : rnode :=
  span [ex_n (IBlockQuote [span [txn [111;110;101;32]; txn [116;119;111]; txn [32;116;104;114;101;101]]]);
        ex_n (ITable [RRow [RCell 1 [txn [97;98;99;100]; span [txn [32;101;102;103;104]]] cstyle0;
                            RCell 1 [txn [105;106;107]] cstyle0] cstyle0] 2)].
Example exs_safe :
  split_safe plain_deco 3 exs_tree3 exs_tree4 /\ exs_tree3 <> exs_tree4 /\
  tree_ok exs_tree3 = true /\ tree_ok exs_tree4 = true /\
  isok (est_node plain_deco 3 exs_tree3) = true /\ isok (est_node plain_deco 3 exs_tree4) = true.
Proof.
  split; [vm_compute; reflexivity|]. split; [discriminate|]. repeat split; reflexivity.
Qed.
Example exs_safe_applies :
  render_tree plain_deco 3 exb_opts 16 exs_tree3 = render_tree plain_deco 3 exb_opts 16 exs_tree4 /\
  out_of (render_tree plain_deco 3 exb_opts 16 exs_tree3) =
    Ok [[62;32;111;110;101;32;116;119;111;32;116;104;114;101;101]; [];
        [9472;9472;9472;9472;9472;9472;9472;9472;9472;9516;9472;9472;9472];
        [97;98;99;100;32;101;102;103;104;9474;105;106;107];
        [9472;9472;9472;9472;9472;9472;9472;9472;9472;9524;9472;9472;9472]] /\
  render_tree plain_deco 3 exb_opts 4 exs_tree3 = TooNarrow /\
  render_tree plain_deco 3 exb_opts 4 exs_tree4 = TooNarrow.
Proof.
  destruct exs_safe as (Hs & _ & H1 & H2 & E1 & E2).
  destruct (est_node plain_deco 3 exs_tree3) as [e1| | |] eqn:Ee1; try discriminate.
  destruct (est_node plain_deco 3 exs_tree4) as [e2| | |] eqn:Ee2; try discriminate.
  split; [exact (split_safe_render plain_deco 3 exb_opts 16 _ _ e1 e2 H1 H2 Ee1 Ee2 Hs)|].
  split; [vm_compute; reflexivity|].
  rewrite <- (split_safe_render plain_deco 3 exb_opts 4 _ _ e1 e2 H1 H2 Ee1 Ee2 Hs).
  split; vm_compute; reflexivity.
Qed.

(* (C)(1) without split_safe the OUTCOME can differ: <ul><li>a b</li></ul> at width 4 is
   TooNarrow (estimated minimum min(3, min_wrap) + 2 = 5), with the text split after "a " -- by a
   comment or by a span around "b" -- it renders (the recorded finding short_split_min_width). *)
Definition exc_ul1 : rnode := ex_n (IUl [ex_n (IListItem [txn [97;32;98]])]).
Definition exc_ul2 : rnode := ex_n (IUl [ex_n (IListItem [txn [97;32]; txn [98]])]).
Definition exc_ul3 : rnode := ex_n (IUl [ex_n (IListItem [txn [97;32]; span [txn [98]]])]).
Example exc_too_narrow_one_side :
  split_equiv exc_ul1 exc_ul2 /\ split_equiv exc_ul1 exc_ul3 /\
  ~ split_safe plain_deco 3 exc_ul1 exc_ul2 /\
  render_tree plain_deco 3 exb_opts 4 exc_ul1 = TooNarrow /\
  out_of (render_tree plain_deco 3 exb_opts 4 exc_ul2) = Ok [[42;32;97]; [32;32;98]] /\
  out_of (render_tree plain_deco 3 exb_opts 4 exc_ul3) = Ok [[42;32;97]; [32;32;98]].
Proof.
  split; [vm_compute; reflexivity|]. split; [vm_compute; reflexivity|].
  split; [vm_compute; discriminate|]. repeat split; vm_compute; reflexivity.
Qed.

(* (C)(2) two SUCCESSFUL renderings can differ.
   (a) NEW FINDING, table-free: with allow_width_overflow a prefixed block that does not fit is
   given its estimated minimum width, so the estimate decides the layout:
   <blockquote>a b</blockquote> at width 3 renders "> a b", <blockquote>a <!---->b</blockquote>
   renders "> a" / "> b" (the same for ul, ol, dd, headings; html2text agrees). *)
Definition ovf_opts : ropts := with_overflow exb_opts.
Definition exc_q1 : rnode := ex_n (IBlockQuote [txn [97;32;98]]).
Definition exc_q2 : rnode := ex_n (IBlockQuote [txn [97;32]; txn [98]]).
Example exc_overflow_differs :
  split_equiv exc_q1 exc_q2 /\ table_free exc_q1 = true /\
  tree_ok exc_q1 = true /\ tree_ok exc_q2 = true /\ o_allow_overflow ovf_opts = true /\
  out_of (render_tree plain_deco 3 ovf_opts 3 exc_q1) = Ok [[62;32;97;32;98]] /\
  out_of (render_tree plain_deco 3 ovf_opts 3 exc_q2) = Ok [[62;32;97]; [62;32;98]].
Proof.
  split; [vm_compute; reflexivity|]. repeat split; vm_compute; reflexivity.
Qed.

(* (b) in a table the estimated sizes decide the column widths:
   <table><tr><td>a b c d<td>xxxx yyyy</table> at width 12, and the same with comments after
   "a ", "b ", "c " *)
Definition cellk (ks : list rnode) : rcell := RCell 1 ks cstyle0.
Definition exc_t1 : rnode :=
  ex_n (ITable [RRow [cellk [txn [97;32;98;32;99;32;100]];
                      cellk [txn [120;120;120;120;32;121;121;121;121]]] cstyle0] 2).
Definition exc_t2 : rnode :=
  ex_n (ITable [RRow [cellk [txn [97;32]; txn [98;32]; txn [99;32]; txn [100]];
                      cellk [txn [120;120;120;120;32;121;121;121;121]]] cstyle0] 2).
Example exc_table_differs :
  split_equiv exc_t1 exc_t2 /\ table_free exc_t1 = false /\
  out_of (render_tree plain_deco 3 exb_opts 12 exc_t1) =
    Ok [[9472;9472;9472;9472;9472;9516;9472;9472;9472;9472;9472;9472];
        [97;32;98;32;99;9474;120;120;120;120;32;32];
        [100;32;32;32;32;9474;121;121;121;121;32;32];
        [9472;9472;9472;9472;9472;9524;9472;9472;9472;9472;9472;9472]] /\
  out_of (render_tree plain_deco 3 exb_opts 12 exc_t2) =
    Ok [[9472;9472;9472;9516;9472;9472;9472;9472;9472;9472;9472;9472];
        [97;32;98;9474;120;120;120;120;32;32;32;32];
        [99;32;100;9474;121;121;121;121;32;32;32;32];
        [9472;9472;9472;9524;9472;9472;9472;9472;9472;9472;9472;9472]].
Proof.
  split; [vm_compute; reflexivity|]. repeat split; vm_compute; reflexivity.
Qed.

(* (D) <sup> looks at the shape of its children: over a sole all-digit text node it writes
   superscript digits, and a span around the digits (or a split of the digits) switches that off.
   The two trees below differ only by a neutral container, yet they are NOT split-equivalent: the
   signature records the result of Render.sup_digits (the recorded finding sup_digits_wrapped). *)
Definition exc_sup1 : rnode := ex_n (ISup [txn [52;55]]).
Definition exc_sup2 : rnode := ex_n (ISup [span [txn [52;55]]]).
Definition exc_sup3 : rnode := ex_n (ISup [txn [52]; txn [55]]).
Example exc_sup_differs :
  ~ split_equiv exc_sup1 exc_sup2 /\ ~ split_equiv exc_sup1 exc_sup3 /\ split_equiv exc_sup2 exc_sup3 /\
  out_of (render_tree plain_deco 3 exb_opts 10 exc_sup1) = Ok [[8308;8311]] /\
  out_of (render_tree plain_deco 3 exb_opts 10 exc_sup2) = Ok [[94;123;52;55;125]] /\
  out_of (render_tree plain_deco 3 exb_opts 10 exc_sup3) = Ok [[94;123;52;55;125]].
Proof.
  split; [vm_compute; discriminate|]. split; [vm_compute; discriminate|].
  split; [vm_compute; reflexivity|]. repeat split; vm_compute; reflexivity.
Qed.

(* ================================================================== *)
(* 10. (A) The congruence closure of the two rewrites                   *)
(* ================================================================== *)
(* the node kinds whose children are rendered one after the other as a run *)
Inductive runlike : (list rnode -> rinfo) -> Prop :=
| RL_cont : runlike IContainer
| RL_link h : runlike (ILink h)
| RL_em : runlike IEm
| RL_strong : runlike IStrong
| RL_strike : runlike IStrikeout
| RL_code : runlike ICode
| RL_block : runlike IBlock
| RL_header l : runlike (IHeader l)
| RL_div : runlike IDiv
| RL_quote : runlike IBlockQuote
| RL_dl : runlike IDl
| RL_dt : runlike IDt
| RL_dd : runlike IDd
| RL_li : runlike IListItem.

(* sq: nodes, lsq: runs of siblings, isq: list items (one sub-renderer each), rsq / csq: table rows /
   cells.  The two generating rewrites are lsq_split (a neutral text node cut in two, anywhere --
   the position need not even be next to whitespace) and lsq_wrap (a run of siblings -- of any kind
   -- put into a container with a neutral style, the render node of a bare <span>).  Below <sup>
   the congruence rule asks that Render.sup_digits is not affected (see exc_sup_differs). *)
Inductive sq : rnode -> rnode -> Prop :=
| sq_refl n : sq n n
| sq_sym n m : sq n m -> sq m n
| sq_trans n m k : sq n m -> sq m k -> sq n k
| sq_run f c1 c2 s : runlike f -> lsq c1 c2 -> sq (RN (f c1) s) (RN (f c2) s)
| sq_sup c1 c2 s : lsq c1 c2 -> sup_digits c1 = sup_digits c2 -> sq (RN (ISup c1) s) (RN (ISup c2) s)
| sq_ul c1 c2 s : isq c1 c2 -> sq (RN (IUl c1) s) (RN (IUl c2) s)
| sq_ol z c1 c2 s : isq c1 c2 -> sq (RN (IOl z c1) s) (RN (IOl z c2) s)
| sq_table r1 r2 nc s : rsq r1 r2 -> sq (RN (ITable r1 nc) s) (RN (ITable r2 nc) s)
with lsq : list rnode -> list rnode -> Prop :=
| lsq_refl l : lsq l l
| lsq_sym l m : lsq l m -> lsq m l
| lsq_trans l m k : lsq l m -> lsq m k -> lsq l k
| lsq_split t1 t2 s s1 s2 :
    neutral s = true -> neutral s1 = true -> neutral s2 = true ->
    lsq [RN (IText (t1 ++ t2)) s] [RN (IText t1) s1; RN (IText t2) s2]
| lsq_wrap ks s : neutral s = true -> lsq ks [RN (IContainer ks) s]
| lsq_app a a' b b' : lsq a a' -> lsq b b' -> lsq (a ++ b) (a' ++ b')
| lsq_one n n' : sq n n' -> lsq [n] [n']
with isq : list rnode -> list rnode -> Prop :=
| isq_nil : isq [] []
| isq_cons n n' l l' : sq n n' -> isq l l' -> isq (n :: l) (n' :: l')
with rsq : list rrow -> list rrow -> Prop :=
| rsq_nil : rsq [] []
| rsq_cons c1 c2 s r1 r2 : csq c1 c2 -> rsq r1 r2 -> rsq (RRow c1 s :: r1) (RRow c2 s :: r2)
with csq : list rcell -> list rcell -> Prop :=
| csq_nil : csq [] []
| csq_cons n k1 k2 s c1 c2 : lsq k1 k2 -> csq c1 c2 -> csq (RCell n k1 s :: c1) (RCell n k2 s :: c2).

Scheme sq_mind := Minimality for sq Sort Prop
  with lsq_mind := Minimality for lsq Sort Prop
  with isq_mind := Minimality for isq Sort Prop
  with rsq_mind := Minimality for rsq Sort Prop
  with csq_mind := Minimality for csq Sort Prop.
Combined Scheme sq_all_ind from sq_mind, lsq_mind, isq_mind, rsq_mind, csq_mind.

(* ---- merge is a normalisation ---- *)
Lemma merge_app_l : forall x y, merge (x ++ y) = merge (merge x ++ y).
Proof.
  induction x as [|e x IH]; intros y; [reflexivity|].
  destruct e as [t| | | | |]; cbn [app merge]; try (rewrite IH; reflexivity).
  destruct (merge x) as [|[u| | | | |] m'] eqn:Em; cbn [app merge]; rewrite IH; cbn [app merge];
    try reflexivity.
  destruct (merge (m' ++ y)) as [|[v| | | | |] r']; rewrite <- ?app_assoc; reflexivity.
Qed.

Lemma merge_idem x : merge (merge x) = merge x.
Proof.
  pose proof (merge_app_l x []) as H. rewrite !app_nil_r in H. symmetry. exact H.
Qed.

Lemma merge_app_r : forall x y, merge (x ++ y) = merge (x ++ merge y).
Proof.
  induction x as [|e x IH]; intros y; cbn [app]; [symmetry; apply merge_idem|].
  destruct e; cbn [merge]; rewrite IH; reflexivity.
Qed.

Lemma merge_app x y : merge (x ++ y) = merge (merge x ++ merge y).
Proof. rewrite merge_app_l, merge_app_r. reflexivity. Qed.

(* ---- shapes of sibling runs ---- *)
Definition sshapes (cs : list rnode) : list snode := glue (map sshape cs).

Lemma sshapes_sgns E cs : map sstrip (sgns E cs) = sshapes cs.
Proof.
  unfold sgns, sshapes. rewrite sstrip_glue, map_map. f_equal. apply map_ext. intros c. apply sshape_sgn.
Qed.

Lemma sshapes_app a b : sshapes (a ++ b) = merge (sshapes a ++ sshapes b).
Proof. unfold sshapes, glue. rewrite map_app, flat_map_app. apply merge_app. Qed.

Lemma sshapes_merge cs : merge (sshapes cs) = sshapes cs.
Proof. unfold sshapes, glue. apply merge_idem. Qed.

Definition sshape_cell (c : rcell) : scell :=
  match c with RCell n k s => SCell n est0 (sshapes k) s end.
Definition sshape_row (r : rrow) : srow :=
  match r with RRow cells s => SRow (map sshape_cell cells) s end.

Lemma sshape_unf i s : sshape (RN i s) =
    match i with
    | IText t => stext s t
    | IContainer cs => SWrap WCont s (sshapes cs)
    | ILink h cs => SWrap (WLink h) s (sshapes cs)
    | IEm cs => SWrap WEm s (sshapes cs)
    | IStrong cs => SWrap WStrong s (sshapes cs)
    | IStrikeout cs => SWrap WStrike s (sshapes cs)
    | ICode cs => SWrap WCode s (sshapes cs)
    | IImg a b => SLeaf (LImg a b) s
    | IBlock cs | IListItem cs => SWrap WBlock s (sshapes cs)
    | IHeader l cs => SPre (PHeader l) s 0 (sshapes cs)
    | IDiv cs => SWrap WDiv s (sshapes cs)
    | IBlockQuote cs => SPre PQuote s 0 (sshapes cs)
    | IUl cs => SList QUl s 0 (map sshape cs)
    | IOl z cs => SList (QOl z) s 0 (map sshape cs)
    | IDl cs => SWrap WDl s (sshapes cs)
    | IDt cs => SWrap WDt s (sshapes cs)
    | IDd cs => SPre PDd s 0 (sshapes cs)
    | IBreak => SLeaf LBreak s
    | ITable rows nc => STable s (map sshape_row rows) nc
    | ITableBody _ | ITableRow _ | ITableCell _ => SLeaf LBad s
    | IFragStart nm => SLeaf (LFrag nm) s
    | ISup cs =>
      match sup_digits cs with
      | Some ds => stext s ds
      | None => SWrap WSup s (sshapes cs)
      end
    end.
Proof.
  unfold sshape. rewrite sgn_unfE.
  destruct i; cbn [sstrip]; rewrite ?sstrip_stext, ?sshapes_sgns, ?map_map; try reflexivity.
  - (* ITable *) f_equal. apply map_ext. intros [cells rs]. cbn [sgn_row sshape_row]. f_equal.
    rewrite map_map. apply map_ext. intros [n k cs]. cbn [sgn_cell sshape_cell].
    rewrite sshapes_sgns. reflexivity.
  - (* ISup *) destruct (sup_digits cs); cbn [sstrip]; rewrite ?sstrip_stext, ?sshapes_sgns; reflexivity.
Qed.

(* the closure is contained in split_equiv *)
Theorem sq_sound :
  (forall n m, sq n m -> sshape n = sshape m) /\
  (forall l m, lsq l m -> sshapes l = sshapes m) /\
  (forall l m, isq l m -> map sshape l = map sshape m) /\
  (forall r r', rsq r r' -> map sshape_row r = map sshape_row r') /\
  (forall c c', csq c c' -> map sshape_cell c = map sshape_cell c').
Proof.
  apply sq_all_ind; intros; try congruence; try reflexivity.
  - (* sq_run *) rewrite !sshape_unf. destruct H; rewrite H1; reflexivity.
  - (* sq_sup *) rewrite !sshape_unf, H0, H1. reflexivity.
  - (* sq_ul *) rewrite !sshape_unf, H0. reflexivity.
  - (* sq_ol *) rewrite !sshape_unf, H0. reflexivity.
  - (* sq_table *) rewrite !sshape_unf, H0. reflexivity.
  - (* lsq_split *) unfold sshapes. cbn [map]. rewrite !sshape_unf. unfold stext. rewrite H, H0, H1.
    reflexivity.
  - (* lsq_wrap *) unfold sshapes at 2. cbn [map]. rewrite sshape_unf. unfold glue. cbn [flat_map splice].
    rewrite H, app_nil_r. symmetry; apply sshapes_merge.
  - (* lsq_app *) rewrite !sshapes_app, H0, H2. reflexivity.
  - (* lsq_one *) unfold sshapes. cbn [map]. rewrite H0. reflexivity.
  - (* isq_cons *) cbn [map]. rewrite H0, H2. reflexivity.
  - (* rsq_cons *) cbn [map sshape_row]. rewrite H0, H2. reflexivity.
  - (* csq_cons *) cbn [map sshape_cell]. rewrite H0, H2. reflexivity.
Qed.

Corollary sq_split_equiv t1 t2 : sq t1 t2 -> split_equiv t1 t2.
Proof. apply (proj1 sq_sound). Qed.
Print Assumptions sq_split_equiv.

(* non-vacuity of the closure: <span>a b</span> and <span>a <span>b</span></span> *)
Example exs_sq :
  sq (span [txn [97;32;98]]) (span [txn [97;32]; span [txn [98]]]) /\
  span [txn [97;32;98]] <> span [txn [97;32]; span [txn [98]]].
Proof.
  split; [|discriminate]. apply (sq_run IContainer); [constructor|].
  eapply lsq_trans.
  - apply (lsq_split (exw_str [97;32]) (exw_str [98]) cstyle0 cstyle0 cstyle0); reflexivity.
  - apply (lsq_app [txn [97;32]] [txn [97;32]] [txn [98]] [span [txn [98]]]); [apply lsq_refl|].
    apply lsq_wrap. reflexivity.
Qed.

(* ---- consequences for the closure; decidability ---- *)
Lemma split_safe_equiv d mw t1 t2 : split_safe d mw t1 t2 -> split_equiv t1 t2.
Proof.
  unfold split_safe, split_equiv. intros H.
  rewrite <- (sshape_sgn (Ek d mw) t1), <- (sshape_sgn (Ek d mw) t2), H. reflexivity.
Qed.

(* (B) for the closure of the two rewrites *)
Corollary c13_split_both_ok d mw o width t1 t2 s1 s2 :
  sq t1 t2 -> tree_ok t1 = true -> tree_ok t2 = true ->
  table_free t1 = true -> o_allow_overflow o = false ->
  render_tree d mw o width t1 = Ok s1 -> render_tree d mw o width t2 = Ok s2 ->
  s1 = s2 /\ sub_into_lines s1 = sub_into_lines s2 /\ sub_into_string s1 = sub_into_string s2.
Proof.
  intros Hsq H1 H2 Ht Ho R1 R2.
  assert (E : s1 = s2)
    by (eapply split_equiv_both_ok; [exact H1|exact H2|exact Ht|exact Ho|apply sq_split_equiv, Hsq|exact R1|exact R2]).
  subst s2. auto.
Qed.
Print Assumptions c13_split_both_ok.

Lemma chr_eq_dec (a b : chr) : {a = b} + {a <> b}.
Proof. repeat decide equality. Defined.
Lemma text_eq_dec (a b : text) : {a = b} + {a <> b}.
Proof. apply list_eq_dec, chr_eq_dec. Defined.
Lemma ws_eq_dec {A} (da : forall x y : A, {x = y} + {x <> y}) (a b : withspec A) : {a = b} + {a <> b}.
Proof. repeat decide equality. Defined.
Lemma cstyle_eq_dec (a b : cstyle) : {a = b} + {a <> b}.
Proof.
  assert (D1 : forall x y : N * N * N, {x = y} + {x <> y}) by (repeat decide equality).
  assert (D2 : forall x y : wsmode, {x = y} + {x <> y}) by (decide equality).
  assert (D3 : forall x y : cscore, {x = y} + {x <> y}).
  { decide equality; apply ws_eq_dec; auto using text_eq_dec, Bool.bool_dec. }
  decide equality; try apply Bool.bool_dec; decide equality.
Defined.
Lemma est_eq_dec (a b : est) : {a = b} + {a <> b}.
Proof. repeat decide equality. Defined.
Fixpoint snode_eq_dec (x y : snode) {struct x} : {x = y} + {x <> y}.
Proof.
  assert (DC : forall a b : scell, {a = b} + {a <> b}).
  { decide equality; try apply cstyle_eq_dec; try apply est_eq_dec; try apply N.eq_dec.
    apply (list_eq_dec snode_eq_dec). }
  assert (DR : forall a b : srow, {a = b} + {a <> b}).
  { decide equality; try apply cstyle_eq_dec. apply (list_eq_dec DC). }
  decide equality; try apply cstyle_eq_dec; try apply N.eq_dec; try apply text_eq_dec;
    try (apply (list_eq_dec snode_eq_dec)); try (apply (list_eq_dec DR));
    try (decide equality; try apply text_eq_dec; try apply N.eq_dec; apply Z.eq_dec).
Defined.

(* split_safe and split_equiv are decidable *)
Definition split_safe_dec d mw t1 t2 : {split_safe d mw t1 t2} + {~ split_safe d mw t1 t2} :=
  snode_eq_dec (sgn (Ek d mw) t1) (sgn (Ek d mw) t2).
Definition split_equiv_dec t1 t2 : {split_equiv t1 t2} + {~ split_equiv t1 t2} :=
  snode_eq_dec (sshape t1) (sshape t2).

(* ================================================================== *)
(* 11. The DOM: comments, split text nodes, bare spans                  *)
(* ================================================================== *)
(* ---- render trees that differ by splits of plain text nodes and neutral containers ---- *)
(* node kinds whose children are list items / are inspected one by one: no rewrite there *)
Inductive ptlike : (list rnode -> rinfo) -> Prop :=
| PT_ul : ptlike IUl
| PT_ol z : ptlike (IOl z)
| PT_sup : ptlike ISup.

(* tn: nodes; tw: sibling runs (splits and non-empty neutral containers); tl: sibling runs, splits
   only (for the parents that inspect their children: <a href>, <ol>, <dl>); tp: pointwise *)
Inductive tn : rnode -> rnode -> Prop :=
| tn_same n : tn n n
| tn_run f c1 c2 s : runlike f -> tw c1 c2 -> tn (RN (f c1) s) (RN (f c2) s)
| tn_pt f c1 c2 s : ptlike f -> tp c1 c2 -> tn (RN (f c1) s) (RN (f c2) s)
with tw : list rnode -> list rnode -> Prop :=
| tw_nil : tw [] []
| tw_cons x y l m : tn x y -> tw l m -> tw (x :: l) (y :: m)
| tw_peel_l t1 t2 l m :
    tw l (rn_new (IText t2) :: m) -> tw (rn_new (IText t1) :: l) (rn_new (IText (t1 ++ t2)) :: m)
| tw_peel_r t1 t2 l m :
    tw (rn_new (IText t2) :: l) m -> tw (rn_new (IText (t1 ++ t2)) :: l) (rn_new (IText t1) :: m)
| tw_wrap_l k ks s l m :
    neutral s = true -> tw (k :: ks ++ l) m -> tw (RN (IContainer (k :: ks)) s :: l) m
| tw_wrap_r k ks s l m :
    neutral s = true -> tw l (k :: ks ++ m) -> tw l (RN (IContainer (k :: ks)) s :: m)
with tl : list rnode -> list rnode -> Prop :=
| tl_nil : tl [] []
| tl_cons x y l m : tn x y -> tl l m -> tl (x :: l) (y :: m)
| tl_peel_l t1 t2 l m :
    tl l (rn_new (IText t2) :: m) -> tl (rn_new (IText t1) :: l) (rn_new (IText (t1 ++ t2)) :: m)
| tl_peel_r t1 t2 l m :
    tl (rn_new (IText t2) :: l) m -> tl (rn_new (IText (t1 ++ t2)) :: l) (rn_new (IText t1) :: m)
with tp : list rnode -> list rnode -> Prop :=
| tp_nil : tp [] []
| tp_cons x y l m : tn x y -> tp l m -> tp (x :: l) (y :: m).

Scheme tn_mind := Minimality for tn Sort Prop
  with tw_mind := Minimality for tw Sort Prop
  with tl_mind := Minimality for tl Sort Prop
  with tp_mind := Minimality for tp Sort Prop.
Combined Scheme tn_all_ind from tn_mind, tw_mind, tl_mind, tp_mind.

Lemma runlike_not_text f cs t : runlike f -> f cs <> IText t.
Proof. destruct 1; discriminate. Qed.
Lemma ptlike_not_text f cs t : ptlike f -> f cs <> IText t.
Proof. destruct 1; discriminate. Qed.

Lemma tn_text_l t s y : tn (RN (IText t) s) y -> y = RN (IText t) s.
Proof.
  intros H. remember (RN (IText t) s) as x eqn:Ex. destruct H as [n|f c1 c2 s' Hf _|f c1 c2 s' Hf _].
  - reflexivity.
  - exfalso. injection Ex as E _. eapply runlike_not_text; eassumption.
  - exfalso. injection Ex as E _. eapply ptlike_not_text; eassumption.
Qed.

Lemma tp_sup_digits c1 c2 : tp c1 c2 -> sup_digits c1 = sup_digits c2.
Proof.
  intros H. destruct H as [|x y l m Hxy Hl]; [reflexivity|].
  destruct Hl as [|x' y' l' m' _ _]; [|destruct x as [i s], y as [j s']; cbn [sup_digits]; reflexivity].
  destruct Hxy as [n|f c1 c2 s Hf _|f c1 c2 s Hf _]; [reflexivity| |]; destruct Hf; reflexivity.
Qed.

Lemma neutral0 : neutral cstyle0 = true.
Proof. reflexivity. Qed.

(* these trees are split-equivalent *)
Lemma tn_sq :
  (forall x y, tn x y -> sq x y) /\
  (forall l m, tw l m -> lsq l m) /\
  (forall l m, tl l m -> lsq l m) /\
  (forall l m, tp l m -> isq l m /\ lsq l m).
Proof.
  assert (Ksl : forall t1 t2 l m, lsq (rn_new (IText t2) :: l) m ->
                lsq (rn_new (IText (t1 ++ t2)) :: l) (rn_new (IText t1) :: m)).
  { intros t1 t2 l m H. eapply lsq_trans.
    - apply (lsq_app [rn_new (IText (t1 ++ t2))] [rn_new (IText t1); rn_new (IText t2)] l l);
        [|apply lsq_refl]. apply lsq_split; apply neutral0.
    - apply (lsq_app [rn_new (IText t1)] [rn_new (IText t1)] (rn_new (IText t2) :: l) m);
        [apply lsq_refl|exact H]. }
  assert (Kwr : forall ks s l, neutral s = true -> lsq (RN (IContainer ks) s :: l) (ks ++ l)).
  { intros. apply (lsq_app [RN (IContainer ks) s] ks l l); [|apply lsq_refl].
    apply lsq_sym, lsq_wrap. assumption. }
  apply tn_all_ind; intros.
  - apply sq_refl.
  - apply sq_run; assumption.
  - destruct H; [apply sq_ul, H1|apply sq_ol, H1|].
    apply sq_sup; [apply H1|apply tp_sup_digits, H0].
  - apply lsq_refl.
  - apply (lsq_app [x] [y] l m); [apply lsq_one, H0|exact H2].
  - apply lsq_sym, Ksl, lsq_sym, H0.
  - apply Ksl, H0.
  - eapply lsq_trans; [apply Kwr, H|exact H1].
  - eapply lsq_trans; [exact H1|apply lsq_sym, Kwr, H].
  - apply lsq_refl.
  - apply (lsq_app [x] [y] l m); [apply lsq_one, H0|exact H2].
  - apply lsq_sym, Ksl, lsq_sym, H0.
  - apply Ksl, H0.
  - split; [constructor|apply lsq_refl].
  - split; [constructor; [exact H0|apply H2]|].
    apply (lsq_app [x] [y] l m); [apply lsq_one, H0|apply H2].
Qed.

Corollary tn_split_equiv x y : tn x y -> split_equiv x y.
Proof. intros H. apply sq_split_equiv, (proj1 tn_sq), H. Qed.

(* plain induction principles for tw and tl *)
Lemma tw_ind' (Q : list rnode -> list rnode -> Prop) :
  Q [] [] ->
  (forall x y l m, tn x y -> tw l m -> Q l m -> Q (x :: l) (y :: m)) ->
  (forall t1 t2 l m, tw l (rn_new (IText t2) :: m) -> Q l (rn_new (IText t2) :: m) ->
                     Q (rn_new (IText t1) :: l) (rn_new (IText (t1 ++ t2)) :: m)) ->
  (forall t1 t2 l m, tw (rn_new (IText t2) :: l) m -> Q (rn_new (IText t2) :: l) m ->
                     Q (rn_new (IText (t1 ++ t2)) :: l) (rn_new (IText t1) :: m)) ->
  (forall k ks s l m, neutral s = true -> tw (k :: ks ++ l) m -> Q (k :: ks ++ l) m ->
                      Q (RN (IContainer (k :: ks)) s :: l) m) ->
  (forall k ks s l m, neutral s = true -> tw l (k :: ks ++ m) -> Q l (k :: ks ++ m) ->
                      Q l (RN (IContainer (k :: ks)) s :: m)) ->
  forall l m, tw l m -> Q l m.
Proof.
  intros Hn Hc Hl Hr Hwl Hwr l m H.
  apply (proj2 (A := tw l m)).
  apply (tw_mind tn (fun l m => tw l m /\ Q l m) tl tp); try exact H.
  - intros. apply tn_same.
  - intros f c1 c2 s Hf _ [Ht _]. apply tn_run; assumption.
  - intros f c1 c2 s Hf _ Ht. apply tn_pt; assumption.
  - split; [constructor|exact Hn].
  - intros x y l0 m0 _ Hxy _ [Ht Hq]. split; [constructor; assumption|apply Hc; assumption].
  - intros t1 t2 l0 m0 _ [Ht Hq]. split; [apply tw_peel_l, Ht|apply Hl; assumption].
  - intros t1 t2 l0 m0 _ [Ht Hq]. split; [apply tw_peel_r, Ht|apply Hr; assumption].
  - intros k ks s l0 m0 Hs _ [Ht Hq]. split; [apply tw_wrap_l; assumption|apply Hwl; assumption].
  - intros k ks s l0 m0 Hs _ [Ht Hq]. split; [apply tw_wrap_r; assumption|apply Hwr; assumption].
  - constructor.
  - intros x y l0 m0 _ Hxy _ Ht. constructor; assumption.
  - intros t1 t2 l0 m0 _ Ht. apply tl_peel_l, Ht.
  - intros t1 t2 l0 m0 _ Ht. apply tl_peel_r, Ht.
  - constructor.
  - intros x y l0 m0 _ Hxy _ Ht. constructor; assumption.
Qed.

Lemma tl_ind' (Q : list rnode -> list rnode -> Prop) :
  Q [] [] ->
  (forall x y l m, tn x y -> tl l m -> Q l m -> Q (x :: l) (y :: m)) ->
  (forall t1 t2 l m, tl l (rn_new (IText t2) :: m) -> Q l (rn_new (IText t2) :: m) ->
                     Q (rn_new (IText t1) :: l) (rn_new (IText (t1 ++ t2)) :: m)) ->
  (forall t1 t2 l m, tl (rn_new (IText t2) :: l) m -> Q (rn_new (IText t2) :: l) m ->
                     Q (rn_new (IText (t1 ++ t2)) :: l) (rn_new (IText t1) :: m)) ->
  forall l m, tl l m -> Q l m.
Proof.
  intros Hn Hc Hl Hr l m H.
  apply (proj2 (A := tl l m)).
  apply (tl_mind tn tw (fun l m => tl l m /\ Q l m) tp); try exact H.
  - intros. apply tn_same.
  - intros f c1 c2 s Hf _ Ht. apply tn_run; assumption.
  - intros f c1 c2 s Hf _ Ht. apply tn_pt; assumption.
  - constructor.
  - intros x y l0 m0 _ Hxy _ Ht. constructor; assumption.
  - intros t1 t2 l0 m0 _ Ht. apply tw_peel_l, Ht.
  - intros t1 t2 l0 m0 _ Ht. apply tw_peel_r, Ht.
  - intros k ks s l0 m0 Hs _ Ht. apply tw_wrap_l; assumption.
  - intros k ks s l0 m0 Hs _ Ht. apply tw_wrap_r; assumption.
  - split; [constructor|exact Hn].
  - intros x y l0 m0 _ Hxy _ [Ht Hq]. split; [constructor; assumption|apply Hc; assumption].
  - intros t1 t2 l0 m0 _ [Ht Hq]. split; [apply tl_peel_l, Ht|apply Hl; assumption].
  - intros t1 t2 l0 m0 _ [Ht Hq]. split; [apply tl_peel_r, Ht|apply Hr; assumption].
  - constructor.
  - intros x y l0 m0 _ Hxy _ Ht. constructor; assumption.
Qed.

Lemma tw_refl : forall l, tw l l.
Proof. induction l; constructor; [apply tn_same|assumption]. Qed.
Lemma tl_refl : forall l, tl l l.
Proof. induction l; constructor; [apply tn_same|assumption]. Qed.
Lemma tp_refl : forall l, tp l l.
Proof. induction l; constructor; [apply tn_same|assumption]. Qed.
Lemma tp_tl l m : tp l m -> tl l m.
Proof. induction 1; constructor; assumption. Qed.
Lemma tl_tw l m : tl l m -> tw l m.
Proof.
  revert l m. apply tl_ind'; intros.
  - constructor.
  - constructor; assumption.
  - apply tw_peel_l. assumption.
  - apply tw_peel_r. assumption.
Qed.

Lemma tw_nil_iff l m : tw l m -> (l = [] <-> m = []).
Proof.
  revert l m. apply tw_ind'; intros; split; intros E; try discriminate; try reflexivity.
  - apply H1 in E. discriminate.
  - apply H1 in E. discriminate.
Qed.
Lemma tl_nil_iff l m : tl l m -> (l = [] <-> m = []).
Proof. intros H. apply tw_nil_iff, tl_tw, H. Qed.
Lemma tp_nil_iff l m : tp l m -> (l = [] <-> m = []).
Proof. intros H. apply tl_nil_iff, tp_tl, H. Qed.

Lemma tw_app a a' b b' : tw a a' -> tw b b' -> tw (a ++ b) (a' ++ b').
Proof.
  intros Ha Hb. revert a a' Ha. apply tw_ind'; cbn [app]; intros.
  - exact Hb.
  - constructor; assumption.
  - apply tw_peel_l. assumption.
  - apply tw_peel_r. assumption.
  - apply tw_wrap_l; [assumption|]. cbn [app] in H1. rewrite <- app_assoc in H1. exact H1.
  - apply tw_wrap_r; [assumption|]. cbn [app] in H1. rewrite <- app_assoc in H1. exact H1.
Qed.

(* emptiness as seen by is_shallow_empty *)
Lemma shallow_text t s : is_shallow_empty (RN (IText t) s) = all_ws t.
Proof. cbn [is_shallow_empty rn_info]. apply trim_nil_iff. Qed.

Lemma tn_shallow x y : tn x y -> is_shallow_empty x = is_shallow_empty y.
Proof.
  intros H. destruct H as [n|f c1 c2 s Hf Ht|f c1 c2 s Hf Ht]; [reflexivity| |].
  - apply tw_nil_iff in Ht. destruct Hf; cbn [is_shallow_empty rn_info];
      destruct c1, c2; try reflexivity; exfalso; destruct Ht as [A B];
      try (discriminate (A eq_refl)); try (discriminate (B eq_refl)).
  - apply tp_nil_iff in Ht. destruct Hf; cbn [is_shallow_empty rn_info];
      destruct c1, c2; try reflexivity; exfalso; destruct Ht as [A B];
      try (discriminate (A eq_refl)); try (discriminate (B eq_refl)).
Qed.

Lemma tl_nonempty l m :
  tl l m -> existsb (fun c => negb (is_shallow_empty c)) l = existsb (fun c => negb (is_shallow_empty c)) m.
Proof.
  revert l m. apply tl_ind'; intros; cbn [existsb] in *.
  - reflexivity.
  - rewrite (tn_shallow x y H), H1. reflexivity.
  - rewrite H0. unfold rn_new. rewrite !shallow_text, all_ws_app.
    destruct (all_ws t1), (all_ws t2); reflexivity.
  - rewrite <- H0. unfold rn_new. rewrite !shallow_text, all_ws_app.
    destruct (all_ws t1), (all_ws t2); reflexivity.
Qed.

(* filters that keep nodes of certain kinds, never text *)
Definition kindp (p : rinfo -> bool) : Prop :=
  (forall t, p (IText t) = false) /\
  (forall f c1 c2, runlike f -> p (f c1) = p (f c2)) /\
  (forall f c1 c2, ptlike f -> p (f c1) = p (f c2)).

Lemma tn_kindp p x y : kindp p -> tn x y -> p (rn_info x) = p (rn_info y).
Proof.
  intros (_ & Hr & Hp) H. destruct H as [n|f c1 c2 s Hf _|f c1 c2 s Hf _]; cbn [rn_info]; auto.
Qed.

Lemma tl_filter p l m : kindp p -> tl l m -> tp (filter_info p l) (filter_info p m).
Proof.
  intros Hk. revert l m. unfold filter_info. apply tl_ind'; intros; cbn [filter] in *.
  - constructor.
  - rewrite (tn_kindp p x y Hk H). destruct (p (rn_info y)); [constructor|]; assumption.
  - unfold rn_new in *. cbn [rn_info] in *. rewrite !(proj1 Hk) in *. assumption.
  - unfold rn_new in *. cbn [rn_info] in *. rewrite !(proj1 Hk) in *. assumption.
Qed.

Lemma kindp_li : kindp (fun i => match i with IListItem _ => true | _ => false end).
Proof. split; [reflexivity|]. split; intros f c1 c2 Hf; destruct Hf; reflexivity. Qed.
Lemma kindp_dtdd : kindp (fun i => match i with IDt _ | IDd _ => true | _ => false end).
Proof. split; [reflexivity|]. split; intros f c1 c2 Hf; destruct Hf; reflexivity. Qed.

(* ---- insert_child, pseudo-element content, fragment markers ---- *)
Lemma tw_ins b a c1 c2 : tw c1 c2 -> tw (ins b a c1) (ins b a c2).
Proof.
  intros H. unfold ins. destruct b.
  - constructor; [apply tn_same|exact H].
  - apply tw_app; [exact H|apply tw_refl].
Qed.

Lemma tn_wrap_default a x y (b : bool) :
  tn x y ->
  tn (if b then rn_new (IContainer [a; x]) else rn_new (IContainer [x; a]))
     (if b then rn_new (IContainer [a; y]) else rn_new (IContainer [y; a])).
Proof.
  intros H. unfold rn_new. destruct b; apply (tn_run IContainer); try apply RL_cont.
  - apply tw_cons; [apply tn_same|]. apply tw_cons; [exact H|apply tw_nil].
  - apply tw_cons; [exact H|]. apply tw_cons; [apply tn_same|apply tw_nil].
Qed.

Lemma insert_child_tn a n1 n2 b : tn n1 n2 -> tn (insert_child a n1 b) (insert_child a n2 b).
Proof.
  intros H. pose proof H as H0. destruct H as [n|f c1 c2 s Hf Ht|f c1 c2 s Hf Ht].
  - apply tn_same.
  - destruct Hf; cbn [insert_child];
      try (apply tn_wrap_default; exact H0);
      match goal with |- tn (RN (?g _) _) _ => apply (tn_run g); [constructor|apply tw_ins, Ht] end.
  - destruct Hf; cbn [insert_child]; apply tn_wrap_default; exact H0.
Qed.

Lemma wrap_pseudo_tn computed n1 n2 : tn n1 n2 -> tn (wrap_pseudo computed n1) (wrap_pseudo computed n2).
Proof.
  intros H. unfold wrap_pseudo.
  assert (H1 : tn (match cs_before computed with
                   | Some c => match ws_val (c_content c) with
                               | Some t => insert_child (rn_new (IText (relabel L_deco t))) n1 true
                               | None => n1
                               end
                   | None => n1
                   end)
                  (match cs_before computed with
                   | Some c => match ws_val (c_content c) with
                               | Some t => insert_child (rn_new (IText (relabel L_deco t))) n2 true
                               | None => n2
                               end
                   | None => n2
                   end)).
  { destruct (cs_before computed) as [c|]; [|exact H].
    destruct (ws_val (c_content c)); [apply insert_child_tn, H|exact H]. }
  destruct (cs_after computed) as [c|]; [|exact H1].
  destruct (ws_val (c_content c)); [apply insert_child_tn, H1|exact H1].
Qed.

Definition otn (x y : option rnode) : Prop :=
  match x, y with Some a, Some b => tn a b | None, None => True | _, _ => False end.

Lemma post_tn computed frag b1 b2 : otn b1 b2 -> otn (post computed frag b1) (post computed frag b2).
Proof.
  unfold post. destruct b1 as [x|], b2 as [y|]; cbn [otn]; try contradiction; intros H.
  - destruct frag; cbn [otn]; [apply insert_child_tn|]; apply wrap_pseudo_tn, H.
  - destruct frag; cbn [otn]; [apply tn_same|exact I].
Qed.

(* ---- what `process` builds from related children ---- *)
(* the rewrites allowed among the children of an element:
   MPoint (none): directly below <ul> (every child node is a list item) and <sup> (sup_digits);
   MSplit (comments, split text nodes): below <a> (a link is dropped when all its children are
     shallow-empty, and a span hides that), <ol> and <dl> (which keep only li / dt, dd children);
   MWrap (also bare spans around runs of children): everywhere else *)
Inductive smode := MPoint | MSplit | MWrap.
Definition kind_mode (K : ekd) : smode :=
  match K with
  | KUl | KSup => MPoint
  | KA | KOl | KDl => MSplit
  | _ => MWrap
  end.
Definition lrel (m : smode) : list rnode -> list rnode -> Prop :=
  match m with MPoint => tp | MSplit => tl | MWrap => tw end.

Lemma lrel_tw m l1 l2 : lrel m l1 l2 -> tw l1 l2.
Proof. destruct m; cbn [lrel]; intros H; [apply tl_tw, tp_tl, H|apply tl_tw, H|exact H]. Qed.

Lemma otn_refl (e : res (option rnode)) : res_rel otn e e.
Proof. destruct e as [[x|]| | |]; cbn [res_rel otn]; auto. apply tn_same. Qed.

Lemma noempty_tn computed cs1 cs2 i1 i2 :
  (cs1 = [] <-> cs2 = []) -> tn (RN i1 computed) (RN i2 computed) ->
  res_rel otn (noempty_ computed cs1 i1) (noempty_ computed cs2 i2).
Proof.
  intros [A B] H. unfold noempty_, mk_. destruct cs1, cs2; cbn [res_rel otn]; auto.
  - discriminate (A eq_refl).
  - discriminate (B eq_refl).
Qed.

Lemma base_of_tn K attrs computed cs1 cs2 :
  ntk K = true -> lrel (kind_mode K) cs1 cs2 ->
  res_rel otn (base_of K attrs computed cs1) (base_of K attrs computed cs2).
Proof.
  intros Hn H. pose proof (lrel_tw _ _ _ H) as Hw.
  destruct K; cbn [kind_mode lrel] in H; cbn [ntk] in Hn; try discriminate; cbn [base_of];
    try apply otn_refl;
    try (unfold mk_; cbn [res_rel otn];
         match goal with |- tn (RN (?g _) _) _ => apply (tn_run g); [constructor|exact Hw] end);
    try (apply noempty_tn; [apply tw_nil_iff, Hw|];
         match goal with |- tn (RN (?g _) _) _ => apply (tn_run g); [constructor|exact Hw] end).
  - (* KA *)
    destruct (find_attr attrs s_href) as [href|].
    + rewrite (tl_nonempty _ _ H). destruct (existsb _ cs2); [|apply otn_refl].
      unfold mk_. cbn [res_rel otn]. apply (tn_run (ILink href)); [constructor|exact Hw].
    + unfold mk_. cbn [res_rel otn]. apply (tn_run IContainer); [constructor|exact Hw].
  - (* KSup *) unfold mk_. cbn [res_rel otn]. apply (tn_pt ISup); [constructor|exact H].
  - (* KUl *) apply noempty_tn; [apply tp_nil_iff, H|]. apply (tn_pt IUl); [constructor|exact H].
  - (* KOl *) apply noempty_tn; [apply tl_nil_iff, H|].
    match goal with |- tn (RN (IOl ?z _) _) _ => apply (tn_pt (IOl z)); [constructor|] end.
    apply tl_filter; [apply kindp_li|exact H].
  - (* KDl *) apply noempty_tn; [apply tl_nil_iff, H|].
    apply (tn_run IDl); [constructor|]. apply tl_tw, tp_tl, tl_filter; [apply kindp_dtdd|exact H].
Qed.

Definition elem_mode (html : bool) (name : text) : smode :=
  if html then kind_mode (kind_of name) else MWrap.

Lemma pbody_tn sd ri html name attrs me rk1 rk2 :
  (html = true -> ntk (kind_of name) = true) ->
  res_rel (lrel (elem_mode html name)) rk1 rk2 ->
  res_rel otn (pbody sd ri html name attrs me rk1) (pbody sd ri html name attrs me rk2).
Proof.
  intros Hn H. unfold pbody. destruct ri as [inls| | |]; cbn [bind res_rel]; auto.
  set (computed := computed_style sd me inls).
  destruct (ws_val (c_display (cs_core computed))) as [[|]|]; [cbn [res_rel otn]; exact I| |].
  all: eapply res_rel_bind with (P := otn);
    [|intros o1 o2 Ho;
      pose proof (post_tn computed (fragment_of name (html && names [[97]] name) attrs) o1 o2 Ho) as Hp;
      unfold post in Hp; destruct (fragment_of name (html && names [[97]] name) attrs);
      destruct o1, o2; cbn [otn] in Ho; try contradiction; cbn [res_rel]; exact Hp].
  all: unfold elem_mode in H; destruct html; cbn [negb andb] in *.
  all: try (rewrite !html_base_eq; destruct (kind_leaf (kind_of name)); [apply otn_refl|];
            eapply res_rel_bind; [exact H|]; intros cs1 cs2 Hcs;
            apply base_of_tn; [apply Hn; reflexivity|exact Hcs]).
  all: eapply res_rel_bind; [exact H|]; intros cs1 cs2 Hcs;
    change (res_rel otn (base_of KOther attrs computed cs1) (base_of KOther attrs computed cs2));
    apply base_of_tn; [reflexivity|exact Hcs].
Qed.

(* ---- style sheets whose selectors look at the element itself only ---- *)
Definition comp_local (c : comp) : bool :=
  match c with CClass _ | CElement _ | CHash _ | CStar => true | _ => false end.
Definition rules_simple (rs : list ruleset) : bool :=
  forallb (fun r => forallb comp_local (comps (rs_sel r))) rs.
(* no combinator and no :nth-child anywhere: the computed style of an element depends on its own
   name and attributes only (true of the built-in decorator rules em::before ... of Api.do_decorate) *)
Definition sheet_simple (sd : styledata) : bool :=
  rules_simple (agent_rules sd) && rules_simple (user_rules sd) && rules_simple (author_rules sd).

Definition same_head (p p' : list anc) : Prop :=
  match p, p' with
  | a :: _, b :: _ => a_name a = a_name b /\ a_attrs a = a_attrs b
  | _, _ => False
  end.

Lemma do_matches_local : forall cs, forallb comp_local cs = true ->
  forall p p', same_head p p' -> do_matches cs p = do_matches cs p'.
Proof.
  induction cs as [|c cs IH]; intros Hs p p' Hp; [reflexivity|].
  cbn [forallb] in Hs. apply andb_true_iff in Hs. destruct Hs as [Hc Hcs].
  destruct p as [|a p], p' as [|b p']; try contradiction. destruct Hp as [En Ea].
  specialize (IH Hcs (a :: p) (b :: p') (conj En Ea)).
  destruct c; try discriminate; cbn [do_matches]; rewrite IH; try reflexivity.
  - unfold has_class. rewrite Ea. reflexivity.
  - rewrite En. reflexivity.
  - unfold has_id. rewrite Ea. reflexivity.
Qed.

Lemma apply_rules_local o : forall rules, rules_simple rules = true ->
  forall p p' cs, same_head p p' -> apply_rules o rules p cs = apply_rules o rules p' cs.
Proof.
  induction rules as [|r rules IH]; intros Hs p p' cs Hp; [reflexivity|].
  cbn [rules_simple forallb] in Hs. apply andb_true_iff in Hs. destruct Hs as [Hr Hrs].
  cbn [apply_rules]. unfold sel_matches. rewrite (do_matches_local _ Hr p p' Hp). apply IH; assumption.
Qed.

Lemma computed_style_local sd p p' inls :
  sheet_simple sd = true -> same_head p p' -> computed_style sd p inls = computed_style sd p' inls.
Proof.
  unfold sheet_simple, computed_style. intros Hs Hp.
  apply andb_true_iff in Hs. destruct Hs as [Hs H3]. apply andb_true_iff in Hs. destruct Hs as [H1 H2].
  rewrite (apply_rules_local OAgent _ H1 p p' _ Hp), (apply_rules_local OUser _ H2 p p' _ Hp),
    (apply_rules_local OAuthor _ H3 p p' _ Hp). reflexivity.
Qed.

Lemma pbody_local sd ri html name attrs me me' rk :
  sheet_simple sd = true -> same_head me me' ->
  pbody sd ri html name attrs me rk = pbody sd ri html name attrs me' rk.
Proof.
  intros Hs Hp. unfold pbody. destruct ri as [inls| | |]; cbn [bind]; try reflexivity.
  rewrite (computed_style_local sd me me' inls Hs Hp). reflexivity.
Qed.

(* ---- a bare <span> ---- *)
Definition span_name : text := of_ascii [115;112;97;110].
Definition span_style (sd : styledata) : cstyle := computed_style sd [mkanc span_name [] 0%Z] [].
Definition pseudo_free (o : option cscore) : bool :=
  match o with
  | Some b => match ws_val (c_content b) with Some _ => false | None => true end
  | None => true
  end.
(* the sheet gives a bare span a neutral style, shows it and adds no pseudo-element content
   (decidable; true whenever no rule matches span elements) *)
Definition span_ok (sd : styledata) : bool :=
  neutral (span_style sd) &&
  match ws_val (c_display (cs_core (span_style sd))) with Some true => false | _ => true end &&
  pseudo_free (cs_before (span_style sd)) && pseudo_free (cs_after (span_style sd)).

Lemma kind_of_span : kind_of span_name = KSpan.
Proof. vm_compute. reflexivity. Qed.

Lemma wrap_pseudo_free c n :
  pseudo_free (cs_before c) = true -> pseudo_free (cs_after c) = true -> wrap_pseudo c n = n.
Proof.
  unfold wrap_pseudo, pseudo_free. intros H1 H2.
  destruct (cs_before c) as [b|]; [destruct (ws_val (c_content b)); [discriminate|]|];
    (destruct (cs_after c) as [a|]; [destruct (ws_val (c_content a)); [discriminate|]|]); reflexivity.
Qed.

(* ---- the relation on documents ---- *)
Definition inert (n : node) : bool := match n with NComment | NOther => true | _ => false end.

(* dn W: nodes, dl W m: child lists under rewriting mode m (W: are bare spans allowed at all).
   - comments (and doctype / processing-instruction nodes) may be inserted and removed anywhere;
   - a text node may be cut in pieces (dl_peel: a piece of one side is matched with the start of
     the text on the other side; with dl_skip the pieces may have comments in between) -- not
     directly below <ul>, <sup>;
   - a run of children may be put into a bare <span> (mode MWrap: not directly below <ul>, <sup>,
     <a>, <ol>, <dl>), when W = true. *)
Inductive dn (W : bool) : node -> node -> Prop :=
| dn_same n : dn W n n
| dn_elem html name attrs k1 k2 :
    dl W (elem_mode html name) k1 k2 -> dn W (NElem html name attrs k1) (NElem html name attrs k2)
with dl (W : bool) : smode -> list node -> list node -> Prop :=
| dl_nil m : dl W m [] []
| dl_cons m x y l l' : dn W x y -> dl W m l l' -> dl W m (x :: l) (y :: l')
| dl_skip_l m c l l' : inert c = true -> dl W m l l' -> dl W m (c :: l) l'
| dl_skip_r m c l l' : inert c = true -> dl W m l l' -> dl W m l (c :: l')
| dl_peel_l m t1 t2 l l' :
    m <> MPoint -> dl W m l (NText t2 :: l') -> dl W m (NText t1 :: l) (NText (t1 ++ t2) :: l')
| dl_peel_r m t1 t2 l l' :
    m <> MPoint -> dl W m (NText t2 :: l) l' -> dl W m (NText (t1 ++ t2) :: l) (NText t1 :: l')
| dl_wrap_l ks l l' :
    W = true -> dl W MWrap (ks ++ l) l' -> dl W MWrap (NElem true span_name [] ks :: l) l'
| dl_wrap_r ks l l' :
    W = true -> dl W MWrap l (ks ++ l') -> dl W MWrap l (NElem true span_name [] ks :: l').

Scheme dn_mind := Minimality for dn Sort Prop
  with dl_mind := Minimality for dl Sort Prop.
Combined Scheme dn_all_ind from dn_mind, dl_mind.

(* comments and split text nodes / and bare spans *)
Definition dom_split_equiv (doc1 doc2 : list node) : Prop := dl false MWrap doc1 doc2.
Definition dom_span_equiv (doc1 doc2 : list node) : Prop := dl true MWrap doc1 doc2.

Lemma lrel_nil m : lrel m [] [].
Proof. destruct m; constructor. Qed.
Lemma lrel_cons m x y l l' : tn x y -> lrel m l l' -> lrel m (x :: l) (y :: l').
Proof. destruct m; cbn [lrel]; intros; constructor; assumption. Qed.
Lemma lrel_peel_l m t1 t2 l l' :
  m <> MPoint -> lrel m l (rn_new (IText t2) :: l') ->
  lrel m (rn_new (IText t1) :: l) (rn_new (IText (t1 ++ t2)) :: l').
Proof. destruct m; cbn [lrel]; intros Hm H; [contradiction|apply tl_peel_l, H|apply tw_peel_l, H]. Qed.
Lemma lrel_peel_r m t1 t2 l l' :
  m <> MPoint -> lrel m (rn_new (IText t2) :: l) l' ->
  lrel m (rn_new (IText (t1 ++ t2)) :: l) (rn_new (IText t1) :: l').
Proof. destruct m; cbn [lrel]; intros Hm H; [contradiction|apply tl_peel_r, H|apply tw_peel_r, H]. Qed.

Section DomLift.
  Variable sd : styledata.
  Variable udc : bool.
  Variable inl : list (text * text) -> res (list styledecl).
  Variable W : bool.
  (* the side conditions of the span rewrite *)
  Hypothesis HW : W = true ->
    sheet_simple sd = true /\ span_ok sd = true /\ (udc = true -> inl [] = Ok []).
  Notation process := (process sd udc inl).

  Lemma process_local : W = true -> forall n p idx p' idx', process n p idx = process n p' idx'.
  Proof.
    intros Hw. destruct (HW Hw) as (Hs & _).
    apply (node_ind' (fun n => forall p idx p' idx', process n p idx = process n p' idx'));
      try reflexivity.
    intros html name attrs kids IH p idx p' idx'. rewrite !process_eq.
    rewrite (pbody_local sd _ html name attrs (mkanc name attrs idx :: p) (mkanc name attrs idx' :: p') _ Hs);
      [|split; reflexivity].
    f_equal. apply pk_ext. rewrite Forall_forall in *. intros k Hk i i'. apply IH, Hk.
  Qed.

  Lemma process_span : W = true -> forall ks p idx,
    process (NElem true span_name [] ks) p idx =
    do cs <- pk_of (fun k i => process k (mkanc span_name [] idx :: p) i) ks 1%Z;
    Ok (match cs with [] => None | _ => Some (RN (IContainer cs) (span_style sd)) end).
  Proof.
    intros Hw ks p idx. destruct (HW Hw) as (Hs & Hsp & Hinl). rewrite process_eq. unfold pbody.
    replace (if udc then inl [] else Ok []) with (@Ok (list styledecl) [])
      by (destruct udc; [symmetry; apply Hinl; reflexivity|reflexivity]).
    cbn [bind].
    rewrite (computed_style_local sd (mkanc span_name [] idx :: p) [mkanc span_name [] 0%Z] [] Hs)
      by (split; reflexivity).
    fold (span_style sd). unfold span_ok in Hsp.
    apply andb_true_iff in Hsp. destruct Hsp as [Hsp Ha]. apply andb_true_iff in Hsp.
    destruct Hsp as [Hsp Hb]. apply andb_true_iff in Hsp. destruct Hsp as [Hn Hd].
    cbn [negb]. rewrite html_base_eq, kind_of_span. cbn [kind_leaf base_of].
    assert (Hf : fragment_of span_name (true && names [[97]] span_name) [] = None) by reflexivity.
    rewrite Hf.
    destruct (pk_of _ ks 1%Z) as [cs| | |]; cbn [bind];
      try (destruct (ws_val (c_display (cs_core (span_style sd)))) as [[|]|]; try discriminate; reflexivity).
    destruct (ws_val (c_display (cs_core (span_style sd)))) as [[|]|]; try discriminate;
      destruct cs; cbn [noempty_ mk_ bind]; rewrite ?(wrap_pseudo_free _ _ Hb Ha); try reflexivity.
  Qed.

  Lemma span_neutral : W = true -> neutral (span_style sd) = true.
  Proof.
    intros Hw. destruct (HW Hw) as (_ & Hsp & _). unfold span_ok in Hsp.
    repeat (apply andb_true_iff in Hsp; destruct Hsp as [Hsp _]). exact Hsp.
  Qed.

  Lemma pk_inert me : forall cs l i,
    forallb inert cs = true ->
    pk_of (fun k i => process k me i) (cs ++ l) i = pk_of (fun k i => process k me i) l i.
  Proof.
    induction cs as [|c cs IH]; intros l i H; [reflexivity|].
    cbn [forallb] in H. apply andb_true_iff in H. destruct H as [Hc Hcs].
    destruct c; try discriminate; cbn [app pk_of Dom.process bind]; rewrite (IH l i Hcs);
      destruct (pk_of _ l i); reflexivity.
  Qed.

  Lemma pk_text me t l i :
    pk_of (fun k i => process k me i) (NText t :: l) i =
    do rs <- pk_of (fun k i => process k me i) l i; Ok (rn_new (IText t) :: rs).
  Proof. reflexivity. Qed.

  Lemma res_rel_map_l {A B} (P : A -> B -> Prop) (f g : A -> A) (e : res A) (y : res B) :
    (forall a b, P (f a) b -> P (g a) b) ->
    res_rel P (do a <- e; Ok (f a)) y -> res_rel P (do a <- e; Ok (g a)) y.
  Proof. intros H. destruct e, y; cbn [bind res_rel]; auto. Qed.
  Lemma res_rel_map_r {A B} (P : A -> B -> Prop) (f g : B -> B) (x : res A) (e : res B) :
    (forall a b, P a (f b) -> P a (g b)) ->
    res_rel P x (do b <- e; Ok (f b)) -> res_rel P x (do b <- e; Ok (g b)).
  Proof. intros H. destruct e, x; cbn [bind res_rel]; auto. Qed.
  Lemma res_rel_map_lr {A B} (P : A -> B -> Prop) (f g h : _ -> _) (x : res A) (e : res B) :
    (forall a b, P a (f b) -> P (g a) (h b)) ->
    res_rel P x (do b <- e; Ok (f b)) -> res_rel P (do a <- x; Ok (g a)) (do b <- e; Ok (h b)).
  Proof. intros H. destruct e, x; cbn [bind res_rel]; auto. Qed.
  Lemma res_rel_map_rl {A B} (P : A -> B -> Prop) (f g : A -> A) (h : B -> B) (e : res A) (y : res B) :
    (forall a b, P (f a) b -> P (g a) (h b)) ->
    res_rel P (do a <- e; Ok (f a)) y -> res_rel P (do a <- e; Ok (g a)) (do b <- y; Ok (h b)).
  Proof. intros H. destruct e, y; cbn [bind res_rel]; auto. Qed.
  Lemma res_rel_map2_l {A B C D} (P : C -> D -> Prop) (f g : A -> B -> C) (e1 : res A) (e2 : res B)
        (y : res D) :
    (forall a b d, P (f a b) d -> P (g a b) d) ->
    res_rel P (do a <- e1; do b <- e2; Ok (f a b)) y -> res_rel P (do a <- e1; do b <- e2; Ok (g a b)) y.
  Proof. intros H. destruct e1, e2, y; cbn [bind res_rel]; auto. Qed.
  Lemma res_rel_map2_r {A B C D} (P : D -> C -> Prop) (f g : A -> B -> C) (e1 : res A) (e2 : res B)
        (x : res D) :
    (forall a b d, P d (f a b) -> P d (g a b)) ->
    res_rel P x (do a <- e1; do b <- e2; Ok (f a b)) -> res_rel P x (do a <- e1; do b <- e2; Ok (g a b)).
  Proof. intros H. destruct e1, e2, x; cbn [bind res_rel]; auto. Qed.

  Lemma ntab_elem html name attrs kids :
    ntab (NElem html name attrs kids) = true ->
    (html = true -> ntk (kind_of name) = true) /\ forallb ntab kids = true.
  Proof.
    cbn [ntab]. intros H. apply andb_true_iff in H. destruct H as [H1 H2]. split; [|exact H2].
    intros ->. exact H1.
  Qed.

  (* a bare span among the children: the children of the span, processed in place *)
  Lemma pk_span me ks l i : W = true ->
    pk_of (fun k i => process k me i) (NElem true span_name [] ks :: l) i =
    do cs <- pk_of (fun k i => process k me i) ks i;
    do rs <- pk_of (fun k i => process k me i) l (i + count_elems ks)%Z;
    Ok (match cs with [] => rs | _ => RN (IContainer cs) (span_style sd) :: rs end).
  Proof.
    intros Hw. cbn [pk_of]. rewrite (process_span Hw).
    assert (F1 : Forall (fun k => forall j j', process k (mkanc span_name [] i :: me) j = process k me j') ks).
    { apply Forall_forall. intros k Hk j j'. apply (process_local Hw). }
    assert (F2 : Forall (fun k => forall j j', process k me j = process k me j') l).
    { apply Forall_forall. intros k Hk j j'. apply (process_local Hw). }
    rewrite (pk_ext _ _ ks F1 1%Z i), (pk_ext _ _ l F2 (i + 1)%Z (i + count_elems ks)%Z).
    destruct (pk_of _ ks i) as [cs| | |]; cbn [bind]; try reflexivity.
    destruct (pk_of _ l _) as [rs| | |]; destruct cs; reflexivity.
  Qed.

  Lemma tw_wrap_cs_r st x cs rs :
    neutral st = true -> tw x (cs ++ rs) ->
    tw x (match cs with [] => rs | _ => RN (IContainer cs) st :: rs end).
  Proof. intros Hn H. destruct cs as [|k ks]; [exact H|]. apply tw_wrap_r; assumption. Qed.
  Lemma tw_wrap_cs_l st x cs rs :
    neutral st = true -> tw (cs ++ rs) x ->
    tw (match cs with [] => rs | _ => RN (IContainer cs) st :: rs end) x.
  Proof. intros Hn H. destruct cs as [|k ks]; [exact H|]. apply tw_wrap_l; assumption. Qed.

  (* `process` maps related table-free documents to related render trees (or fails the same way);
     without spans the ancestors and indices are the same on both sides *)
  Definition same_ctx (p1 : list anc) (i1 : Z) (p2 : list anc) (i2 : Z) : Prop :=
    W = false -> p1 = p2 /\ i1 = i2.

  Lemma process_dn :
    (forall n1 n2, dn W n1 n2 -> ntab n1 = true -> ntab n2 = true ->
       forall p1 idx1 p2 idx2, same_ctx p1 idx1 p2 idx2 ->
       res_rel otn (process n1 p1 idx1) (process n2 p2 idx2)) /\
    (forall m k1 k2, dl W m k1 k2 -> forallb ntab k1 = true -> forallb ntab k2 = true ->
       forall me1 i1 me2 i2, same_ctx me1 i1 me2 i2 ->
       res_rel (lrel m) (pk_of (fun k i => process k me1 i) k1 i1)
                        (pk_of (fun k i => process k me2 i) k2 i2)).
  Proof.
    apply dn_all_ind.
    - (* dn_same *)
      intros n _ _ p1 idx1 p2 idx2 Hc. destruct (Bool.bool_dec W true) as [Ew|Ew].
      + rewrite (process_local Ew n p1 idx1 p2 idx2). apply otn_refl.
      + apply Bool.not_true_is_false in Ew. destruct (Hc Ew) as [-> ->]. apply otn_refl.
    - (* dn_elem *)
      intros html name attrs k1 k2 _ IH H1 H2 p1 idx1 p2 idx2 Hc. rewrite !process_eq.
      destruct (ntab_elem _ _ _ _ H1) as [Hk Hn1]. destruct (ntab_elem _ _ _ _ H2) as [_ Hn2].
      assert (Epb : forall rk, pbody sd (if udc then inl attrs else Ok []) html name attrs
                                     (mkanc name attrs idx1 :: p1) rk =
                               pbody sd (if udc then inl attrs else Ok []) html name attrs
                                     (mkanc name attrs idx2 :: p2) rk).
      { intros rk. destruct (Bool.bool_dec W true) as [Ew|Ew].
        - apply pbody_local; [apply (HW Ew)|split; reflexivity].
        - apply Bool.not_true_is_false in Ew. destruct (Hc Ew) as [-> ->]. reflexivity. }
      rewrite Epb. apply pbody_tn; [exact Hk|]. apply (IH Hn1 Hn2).
      intros Ew. destruct (Hc Ew) as [-> ->]. auto.
    - (* dl_nil *) intros m _ _ me1 i1 me2 i2 _. cbn [pk_of res_rel]. apply lrel_nil.
    - (* dl_cons *)
      intros m x y l l' Hxy IHx _ IHl H1 H2 me1 i1 me2 i2 Hc. cbn [forallb] in H1, H2.
      apply andb_true_iff in H1. apply andb_true_iff in H2. cbn [pk_of].
      change (match x with NElem _ _ _ _ => true | _ => false end) with (is_elem x).
      change (match y with NElem _ _ _ _ => true | _ => false end) with (is_elem y).
      assert (Eel : is_elem x = is_elem y) by (destruct Hxy; reflexivity). rewrite Eel.
      eapply res_rel_bind; [apply IHx; tauto|]. intros r1 r2 Hr.
      eapply res_rel_bind.
      { apply IHl; try tauto. intros Ew. destruct (Hc Ew) as [-> ->]. auto. }
      intros rs1 rs2 Hrs. cbn [res_rel].
      destruct r1 as [a|], r2 as [c|]; cbn [otn] in Hr; try contradiction; [|exact Hrs].
      apply lrel_cons; assumption.
    - (* dl_skip_l *)
      intros m c l l' Hc0 _ IH H1 H2 me1 i1 me2 i2 Hc. cbn [forallb] in H1. apply andb_true_iff in H1.
      replace (pk_of (fun k i0 => process k me1 i0) (c :: l) i1)
        with (pk_of (fun k i0 => process k me1 i0) l i1); [apply IH; tauto|].
      destruct c; try discriminate; cbn [pk_of Dom.process bind]; destruct (pk_of _ l i1); reflexivity.
    - (* dl_skip_r *)
      intros m c l l' Hc0 _ IH H1 H2 me1 i1 me2 i2 Hc. cbn [forallb] in H2. apply andb_true_iff in H2.
      replace (pk_of (fun k i0 => process k me2 i0) (c :: l') i2)
        with (pk_of (fun k i0 => process k me2 i0) l' i2); [apply IH; tauto|].
      destruct c; try discriminate; cbn [pk_of Dom.process bind]; destruct (pk_of _ l' i2); reflexivity.
    - (* dl_peel_l *)
      intros m t1 t2 l l' Hm _ IH H1 H2 me1 i1 me2 i2 Hc.
      cbn [forallb ntab andb] in H1, H2. specialize (IH H1 H2 me1 i1 me2 i2 Hc).
      rewrite pk_text in IH. rewrite !pk_text.
      revert IH. apply res_rel_map_lr. intros a b0. apply lrel_peel_l, Hm.
    - (* dl_peel_r *)
      intros m t1 t2 l l' Hm _ IH H1 H2 me1 i1 me2 i2 Hc.
      cbn [forallb ntab andb] in H1, H2. specialize (IH H1 H2 me1 i1 me2 i2 Hc).
      rewrite pk_text in IH. rewrite !pk_text.
      revert IH. apply res_rel_map_rl. intros a b0. apply lrel_peel_r, Hm.
    - (* dl_wrap_l *)
      intros ks l l' Hw _ IH H1 H2 me1 i1 me2 i2 Hc.
      assert (Hkl : forallb ntab (ks ++ l) = true).
      { cbn [forallb ntab] in H1. rewrite forallb_app. apply andb_true_iff in H1.
        destruct H1 as [H1 H1']. apply andb_true_iff in H1. destruct H1 as [_ H1].
        rewrite H1, H1'. reflexivity. }
      specialize (IH Hkl H2 me1 i1 me2 i2 Hc). rewrite pk_app in IH.
      rewrite (pk_span me1 ks l i1 Hw). cbn [lrel] in *.
      revert IH. apply res_rel_map2_l. intros a b0 d0. apply tw_wrap_cs_l, span_neutral, Hw.
    - (* dl_wrap_r *)
      intros ks l l' Hw _ IH H1 H2 me1 i1 me2 i2 Hc.
      assert (Hkl : forallb ntab (ks ++ l') = true).
      { cbn [forallb ntab] in H2. rewrite forallb_app. apply andb_true_iff in H2.
        destruct H2 as [H2 H2']. apply andb_true_iff in H2. destruct H2 as [_ H2].
        rewrite H2, H2'. reflexivity. }
      specialize (IH H1 Hkl me1 i1 me2 i2 Hc). rewrite pk_app in IH.
      rewrite (pk_span me2 ks l' i2 Hw). cbn [lrel] in *.
      revert IH. apply res_rel_map2_r. intros a b0 d0. apply tw_wrap_cs_r, span_neutral, Hw.
  Qed.
End DomLift.

Section RoutesSplit.
  Variable inline_styles : list (text * text) -> res (list styledecl).
  Variable doc_rules : list node -> res (list ruleset).
  Notation to_tree := (to_render_tree inline_styles doc_rules).

  (* the side condition of the span rewrite, on the effective style sheet (decidable) *)
  Definition sd_span_ok (c : config) (doc : list node) : bool :=
    match effective_sd doc_rules c doc with
    | Ok sd => sheet_simple sd && span_ok sd
    | _ => true
    end.

  Lemma dom_trees_gen W c doc1 doc2 :
    dl W MWrap doc1 doc2 -> dom_ntab doc1 = true -> dom_ntab doc2 = true ->
    effective_sd doc_rules c doc1 = effective_sd doc_rules c doc2 ->
    (W = true -> sd_span_ok c doc1 = true /\ (c_use_doc_css c = true -> inline_styles [] = Ok [])) ->
    res_rel tn (to_tree c doc1) (to_tree c doc2).
  Proof.
    intros Hd H1 H2 Hsd HW. unfold to_render_tree. rewrite <- Hsd.
    unfold sd_span_ok in HW.
    destruct (effective_sd doc_rules c doc1) as [sd| | |]; cbn [bind res_rel]; auto.
    unfold dom_to_render_tree. rewrite !process_kids_eq.
    eapply res_rel_bind.
    - apply (proj2 (process_dn sd (c_use_doc_css c) inline_styles W
                      ltac:(intros Ew; destruct (HW Ew) as [A B]; apply andb_true_iff in A; tauto))
               MWrap doc1 doc2 Hd H1 H2 [] 1%Z [] 1%Z).
      intros _. auto.
    - intros cs1 cs2 Hcs. cbn [res_rel lrel] in *. unfold rn_new.
      apply (tn_run IContainer); [constructor|exact Hcs].
  Qed.

  (* THEOREM 4 (DOM lift, comments and split text nodes): related table-free documents give
     render trees related by tn (hence split-equivalent), or fail in the same way.  No condition
     on the style sheet. *)
  Theorem dom_split_trees c doc1 doc2 :
    dom_split_equiv doc1 doc2 -> dom_ntab doc1 = true -> dom_ntab doc2 = true ->
    effective_sd doc_rules c doc1 = effective_sd doc_rules c doc2 ->
    res_rel tn (to_tree c doc1) (to_tree c doc2).
  Proof. intros Hd H1 H2 Hsd. apply (dom_trees_gen false); auto. discriminate. Qed.

  (* THEOREM 4' (DOM lift, bare spans too): the same when runs of children are also wrapped in
     bare <span> elements, for style sheets without combinators and :nth-child that leave a bare
     span neutral *)
  Theorem dom_span_trees c doc1 doc2 :
    dom_span_equiv doc1 doc2 -> dom_ntab doc1 = true -> dom_ntab doc2 = true ->
    effective_sd doc_rules c doc1 = effective_sd doc_rules c doc2 ->
    sd_span_ok c doc1 = true -> (c_use_doc_css c = true -> inline_styles [] = Ok []) ->
    res_rel tn (to_tree c doc1) (to_tree c doc2).
  Proof. intros Hd H1 H2 Hsd Hs Hi. apply (dom_trees_gen true); auto. Qed.

  (* the tree built from the document has no table (decidable) *)
  Definition doc_table_free (c : config) (doc : list node) : bool :=
    match to_tree c doc with Ok t => table_free t | _ => true end.

  Lemma routes_gen c doc1 doc2 w :
    res_rel tn (to_tree c doc1) (to_tree c doc2) ->
    doc_tree_ok inline_styles doc_rules c doc1 = true ->
    doc_tree_ok inline_styles doc_rules c doc2 = true ->
    doc_table_free c doc1 = true -> c_overflow c = false ->
    (forall r1 r2, lines_from_read inline_styles doc_rules c doc1 w = Ok r1 ->
                   lines_from_read inline_styles doc_rules c doc2 w = Ok r2 -> r1 = r2) /\
    (forall r1 r2, string_from_read inline_styles doc_rules c doc1 w = Ok r1 ->
                   string_from_read inline_styles doc_rules c doc2 w = Ok r2 -> r1 = r2).
  Proof.
    intros Ht Hok1 Hok2 Htf Ho.
    assert (K : forall t1 t2 s1 s2, to_tree c doc1 = Ok t1 -> to_tree c doc2 = Ok t2 ->
                render_with_context c t1 w = Ok s1 -> render_with_context c t2 w = Ok s2 -> s1 = s2).
    { intros t1 t2 s1 s2 E1 E2 Hr1 Hr2.
      unfold doc_tree_ok in Hok1, Hok2. unfold doc_table_free in Htf. rewrite E1 in Hok1, Htf.
      rewrite E2 in Hok2. unfold render_with_context in Hr1, Hr2. destruct (w =? 0); [discriminate|].
      eapply split_equiv_both_ok; [exact Hok1|exact Hok2|exact Htf| | |exact Hr1|exact Hr2].
      - exact Ho.
      - rewrite E1, E2 in Ht. cbn [res_rel] in Ht. apply tn_split_equiv, Ht. }
    split; intros r1 r2 L1 L2.
    - unfold lines_from_read in L1, L2. bind_inv L1 t1 E1. bind_inv L1 s1 Hr1. bind_inv L1 ls1 F1.
      bind_inv L2 t2 E2. bind_inv L2 s2 Hr2. bind_inv L2 ls2 F2. ok_inv L1. ok_inv L2.
      rewrite (K t1 t2 s1 s2 E1 E2 Hr1 Hr2) in F1. congruence.
    - unfold string_from_read in L1, L2. bind_inv L1 t1 E1. bind_inv L1 s1 Hr1.
      bind_inv L2 t2 E2. bind_inv L2 s2 Hr2.
      rewrite (K t1 t2 s1 s2 E1 E2 Hr1 Hr2) in L1. congruence.
  Qed.

  (* THEOREM 5 (routes): without allow_width_overflow, two related table-free documents outside
     preformatted blocks that both render give the same lines and the same string, at every
     width *)
  Theorem c13_dom_split_routes c doc1 doc2 w :
    dom_split_equiv doc1 doc2 -> dom_ntab doc1 = true -> dom_ntab doc2 = true ->
    effective_sd doc_rules c doc1 = effective_sd doc_rules c doc2 ->
    doc_tree_ok inline_styles doc_rules c doc1 = true ->
    doc_tree_ok inline_styles doc_rules c doc2 = true ->
    doc_table_free c doc1 = true -> c_overflow c = false ->
    (forall r1 r2, lines_from_read inline_styles doc_rules c doc1 w = Ok r1 ->
                   lines_from_read inline_styles doc_rules c doc2 w = Ok r2 -> r1 = r2) /\
    (forall r1 r2, string_from_read inline_styles doc_rules c doc1 w = Ok r1 ->
                   string_from_read inline_styles doc_rules c doc2 w = Ok r2 -> r1 = r2).
  Proof.
    intros Hd H1 H2 Hsd. apply routes_gen. apply dom_split_trees; assumption.
  Qed.

  Theorem c13_dom_span_routes c doc1 doc2 w :
    dom_span_equiv doc1 doc2 -> dom_ntab doc1 = true -> dom_ntab doc2 = true ->
    effective_sd doc_rules c doc1 = effective_sd doc_rules c doc2 ->
    sd_span_ok c doc1 = true -> (c_use_doc_css c = true -> inline_styles [] = Ok []) ->
    doc_tree_ok inline_styles doc_rules c doc1 = true ->
    doc_tree_ok inline_styles doc_rules c doc2 = true ->
    doc_table_free c doc1 = true -> c_overflow c = false ->
    (forall r1 r2, lines_from_read inline_styles doc_rules c doc1 w = Ok r1 ->
                   lines_from_read inline_styles doc_rules c doc2 w = Ok r2 -> r1 = r2) /\
    (forall r1 r2, string_from_read inline_styles doc_rules c doc1 w = Ok r1 ->
                   string_from_read inline_styles doc_rules c doc2 w = Ok r2 -> r1 = r2).
  Proof.
    intros Hd H1 H2 Hsd Hs Hi. apply routes_gen. apply dom_span_trees; assumption.
  Qed.
End RoutesSplit.
Print Assumptions dom_split_trees.
Print Assumptions dom_span_trees.
Print Assumptions c13_dom_split_routes.
Print Assumptions c13_dom_span_routes.

(* ---- DOM examples ---- *)
From H2T Require CssParse.
Module DomSplitExamples.
Import String Ascii CssParse DomRelExamples.
Local Open Scope N_scope.

Definition tchr (l : list N) : text :=
  List.map (fun c => mkchr c (Some 1) ((c =? 32) || (c =? 10) || (c =? 9)) 16) l.
Definition bspan (ks : list node) : node := NElem true span_name [] ks.

(* <ul><li>ab cd ef</li></ul><p>hello wide world</p> *)
Definition exd_doc1 : list node :=
  [el "ul" [] [el "li" [] [txc "ab cd ef"]]; el "p" [] [txc "hello wide world"]].
(* <!----><ul><!----><li>ab <!---->cd ef</li></ul><p>hello wide<!----><!----> world<!----></p> *)
Definition exd_doc2 : list node :=
  [NComment; el "ul" [] [NComment; el "li" [] [txc "ab "; NComment; txc "cd ef"]];
   el "p" [] [txc "hello wide"; NComment; NComment; txc " world"; NComment]].
(* <ul><li><span>ab <span>cd</span></span> ef</li></ul><p><span>hello wide world</span></p> *)
Definition exd_doc3 : list node :=
  [el "ul" [] [el "li" [] [bspan [txc "ab "; bspan [txc "cd"]]; txc " ef"]];
   el "p" [] [bspan [txc "hello wide world"]]].

Example exd_related : dom_split_equiv exd_doc1 exd_doc2.
Proof.
  unfold dom_split_equiv, exd_doc1, exd_doc2.
  apply dl_skip_r; [reflexivity|]. apply dl_cons.
  - apply dn_elem. apply dl_skip_r; [reflexivity|]. apply dl_cons; [|apply dl_nil].
    apply dn_elem.
    apply (dl_peel_r false _ (tchr (lN "ab ")) (tchr (lN "cd ef")) [] [NComment; txc "cd ef"]);
      [discriminate|].
    apply dl_skip_r; [reflexivity|]. apply dl_cons; [apply dn_same|apply dl_nil].
  - apply dl_cons; [|apply dl_nil]. apply dn_elem.
    apply (dl_peel_r false _ (tchr (lN "hello wide")) (tchr (lN " world")) []
                     [NComment; NComment; txc " world"; NComment]); [discriminate|].
    apply dl_skip_r; [reflexivity|]. apply dl_skip_r; [reflexivity|].
    apply dl_cons; [apply dn_same|]. apply dl_skip_r; [reflexivity|apply dl_nil].
Qed.

Example exd_related_span : dom_span_equiv exd_doc1 exd_doc3.
Proof.
  unfold dom_span_equiv, exd_doc1, exd_doc3.
  apply dl_cons; [|apply dl_cons; [|apply dl_nil]].
  - apply dn_elem. apply dl_cons; [|apply dl_nil]. apply dn_elem.
    change (elem_mode true (nm "li")) with MWrap.
    apply (dl_wrap_r true [txc "ab "; bspan [txc "cd"]] [txc "ab cd ef"] [txc " ef"]); [reflexivity|].
    cbn [app].
    apply (dl_peel_r true MWrap (tchr (lN "ab ")) (tchr (lN "cd ef")) [] [bspan [txc "cd"]; txc " ef"]);
      [discriminate|].
    apply (dl_wrap_r true [txc "cd"] [NText (tchr (lN "cd ef"))] [txc " ef"]); [reflexivity|]. cbn [app].
    apply (dl_peel_r true MWrap (tchr (lN "cd")) (tchr (lN " ef")) [] [txc " ef"]); [discriminate|].
    apply dl_cons; [apply dn_same|apply dl_nil].
  - apply dn_elem. change (elem_mode true (nm "p")) with MWrap.
    apply (dl_wrap_r true [txc "hello wide world"] [txc "hello wide world"] []); [reflexivity|].
    cbn [app]. apply dl_cons; [apply dn_same|apply dl_nil].
Qed.

Example exd_hyps :
  dom_ntab exd_doc1 = true /\ dom_ntab exd_doc2 = true /\ dom_ntab exd_doc3 = true /\
  effective_sd doc_rules cfg_plain exd_doc1 = effective_sd doc_rules cfg_plain exd_doc2 /\
  effective_sd doc_rules cfg_plain exd_doc1 = effective_sd doc_rules cfg_plain exd_doc3 /\
  doc_tree_ok inline_styles doc_rules cfg_plain exd_doc1 = true /\
  doc_tree_ok inline_styles doc_rules cfg_plain exd_doc2 = true /\
  doc_tree_ok inline_styles doc_rules cfg_plain exd_doc3 = true /\
  doc_table_free inline_styles doc_rules cfg_plain exd_doc1 = true /\ c_overflow cfg_plain = false /\
  sd_span_ok doc_rules cfg_plain exd_doc1 = true /\ inline_styles [] = Ok [] /\
  to_render_tree inline_styles doc_rules cfg_plain exd_doc1 <>
  to_render_tree inline_styles doc_rules cfg_plain exd_doc2 /\
  to_render_tree inline_styles doc_rules cfg_plain exd_doc1 <>
  to_render_tree inline_styles doc_rules cfg_plain exd_doc3.
Proof. repeat split; try (vm_compute; reflexivity); vm_compute; discriminate. Qed.

Example exd_applies :
  exists r, string_from_read inline_styles doc_rules cfg_plain exd_doc1 8 = Ok r /\
            string_from_read inline_styles doc_rules cfg_plain exd_doc2 8 = Ok r /\
            string_from_read inline_styles doc_rules cfg_plain exd_doc3 8 = Ok r /\
            cps r = [42;32;97;98;32;99;100;10; 32;32;101;102;10; 10; 104;101;108;108;111;10;
                     119;105;100;101;10; 119;111;114;108;100;10].
Proof.
  destruct (string_from_read inline_styles doc_rules cfg_plain exd_doc1 8) as [r1| | |] eqn:E1;
    [|vm_compute in E1; discriminate..].
  destruct (string_from_read inline_styles doc_rules cfg_plain exd_doc2 8) as [r2| | |] eqn:E2;
    [|vm_compute in E2; discriminate..].
  destruct (string_from_read inline_styles doc_rules cfg_plain exd_doc3 8) as [r3| | |] eqn:E3;
    [|vm_compute in E3; discriminate..].
  destruct exd_hyps as (H1 & H2 & H3 & Hsd2 & Hsd3 & Hok1 & Hok2 & Hok3 & Htf & Ho & Hs & Hi & _).
  pose proof (proj2 (c13_dom_split_routes inline_styles doc_rules cfg_plain exd_doc1 exd_doc2 8
                       exd_related H1 H2 Hsd2 Hok1 Hok2 Htf Ho) r1 r2 E1 E2) as Ea.
  pose proof (proj2 (c13_dom_span_routes inline_styles doc_rules cfg_plain exd_doc1 exd_doc3 8
                       exd_related_span H1 H3 Hsd3 Hs (fun _ => Hi) Hok1 Hok3 Htf Ho) r1 r3 E1 E3) as Eb.
  exists r1. split; [reflexivity|]. split; [rewrite Ea; reflexivity|]. split; [rewrite Eb; reflexivity|].
  assert (C : rmap cps (string_from_read inline_styles doc_rules cfg_plain exd_doc1 8) =
              Ok [42;32;97;98;32;99;100;10; 32;32;101;102;10; 10; 104;101;108;108;111;10;
                  119;105;100;101;10; 119;111;114;108;100;10]) by (vm_compute; reflexivity).
  rewrite E1 in C. cbn [rmap] in C. injection C as C. exact C.
Qed.

(* NEW FINDING (DOM level): directly below <ul> EVERY child node becomes a list item of its own,
   text nodes and inline elements included, so a comment that splits such a text node (or a span
   around part of it) changes the output: <ul>x y<li>a</li></ul> renders "* x y / * a",
   <ul>x <!---->y<li>a</li></ul> renders "* x / * y / * a" (html2text agrees; <ol> and <dl> drop
   such text altogether).  This is why no rewrite is allowed directly below <ul> (mode MPoint). *)
Definition exd_ul1 : list node := [el "ul" [] [txc "x y"; el "li" [] [txc "a"]]].
Definition exd_ul2 : list node := [el "ul" [] [txc "x "; NComment; txc "y"; el "li" [] [txc "a"]]].
Example exd_ul_differs :
  rmap cps (string_from_read inline_styles doc_rules cfg_plain exd_ul1 20) =
    Ok [42;32;120;32;121;10; 42;32;97;10] /\
  rmap cps (string_from_read inline_styles doc_rules cfg_plain exd_ul2 20) =
    Ok [42;32;120;10; 42;32;121;10; 42;32;97;10].
Proof. split; vm_compute; reflexivity. Qed.

(* why bare spans are not allowed directly below <ol> (only <li> children are kept: the span and
   the items inside it are dropped) and <a href> (a link all of whose children are shallow-empty
   is dropped, a span hides that: the recorded finding empty_link_with_markup) *)
Definition exd_ol1 : list node := [el "ol" [] [el "li" [] [txc "a"]; el "li" [] [txc "b"]]].
Definition exd_ol2 : list node := [el "ol" [] [bspan [el "li" [] [txc "a"]]; el "li" [] [txc "b"]]].
Definition exd_a1 : list node := [el "p" [] [txc "x"; el "a" [("href"%string,"u"%string)] [txc " "]]].
Definition exd_a2 : list node := [el "p" [] [txc "x"; el "a" [("href"%string,"u"%string)] [bspan [txc " "]]]].
Example exd_span_modes :
  rmap cps (string_from_read inline_styles doc_rules cfg_plain exd_ol1 20) = Ok [49;46;32;97;10; 50;46;32;98;10] /\
  rmap cps (string_from_read inline_styles doc_rules cfg_plain exd_ol2 20) = Ok [49;46;32;98;10] /\
  rmap cps (string_from_read inline_styles doc_rules cfg_plain exd_a1 20) = Ok [120;10] /\
  rmap cps (string_from_read inline_styles doc_rules cfg_plain exd_a2 20) =
    Ok [120;91;32;93;91;49;93;10; 10; 91;49;93;58;32;117;10].
Proof. repeat split; vm_compute; reflexivity. Qed.
End DomSplitExamples.
