(* Proofs/Footnotes.v -- property C08 (link footnotes): the THREADING of the link list through
   the whole renderer model.  Partial correctness (only the Ok outcome), no axioms, no
   hypothesis on the options or the decorator.

   MAIN THEOREMS (exact statements in the SUMMARY at the end of the file):
     (1) links_threaded, links_threaded_no_table, link_targets_subseq, link_targets_no_table
     (2) link_reference, link_reference_simple
     (3) render_tree_footnotes, render_tree_footnote_entry, fmt_links_spec, render_tree_output
   Findings (section 7): nested links get the number of the last link inside them (known);
   table cells that get no width are dropped with their links AND their text (new). *)
From H2T Require Import Base Tagged Wrap Sub Css Dom Render Api.
From H2T Require Import Proofs.RenderWidth Proofs.Small.
From H2T Require Proofs.TableProof.
From Coq Require Import Lia ZifyN ZifyBool ZifyNat.

Local Arguments N.add : simpl never.
Local Arguments N.sub : simpl never.
Local Arguments N.mul : simpl never.
Local Arguments N.div : simpl never.
Local Arguments N.modulo : simpl never.
Local Arguments N.leb : simpl never.
Local Arguments N.ltb : simpl never.
Local Arguments N.eqb : simpl never.
Local Arguments N.min : simpl never.
Local Arguments N.max : simpl never.
Local Arguments N.to_nat : simpl never.
Local Arguments N.of_nat : simpl never.
Local Open Scope N_scope.

(* ================================================================== *)
(* 1. Every SubRenderer operation keeps the width and the options       *)
(*    (unconditionally: RenderWidth.keeps needs sub_ok, i.e. overflow   *)
(*    not allowed; here nothing is assumed)                             *)
(* ================================================================== *)

Definition sames (f : subr -> res subr) : Prop := forall s s', f s = Ok s' -> same s s'.

Lemma sames_pure (g : subr -> subr) :
  (forall s, swidth_ (g s) = swidth_ s /\ sopts (g s) = sopts s) -> sames (fun s => Ok (g s)).
Proof. intros Hg s s' H. ok_inv H. exact (Hg s). Qed.

Lemma sames_comp f g : sames f -> sames g -> sames (fun s => do s1 <- f s; g s1).
Proof.
  intros Hf Hg s s' H. bind_inv H s1 H1. eapply same_trans; [apply Hf, H1|apply Hg, H].
Qed.

Lemma extend_lines_same ls : forall s, same s (extend_lines s ls).
Proof.
  unfold extend_lines. induction ls as [|l ls IH]; intros s; cbn [fold_left].
  - apply same_refl.
  - eapply same_trans; [apply add_line_same'|apply IH].
Qed.

Lemma flush_wrapping_sames : sames flush_wrapping.
Proof.
  intros s s' H. unfold flush_wrapping in H. destruct (wrapping s) as [w|].
  - destruct (take_trailing_fragments w) as [w1 frags]. bind_inv H lm Hlm. ok_inv H.
    destruct (extend_lines_same (map RText (fst lm)) (set_wrapping s None)) as [A B].
    split; sprj; [rewrite A|rewrite B]; reflexivity.
  - ok_inv H. apply same_refl.
Qed.

Lemma add_empty_line_sames : sames add_empty_line.
Proof.
  intros s s' H. unfold add_empty_line in H. bind_inv H s1 H1. ok_inv H.
  eapply same_trans; [apply flush_wrapping_sames, H1|].
  destruct (add_line_same s1 (RText tl_new)) as (a & b & _). split; sprj; auto.
Qed.

Lemma start_block_sames : sames start_block.
Proof.
  intros s s' H. unfold start_block in H. bind_inv H s1 H1. bind_inv H s2 H2. ok_inv H.
  eapply same_trans; [apply flush_wrapping_sames, H1|].
  assert (C : same s1 s2).
  { destruct (existsb rline_has_content (slines s1)).
    - apply add_empty_line_sames, H2.
    - ok_inv H2. apply same_refl. }
  eapply same_trans; [exact C|]. split; reflexivity.
Qed.

Lemma new_line_hard_sames : sames new_line_hard.
Proof.
  intros s s' H. unfold new_line_hard in H. destruct (wrapping s) as [w|].
  - destruct ((wordlen w =? 0) && (tlen_ (wline w) =? 0)).
    + apply add_empty_line_sames, H.
    + apply flush_wrapping_sames, H.
  - apply add_empty_line_sames, H.
Qed.

Lemma add_horizontal_line_sames b t : sames (fun s => add_horizontal_line s b t).
Proof.
  intros s s' H. unfold add_horizontal_line in H. bind_inv H s1 H1. ok_inv H.
  eapply same_trans; [apply flush_wrapping_sames, H1|apply add_line_same'].
Qed.

Lemma add_horizontal_border_width_sames w : sames (fun s => add_horizontal_border_width s w).
Proof.
  intros s s' H. unfold add_horizontal_border_width in H. bind_inv H s1 H1. ok_inv H.
  eapply same_trans; [apply flush_wrapping_sames, H1|apply add_line_same'].
Qed.

Lemma add_inline_text_sames d t : sames (fun s => add_inline_text d s t).
Proof.
  intros s s' H. unfold add_inline_text in H.
  destruct (negb (preserve_ws (ws_mode s)) && at_block_end s && all_ws t).
  { ok_inv H. apply same_refl. }
  bind_inv H s1 H1.
  assert (B : same s s1).
  { destruct (at_block_end s).
    - apply start_block_sames, H1.
    - ok_inv H1. apply same_refl. }
  bind_inv H w1 Hw1. ok_inv H. eapply same_trans; [exact B|]. split; reflexivity.
Qed.

Lemma push_ann_sames a : sames (fun s => Ok (push_ann s a)).
Proof. apply sames_pure. intros s. unfold push_ann. sprj. auto. Qed.
Lemma pop_ann_sames : sames (fun s => Ok (pop_ann s)).
Proof. apply sames_pure. intros s. unfold pop_ann. sprj. auto. Qed.

Lemma start_deco_sames d p : sames (fun s => start_deco d s p).
Proof.
  unfold start_deco.
  exact (sames_comp _ _ (push_ann_sames (snd p)) (add_inline_text_sames d (fst p))).
Qed.
Lemma end_deco_sames d e : sames (fun s => end_deco d s e).
Proof. unfold end_deco. exact (sames_comp _ _ (add_inline_text_sames d e) pop_ann_sames). Qed.

Lemma start_strikeout_sames d : sames (start_strikeout d).
Proof.
  unfold start_strikeout. apply sames_comp; [apply (start_deco_sames d)|].
  apply sames_pure. intros s. destruct (o_strike (sopts s)); sprj; auto.
Qed.
Lemma end_strikeout_sames d : sames (end_strikeout d).
Proof.
  unfold end_strikeout. apply sames_comp; [|apply (end_deco_sames d)].
  intros s s' H. destruct (o_strike (sopts s)).
  - destruct (filter_depth s); [discriminate|]. ok_inv H. split; reflexivity.
  - ok_inv H. apply same_refl.
Qed.

Lemma add_image_sames d src title : sames (fun s => add_image d s src title).
Proof.
  unfold add_image.
  exact (sames_comp _ _ (sames_comp _ _ (push_ann_sames _) (add_inline_text_sames d _))
                    pop_ann_sames).
Qed.

Lemma record_frag_start_sames name : sames (fun s => Ok (record_frag_start s name)).
Proof. apply sames_pure. intros s. unfold record_frag_start. sprj. auto. Qed.
Lemma end_block_sames : sames (fun s => Ok (end_block s)).
Proof. apply sames_pure. intros s. unfold end_block. sprj. auto. Qed.
Lemma push_colour_sames d r g b : sames (fun s => Ok (push_colour d s r g b)).
Proof. apply sames_pure. intros s. unfold push_colour, push_ann. destruct (d_colours d); sprj; auto. Qed.
Lemma push_bgcolour_sames d r g b : sames (fun s => Ok (push_bgcolour d s r g b)).
Proof. apply sames_pure. intros s. unfold push_bgcolour, push_ann. destruct (d_colours d); sprj; auto. Qed.
Lemma pop_colour_sames d : sames (fun s => Ok (pop_colour d s)).
Proof. apply sames_pure. intros s. unfold pop_colour, pop_ann. destruct (d_colours d); sprj; auto. Qed.
Lemma push_ws_mode_sames m : sames (fun s => Ok (push_ws_mode s m)).
Proof. apply sames_pure. intros s. unfold push_ws_mode. sprj. auto. Qed.
Lemma pop_ws_mode_sames : sames (fun s => Ok (pop_ws_mode s)).
Proof. apply sames_pure. intros s. unfold pop_ws_mode. sprj. auto. Qed.
Lemma push_preformat_sames : sames (fun s => Ok (push_preformat s)).
Proof. apply sames_pure. intros s. unfold push_preformat. sprj. auto. Qed.
Lemma pop_preformat_sames : sames pop_preformat.
Proof.
  intros s s' H. unfold pop_preformat in H. destruct (0 <? pre_depth s); [|discriminate].
  ok_inv H. split; reflexivity.
Qed.

Lemma append_subrender_sames sub first rest : sames (fun s => append_subrender s sub first rest).
Proof.
  intros s s' H. unfold append_subrender in H. bind_inv H s1 H1. bind_inv H ols Hols. ok_inv H.
  eapply same_trans; [apply flush_wrapping_sames, H1|apply extend_lines_same].
Qed.

Lemma vert_cols_same : forall cols s first s', vert_cols s cols first = Ok s' -> same s s'.
Proof.
  induction cols as [|c cols IH]; intros s first s' H; cbn [vert_cols] in H.
  - ok_inv H. apply same_refl.
  - bind_inv H s1 H1. bind_inv H s2 H2.
    assert (A : same s s1).
    { destruct (negb first && o_borders (sopts s)).
      - eapply add_horizontal_line_sames, H1.
      - ok_inv H1. apply same_refl. }
    eapply same_trans; [exact A|]. eapply same_trans; [eapply append_subrender_sames, H2|].
    eapply IH, H.
Qed.

Lemma append_vert_row_sames cols : sames (fun s => append_vert_row s cols).
Proof.
  intros s s' H. unfold append_vert_row in H. bind_inv H s1 H1. bind_inv H s2 H2.
  eapply same_trans; [apply flush_wrapping_sames, H1|].
  eapply same_trans; [eapply vert_cols_same, H2|].
  destruct (o_borders (sopts s2)).
  - unfold add_horizontal_border in H. eapply add_horizontal_border_width_sames, H.
  - ok_inv H. apply same_refl.
Qed.

Lemma row_lines_same t draw sets pads : forall n i s, same s (row_lines t draw n i sets pads s).
Proof.
  induction n as [|n IH]; intros i s; cbn [row_lines].
  - apply same_refl.
  - eapply same_trans; [apply add_line_same'|apply IH].
Qed.

Lemma append_columns_sames cols collapse :
  sames (fun s => append_columns_with_borders s cols collapse).
Proof.
  intros s s' H. unfold append_columns_with_borders in H.
  bind_inv H s1 H1. bind_inv H sets Hsets. bind_inv H chk Hchk.
  eapply same_trans; [apply flush_wrapping_sames, H1|]. clear H1 Hchk.
  match type of H with
  | (let '(p, n) := ?e in _) = _ => destruct e as [prev1 next1]
  end.
  bind_inv H r Hr. destruct r as [[[prev3 next3] sets4] pads].
  ok_inv H.
  match goal with
  | |- same _ (if ?c then _ else _) => destruct c
  end.
  - eapply same_trans; [|apply add_line_same'].
    eapply same_trans; [|apply row_lines_same]. split; reflexivity.
  - eapply same_trans; [|apply row_lines_same]. split; reflexivity.
Qed.

(* ================================================================== *)
(* 2. link_targets                                                      *)
(* ================================================================== *)

(* WHICH LINKS ARE COUNTED.  `render_node` pushes the target of an `ILink` node onto
   `links` BEFORE it renders the children of the link, unconditionally: whether or not
   footnotes are on, whether or not the link has any content, whether or not it is
   nested inside another link.  So the list is the list of targets of ALL `ILink` nodes
   that `render_node` VISITS, in pre-order (document order).  The only sub-trees that
   `render_node` does not visit are the contents of table cells that get no width
   (`cell_widths` answers None when the columns the cell spans all have width 0: then
   `cells_loop` skips the cell and nothing of it is rendered, neither text nor links).
   Which cells are skipped depends on the column widths, which depend on the size
   estimates of the table and on the width and the options of the sub-renderer the
   table is rendered into.  `link_targets` therefore takes the options `o` and the
   width `w` of the current sub-renderer and mirrors the width computations of
   `render_node` (header / quote / list / dd prefixes, table cells).  For a tree without
   tables it is simply the pre-order list of all link targets (`link_targets_all_links`).
   Links without content are dropped earlier, by `Dom.build_element` (a DOM <a href> whose
   children are all shallow-empty produces no node at all), not by the renderer. *)

Section LinkTargets.
  Variable d : deco.
  Variable mw : N.
  Variable o : ropts.

  (* the column estimates / widths of render_table_tree, copied from Render.render_node *)
  Definition tbl_row_step (sizes : list est) (r : rrow) : res (list est) :=
    do res_ <- fold_left
         (fun acc c =>
            do a <- acc;
            let '(sz_, colno) := a in
            do ce <- est_kids d mw (cell_content c);
            let cspan := cell_colspan c in
            if cspan =? 0 then Panic 33 else
            let e := mkest (e_size ce / cspan) (e_min ce / cspan) (e_prefix ce) in
            match upd_range sz_ (N.to_nat colno) (N.to_nat cspan) (fun s => est_max s e) with
            | Some sz' => Ok (sz', colno + cspan)
            | None => Panic 31
            end)
         (row_cells r) (Ok (sizes, 0));
    Ok (fst res_).

  Definition tbl_col_sizes (rows : list rrow) (ncols : N) : res (list est) :=
    fold_left (fun acc r => do s <- acc; tbl_row_step s r) rows
              (Ok (repeat est0 (N.to_nat ncols))).

  Definition tbl_vert (width : N) (col_sizes : list est) : bool :=
    let min_size := sumN (map e_min col_sizes) + (N.of_nat (length col_sizes) - 1) in
    o_raw o || ((width <? min_size) || (width =? 0)).

  Definition tbl_col_widths (width : N) (col_sizes : list est) : res (list N) :=
    let tot_size := sumN (map e_size col_sizes) in
    if negb (tbl_vert width col_sizes)
    then
      let ws0 := map (col_width_of width tot_size) col_sizes in
      match ws0 with
      | [] => Ok ws0
      | _ => shrink_loop (S (N.to_nat (sumN ws0))) width (map e_min col_sizes) ws0
      end
    else Ok (map (fun _ => width) col_sizes).

  (* the links of the cells of one row, given the widths the cells get *)
  Fixpoint cells_lt (f : rnode -> N -> list text) (cells : list rcell) (wsl : list (option N))
    : list text :=
    match cells, wsl with
    | RCell _ content _ :: cells', Some cw_ :: wsl' =>
      flat_map (fun c => f c cw_) content ++ cells_lt f cells' wsl'
    | _ :: cells', None :: wsl' => cells_lt f cells' wsl'
    | _, _ => []
    end.

  (* the value on a failed width computation is irrelevant for the theorems (they are about
     the Ok outcome); it is chosen so that link_targets of a tree without tables is the list of
     all its links whatever the widths are *)
  Definition on_ok {A} (r : res A) (k : A -> list text) (dflt : list text) : list text :=
    match r with Ok a => k a | _ => dflt end.

  Fixpoint link_targets (n : rnode) (w : N) {struct n} : list text :=
    let kids (cs : list rnode) (w' : N) : list text := flat_map (fun c => link_targets c w') cs in
    let sub (cs : list rnode) (r : res N) : list text := on_ok r (kids cs) (kids cs w) in
    match rn_info n with
    | IText _ | IImg _ _ | IBreak | IFragStart _ => []
    | ILink href cs => href :: kids cs w
    | IContainer cs | IEm cs | IStrong cs | IStrikeout cs | ICode cs | IBlock cs | IListItem cs
    | IDiv cs | IDl cs | IDt cs | ISup cs => kids cs w
    | IHeader _ cs =>
      on_ok (est_of d mw n)
            (fun sz => sub cs (width_minus (sub_new w o) (e_prefix sz) (e_min sz - e_prefix sz)))
            (kids cs w)
    | IBlockQuote cs =>
      let plen := swidth (d_quote_prefix d) in
      on_ok (est_of d mw n)
            (fun sz => sub cs (do iw <- usub 21 (e_min sz) plen; width_minus (sub_new w o) plen iw))
            (kids cs w)
    | IUl cs =>
      let plen := swidth (d_ul_prefix d) in
      on_ok (est_of d mw n)
            (fun sz => sub cs (do iw <- usub 22 (e_min sz) plen; width_minus (sub_new w o) plen iw))
            (kids cs w)
    | IOl start cs =>
      let sn := isat64 (start + Z.of_nat (length cs)) in
      let max_number := isat64 (sn - 1) in
      let pw := N.max (swidth (d_ol_prefix d start)) (swidth (d_ol_prefix d max_number)) in
      on_ok (est_of d mw n)
            (fun sz => sub cs (do im <- usub 23 (e_min sz) (e_prefix sz);
                               width_minus (sub_new w o) pw im))
            (kids cs w)
    | IDd cs =>
      on_ok (est_of d mw n)
            (fun sz => sub cs (do im <- usub 24 (e_min sz) 2; width_minus (sub_new w o) 2 im))
            (kids cs w)
    | ITable rows ncols =>
      let all_cells (cells : list rcell) : list text :=
          flat_map (fun c => match c with RCell _ content _ => kids content w end) cells in
      let all_rows : list text :=
          flat_map (fun r => match r with RRow rcells _ => all_cells rcells end) rows in
      on_ok (tbl_col_sizes rows ncols) (fun col_sizes =>
      on_ok (tbl_col_widths w col_sizes) (fun col_widths =>
        flat_map (fun r =>
                    match r with
                    | RRow rcells _ =>
                      on_ok (cell_widths (tbl_vert w col_sizes) col_widths rcells 0)
                            ((fix cells_loop (cells : list rcell) (wsl : list (option N))
                                {struct cells} : list text :=
                                match cells, wsl with
                                | RCell _ content _ :: cells', Some cw_ :: wsl' =>
                                  flat_map (fun c => link_targets c cw_) content
                                           ++ cells_loop cells' wsl'
                                | _ :: cells', None :: wsl' => cells_loop cells' wsl'
                                | _, _ => []
                                end) rcells)
                            (all_cells rcells)
                    end) rows) all_rows) all_rows
    | ITableRow _ | ITableBody _ | ITableCell _ => []
    end.
End LinkTargets.

(* ================================================================== *)
(* 3. The threading relation                                            *)
(* ================================================================== *)

(* width and options of the sub-renderer on top of the stack *)
Definition geo (st : rstate) : option (N * ropts) := hd_error (shape st).

(* st' has the same stack shape as st, and the links ls were pushed *)
Definition T (st st' : rstate) (ls : list text) : Prop :=
  shape st' = shape st /\ links st' = links st ++ ls.

Lemma T_refl st : T st st [].
Proof. split; [reflexivity|]. rewrite app_nil_r. reflexivity. Qed.
Lemma T_trans a b c l1 l2 : T a b l1 -> T b c l2 -> T a c (l1 ++ l2).
Proof. intros [A1 A2] [B1 B2]. split; [congruence|]. rewrite B2, A2, app_assoc. reflexivity. Qed.
Lemma T0_l a b c l : T a b [] -> T b c l -> T a c l.
Proof. intros A B. exact (T_trans _ _ _ _ _ A B). Qed.
Lemma T0_r a b c l : T a b l -> T b c [] -> T a c l.
Proof. intros A B. pose proof (T_trans _ _ _ _ _ A B) as C. rewrite app_nil_r in C. exact C. Qed.
Lemma T_geo a b l : T a b l -> geo b = geo a.
Proof. intros [A _]. unfold geo. rewrite A. reflexivity. Qed.

Lemma with_top_T f st st' : sames f -> with_top st f = Ok st' -> T st st' [].
Proof.
  intros Hf H. destruct (with_top_inv _ _ _ H) as (s & rest & s' & Es & Ef & ->).
  destruct (Hf _ _ Ef) as [A B]. split.
  - unfold shape. cbn [stack]. rewrite Es. cbn [map]. congruence.
  - cbn [links]. rewrite app_nil_r. reflexivity.
Qed.

Lemma with_top'_T g st st' : sames (fun s => Ok (g s)) -> with_top' st g = Ok st' -> T st st' [].
Proof. unfold with_top'. apply with_top_T. Qed.

Lemma top_geo st tp : top st = Ok tp -> geo st = Some (swidth_ tp, sopts tp).
Proof. intros H. destruct (top_inv _ _ H) as [rest E]. unfold geo, shape. rewrite E. reflexivity. Qed.

Lemma width_minus_geo tp a b :
  width_minus tp a b = width_minus (sub_new (swidth_ tp) (sopts tp)) a b.
Proof. reflexivity. Qed.

Lemma push_geo st tp w' :
  geo (push_sub st (new_sub_renderer tp w')) = Some (w', sopts tp).
Proof. reflexivity. Qed.

Lemma sub_scope_T st tp w' st2 sub st3 ls :
  T (push_sub st (new_sub_renderer tp w')) st2 ls -> pop_sub st2 = Ok (sub, st3) ->
  T st st3 ls /\ swidth_ sub = w'.
Proof.
  intros [E L] Hp. unfold pop_sub in Hp.
  destruct (stack st2) as [|s rest] eqn:Es; [discriminate|]. injection Hp as -> <-.
  unfold shape in E. rewrite Es in E. cbn [push_sub stack map] in E. injection E as E1 E2 E3.
  split; [split|exact E1].
  - exact E3.
  - exact L.
Qed.

Section Threading.
  Variable d : deco.
  Variable mw : N.
  Variable o : ropts.

  Notation lt := (link_targets d mw o).

  Lemma apply_style_T st cs st' p : apply_style d st cs = Ok (st', p) -> T st st' [].
  Proof.
    intros H. unfold apply_style in H.
    bind_inv H st1 H1. bind_inv H st2 H2. bind_inv H st3 H3. bind_inv H st4 H4.
    injection H as <- _.
    assert (R1 : T st st1 []).
    { destruct (ws_val (c_colour (cs_core cs))) as [[[r g] b]|].
      - eapply with_top'_T; [apply push_colour_sames|exact H1].
      - ok_inv H1. apply T_refl. }
    assert (R2 : T st1 st2 []).
    { destruct (ws_val (c_bg (cs_core cs))) as [[[r g] b]|].
      - eapply with_top'_T; [apply push_bgcolour_sames|exact H2].
      - ok_inv H2. apply T_refl. }
    assert (R3 : T st2 st3 []).
    { destruct (match ws_val (c_white_space (cs_core cs)) with
                | Some WsPre => Some WsPre
                | Some WsPreWrap => Some WsPreWrap
                | _ => None
                end) as [m|].
      - eapply with_top'_T; [apply push_ws_mode_sames|exact H3].
      - ok_inv H3. apply T_refl. }
    assert (R4 : T st3 st4 []).
    { destruct (cs_internal_pre cs).
      - eapply with_top'_T; [apply push_preformat_sames|exact H4].
      - ok_inv H4. apply T_refl. }
    eapply T0_l; [exact R1|]. eapply T0_l; [exact R2|]. eapply T0_l; eassumption.
  Qed.

  Lemma unwind_T p st st' : unwind d p st = Ok st' -> T st st' [].
  Proof.
    intros H. unfold unwind in H.
    bind_inv H st1 H1. bind_inv H st2 H2. bind_inv H st3 H3.
    assert (R1 : T st st1 []).
    { destruct (p_bg p).
      - eapply with_top'_T; [apply pop_colour_sames|exact H1].
      - ok_inv H1. apply T_refl. }
    assert (R2 : T st1 st2 []).
    { destruct (p_colour p).
      - eapply with_top'_T; [apply pop_colour_sames|exact H2].
      - ok_inv H2. apply T_refl. }
    assert (R3 : T st2 st3 []).
    { destruct (p_ws p).
      - eapply with_top'_T; [apply pop_ws_mode_sames|exact H3].
      - ok_inv H3. apply T_refl. }
    assert (R4 : T st3 st' []).
    { destruct (p_pre p).
      - eapply with_top_T; [apply pop_preformat_sames|exact H].
      - ok_inv H. apply T_refl. }
    eapply T0_l; [exact R1|]. eapply T0_l; [exact R2|]. eapply T0_l; eassumption.
  Qed.

  Lemma inline_text_T t st st' : inline_text d st t = Ok st' -> T st st' [].
  Proof. unfold inline_text. apply with_top_T, add_inline_text_sames. Qed.

  (* a monadic fold over a list threads the links of the elements *)
  Lemma fold_T {B} (f : B -> rstate -> res rstate) (g : B -> list text) (w : N) (l : list B) :
    (forall b, In b l -> forall a a', geo a = Some (w, o) -> f b a = Ok a' -> T a a' (g b)) ->
    forall a a', geo a = Some (w, o) ->
      fold_left (fun acc b => do s <- acc; f b s) l (Ok a) = Ok a' -> T a a' (flat_map g l).
  Proof.
    induction l as [|b l IH]; intros Hstep a a' Ha H.
    - cbn [fold_left] in H. ok_inv H. apply T_refl.
    - apply fold_bind_cons in H. destruct H as (a1 & H1 & H).
      pose proof (Hstep b (or_introl eq_refl) a a1 Ha H1) as T1.
      cbn [flat_map]. eapply T_trans; [exact T1|].
      apply IH; [intros b' Hb'; apply Hstep; right; exact Hb'| |exact H].
      rewrite (T_geo _ _ _ T1). exact Ha.
  Qed.

  Definition node_lt (n : rnode) : Prop :=
    forall st st' w, geo st = Some (w, o) -> render_node d mw n st = Ok st' ->
                     T st st' (lt n w).

  Definition kids_lt (cs : list rnode) (w : N) : list text := flat_map (fun c => lt c w) cs.

  Lemma render_kids_T cs st st' w :
    Forall node_lt cs -> geo st = Some (w, o) ->
    fold_left (fun acc c => do s <- acc; render_node d mw c s) cs (Ok st) = Ok st' ->
    T st st' (kids_lt cs w).
  Proof.
    intros HF Hg H. unfold kids_lt.
    apply (fold_T (render_node d mw) (fun c => lt c w) w cs); [|exact Hg|exact H].
    intros c Hc a a' Ha Hr. rewrite Forall_forall in HF. apply (HF c Hc a a' w Ha Hr).
  Qed.

  Lemma wrap_case_T (f1 f2 : subr -> res subr) cs ps st1 st' w :
    sames f1 -> sames f2 -> Forall node_lt cs -> geo st1 = Some (w, o) ->
    (do a <- with_top st1 f1;
     do b <- fold_left (fun acc c => do s <- acc; render_node d mw c s) cs (Ok a);
     do c <- with_top b f2; unwind d ps c) = Ok st' -> T st1 st' (kids_lt cs w).
  Proof.
    intros K1 K2 HF Hg H.
    bind_inv H a H1. bind_inv H b H2. bind_inv H c H3.
    pose proof (with_top_T _ _ _ K1 H1) as Ra.
    assert (Hga : geo a = Some (w, o)) by (rewrite (T_geo _ _ _ Ra); exact Hg).
    pose proof (render_kids_T _ _ _ _ HF Hga H2) as Rb.
    pose proof (with_top_T _ _ _ K2 H3) as Rc.
    pose proof (unwind_T _ _ _ H) as Rd.
    eapply T0_l; [exact Ra|]. eapply T0_r; [|exact Rd]. eapply T0_r; eassumption.
  Qed.

  (* a prefixed block: push a sub-renderer of the width computed by width_minus, render the
     body, pop *)
  Lemma prefixed_T st tp a b w w' st2 sub st3 ls :
    geo st = Some (w, o) -> top st = Ok tp -> width_minus tp a b = Ok w' ->
    (geo (push_sub st (new_sub_renderer tp w')) = Some (w', o) ->
     T (push_sub st (new_sub_renderer tp w')) st2 ls) ->
    pop_sub st2 = Ok (sub, st3) ->
    width_minus (sub_new w o) a b = Ok w' /\ T st st3 ls.
  Proof.
    intros Hg Ht Hw Hbody Hp. rewrite (top_geo _ _ Ht) in Hg. injection Hg as E1 E2.
    split; [rewrite <- E1, <- E2, <- width_minus_geo; exact Hw|].
    eapply sub_scope_T; [|exact Hp]. apply Hbody. rewrite push_geo, E2. reflexivity.
  Qed.

  Lemma flat_map_on_ok {A B} (r : res A) (h : B -> A -> list text) (l : list B) (w0 : A) :
    flat_map (fun b => on_ok r (h b) (h b w0)) l =
    on_ok r (fun x => flat_map (fun b => h b x) l) (flat_map (fun b => h b w0) l).
  Proof. destruct r; reflexivity. Qed.

  Lemma sup_digits_lt cs t w : sup_digits cs = Some t -> kids_lt cs w = [].
  Proof.
    unfold sup_digits, kids_lt. destruct cs as [|n [|n2 cs]]; try discriminate.
    destruct n as [i sty]. destruct i; cbn [rn_info]; try discriminate. intros _. reflexivity.
  Qed.

  (* the links of one row, given the column widths *)
  Definition row_lt (vr : bool) (col_widths : list N) (w : N) (r : rrow) : list text :=
    match r with
    | RRow rcells _ =>
      on_ok (cell_widths vr col_widths rcells 0) (cells_lt lt rcells)
            (flat_map (fun c => kids_lt (cell_content c) w) rcells)
    end.

  (* the table case of link_targets in terms of cells_lt *)
  Lemma lt_table rows ncols sty w col_sizes col_widths :
    tbl_col_sizes d mw rows ncols = Ok col_sizes ->
    tbl_col_widths o w col_sizes = Ok col_widths ->
    lt (RN (ITable rows ncols) sty) w =
    flat_map (row_lt (tbl_vert o w col_sizes) col_widths w) rows.
  Proof.
    intros E1 E2. cbn [link_targets rn_info]. rewrite E1. cbn [on_ok]. rewrite E2. cbn [on_ok].
    apply flat_map_ext. intros [rcells rsty]. unfold row_lt.
    destruct (cell_widths (tbl_vert o w col_sizes) col_widths rcells 0) as [cws| | |];
      cbn [on_ok]; try (apply flat_map_ext; intros [n content csty]; reflexivity).
    revert cws. induction rcells as [|[n content csty] rcells IH]; intros [|[cw_|] wsl];
      cbn [cells_lt]; try reflexivity.
    - rewrite IH. reflexivity.
    - apply IH.
  Qed.

  (* ---- ordered lists ---- *)
  Lemma ol_items_T sz pw w : forall items s i r,
    Forall node_lt items -> geo s = Some (w, o) ->
    fold_left (fun acc item => do si <- acc; ol_step d mw sz pw item si) items (Ok (s, i)) = Ok r ->
    T s (fst r)
      (flat_map (fun item =>
                   on_ok (do im <- usub 23 (e_min sz) (e_prefix sz);
                          width_minus (sub_new w o) pw im) (lt item) (lt item w)) items).
  Proof.
    induction items as [|item items IH]; intros s i r HF Hg H.
    - cbn [fold_left] in H. ok_inv H. apply T_refl.
    - apply fold_bind_cons in H. destruct H as ([s4 i'] & Hstep & H).
      pose proof (Forall_inv HF) as HF1. pose proof (Forall_inv_tail HF) as HF2.
      unfold ol_step in Hstep.
      bind_inv Hstep iw Hiw. bind_inv Hstep tp Htp. bind_inv Hstep w' Hw.
      bind_inv Hstep s2 Hs2. bind_inv Hstep pp Hpp. destruct pp as [sub s3].
      bind_inv Hstep s4' H4. injection Hstep as -> <-.
      destruct (prefixed_T s tp _ _ w w' s2 sub s3 (lt item w') Hg Htp Hw) as [Ew R3];
        [|exact Hpp|].
      { intros Hgp. apply (HF1 _ _ _ Hgp Hs2). }
      pose proof (with_top_T _ _ _ (append_subrender_sames _ _ _) H4) as R4.
      pose proof (T0_r _ _ _ _ R3 R4) as R04.
      cbn [flat_map]. rewrite Hiw. cbn [bind]. rewrite Ew. cbn [on_ok].
      eapply T_trans; [exact R04|].
      specialize (IH s4 (isat64 (i + 1)) r HF2).
      rewrite Hiw in IH. cbn [bind] in IH. rewrite Ew in IH. apply IH; [|exact H].
      rewrite (T_geo _ _ _ R04). exact Hg.
  Qed.

  (* ---- tables ---- *)
  Lemma cells_loop_T w : forall cells wsl s2 subs r,
    Forall (fun c => Forall node_lt (cell_content c)) cells -> geo s2 = Some (w, o) ->
    cells_loop d mw cells wsl s2 subs = Ok r -> T s2 (fst r) (cells_lt lt cells wsl).
  Proof.
    induction cells as [|[n content csty] cells IH]; intros wsl s2 subs r HF Hg H;
      cbn [cells_loop] in H.
    - ok_inv H. destruct wsl; apply T_refl.
    - inversion HF as [|? ? HF1 HF2]; subst. cbn [cell_content] in HF1.
      destruct wsl as [|[cw_|] wsl].
      + ok_inv H. apply T_refl.
      + bind_inv H tp2 Htp. bind_inv H apc Hap. destruct apc as [s4 pcell].
        bind_inv H s5 H5. bind_inv H s6 H6. bind_inv H pp Hpp. destruct pp as [sub s7].
        pose proof Hg as Hg'. rewrite (top_geo _ _ Htp) in Hg'. injection Hg' as E1 E2.
        pose proof (apply_style_T _ _ _ _ Hap) as Ra.
        assert (Hg4 : geo s4 = Some (cw_, o)).
        { rewrite (T_geo _ _ _ Ra), push_geo, E2. reflexivity. }
        pose proof (render_kids_T _ _ _ _ HF1 Hg4 H5) as Rb.
        pose proof (unwind_T _ _ _ H6) as Rc.
        destruct (sub_scope_T s2 tp2 cw_ s6 sub s7 (kids_lt content cw_)) as [R7 _];
          [|exact Hpp|].
        { eapply T0_l; [exact Ra|]. eapply T0_r; eassumption. }
        cbn [cells_lt]. eapply T_trans; [exact R7|].
        apply (IH wsl s7 (subs ++ [sub]) r HF2); [|exact H].
        rewrite (T_geo _ _ _ R7). exact Hg.
      + cbn [cells_lt]. apply (IH wsl s2 subs r HF2 Hg H).
  Qed.

  Lemma row_body_T vr col_widths w r s s' :
    Forall (fun c => Forall node_lt (cell_content c)) (row_cells r) -> geo s = Some (w, o) ->
    row_body d mw vr col_widths r s = Ok s' ->
    T s s' (row_lt vr col_widths w r).
  Proof.
    intros HF Hg H. destruct r as [rcells rstyle]. cbn [row_cells] in *. unfold row_body in H.
    bind_inv H apr Hap. destruct apr as [s1 prow]. bind_inv H cws Hcws. bind_inv H rr Hrr.
    destruct rr as [s8 subs]. bind_inv H s9 H9.
    pose proof (apply_style_T _ _ _ _ Hap) as R1.
    assert (Hg1 : geo s1 = Some (w, o)) by (rewrite (T_geo _ _ _ R1); exact Hg).
    pose proof (cells_loop_T w rcells cws s1 [] (s8, subs) HF Hg1 Hrr) as R8. cbn [fst] in R8.
    assert (R9 : T s8 s9 []).
    { destruct vr.
      - eapply with_top_T; [apply append_vert_row_sames|exact H9].
      - destruct (existsb (fun c => negb (sub_empty c)) subs).
        + eapply with_top_T; [apply append_columns_sames|exact H9].
        + ok_inv H9. apply T_refl. }
    pose proof (unwind_T _ _ _ H) as R10.
    unfold row_lt. rewrite Hcws. cbn [on_ok].
    eapply T0_l; [exact R1|]. eapply T0_r; [|exact R10]. eapply T0_r; eassumption.
  Qed.

  Ltac start H Hg w sz ap st1 ps R1 Hg1 :=
    let Hsz := fresh "Hsz" in let Hap := fresh "Hap" in
    bind_inv H sz Hsz; bind_inv H ap Hap; destruct ap as [st1 ps];
    pose proof (apply_style_T _ _ _ _ Hap) as R1;
    assert (Hg1 : geo st1 = Some (w, o)) by (rewrite (T_geo _ _ _ R1); exact Hg).

  (* THEOREM (1), per node *)
  Lemma node_lt_all : forall n, node_lt n.
  Proof.
    apply rnode_ind'. intros i sty IH st st' w Hg H.
    destruct i; cbn [direct_kids] in IH; cbn [render_node rn_info rn_style] in H.
    - (* IText *)
      start H Hg w sz ap st1 ps R1 Hg1. bind_inv H st2 H2.
      pose proof (inline_text_T _ _ _ H2) as R2. pose proof (unwind_T _ _ _ H) as R3.
      cbn [link_targets rn_info]. eapply T0_l; [exact R1|]. eapply T0_l; eassumption.
    - (* IContainer *)
      start H Hg w sz ap st1 ps R1 Hg1. bind_inv H st2 H2.
      pose proof (render_kids_T _ _ _ _ IH Hg1 H2) as R2. pose proof (unwind_T _ _ _ H) as R3.
      eapply T0_l; [exact R1|]. eapply T0_r; eassumption.
    - (* ILink *)
      start H Hg w sz ap st1 ps R1 Hg1.
      set (st1' := mkrst (stack st1) (links st1 ++ [href])) in H.
      assert (R1' : T st1 st1' [href]) by (split; reflexivity).
      assert (Hg1' : geo st1' = Some (w, o)) by exact Hg1.
      bind_inv H st2 H2. bind_inv H st3 H3. bind_inv H st4 H4. bind_inv H tp H5. bind_inv H st5 H6.
      pose proof (with_top_T _ _ _ (start_deco_sames d (d_link_start d href)) H2) as R2.
      assert (Hg2 : geo st2 = Some (w, o)) by (rewrite (T_geo _ _ _ R2); exact Hg1').
      pose proof (render_kids_T _ _ _ _ IH Hg2 H3) as R3.
      pose proof (with_top_T _ _ _ (end_deco_sames d (d_link_end d)) H4) as R4.
      assert (R5 : T st4 st5 []).
      { destruct (o_footnotes (sopts tp)).
        - eapply inline_text_T, H6.
        - ok_inv H6. apply T_refl. }
      pose proof (unwind_T _ _ _ H) as R6.
      cbn [link_targets rn_info]. eapply T0_l; [exact R1|].
      apply (T_trans _ _ _ [href] _ R1'). eapply T0_l; [exact R2|].
      eapply T0_r; [|exact R6]. eapply T0_r; [|exact R5]. eapply T0_r; eassumption.
    - (* IEm *)
      start H Hg w sz ap st1 ps R1 Hg1. eapply T0_l; [exact R1|].
      eapply (wrap_case_T (start_emphasis d) (end_emphasis d)); try eassumption;
        [apply (start_deco_sames d)|apply (end_deco_sames d)].
    - (* IStrong *)
      start H Hg w sz ap st1 ps R1 Hg1. eapply T0_l; [exact R1|].
      eapply (wrap_case_T (start_strong d) (end_strong d)); try eassumption;
        [apply (start_deco_sames d)|apply (end_deco_sames d)].
    - (* IStrikeout *)
      start H Hg w sz ap st1 ps R1 Hg1. eapply T0_l; [exact R1|].
      eapply (wrap_case_T (start_strikeout d) (end_strikeout d)); try eassumption;
        [apply start_strikeout_sames|apply end_strikeout_sames].
    - (* ICode *)
      start H Hg w sz ap st1 ps R1 Hg1. eapply T0_l; [exact R1|].
      eapply (wrap_case_T (start_code d) (end_code d)); try eassumption;
        [apply (start_deco_sames d)|apply (end_deco_sames d)].
    - (* IImg *)
      start H Hg w sz ap st1 ps R1 Hg1. bind_inv H st2 H2.
      pose proof (with_top_T _ _ _ (add_image_sames d src title) H2) as R2.
      pose proof (unwind_T _ _ _ H) as R3.
      cbn [link_targets rn_info]. eapply T0_l; [exact R1|]. eapply T0_l; eassumption.
    - (* IBlock *)
      start H Hg w sz ap st1 ps R1 Hg1. eapply T0_l; [exact R1|].
      eapply (wrap_case_T start_block (fun s => Ok (end_block s))); try eassumption;
        [apply start_block_sames|apply end_block_sames].
    - (* IHeader *)
      start H Hg w sz ap st1 ps R1 Hg1.
      destruct (swidth (d_header_prefix d level) =? e_prefix sz); cbn [negb] in H; [|discriminate].
      bind_inv H tp Htp. bind_inv H w' Hw. bind_inv H st2 H2. bind_inv H pp Hpp.
      destruct pp as [sub st3]. bind_inv H st4 H4. bind_inv H st5 H5. bind_inv H st6 H6.
      destruct (prefixed_T st1 tp _ _ w w' st2 sub st3 (kids_lt cs w') Hg1 Htp Hw) as [Ew R3];
        [|exact Hpp|].
      { intros Hgp. eapply render_kids_T; eassumption. }
      pose proof (with_top_T _ _ _ start_block_sames H4) as R4.
      pose proof (with_top_T _ _ _ (append_subrender_sames _ _ _) H5) as R5.
      pose proof (with_top'_T _ _ _ end_block_sames H6) as R6.
      pose proof (unwind_T _ _ _ H) as R7.
      cbn [link_targets rn_info]. rewrite Hsz. cbn [on_ok]. rewrite Ew. cbn [on_ok].
      eapply T0_l; [exact R1|]. eapply T0_r; [|exact R7]. eapply T0_r; [|exact R6].
      eapply T0_r; [|exact R5]. eapply T0_r; eassumption.
    - (* IDiv *)
      start H Hg w sz ap st1 ps R1 Hg1. eapply T0_l; [exact R1|].
      eapply (wrap_case_T new_line new_line); try eassumption; apply flush_wrapping_sames.
    - (* IBlockQuote *)
      start H Hg w sz ap st1 ps R1 Hg1.
      destruct (e_prefix sz =? swidth (d_quote_prefix d)); cbn [negb] in H; [|discriminate].
      bind_inv H iw Hiw.
      bind_inv H tp Htp. bind_inv H w' Hw. bind_inv H st2 H2. bind_inv H pp Hpp.
      destruct pp as [sub st3]. bind_inv H st4 H4. bind_inv H st5 H5. bind_inv H st6 H6.
      destruct (prefixed_T st1 tp _ _ w w' st2 sub st3 (kids_lt cs w') Hg1 Htp Hw) as [Ew R3];
        [|exact Hpp|].
      { intros Hgp. eapply render_kids_T; eassumption. }
      pose proof (with_top_T _ _ _ start_block_sames H4) as R4.
      pose proof (with_top_T _ _ _ (append_subrender_sames _ _ _) H5) as R5.
      pose proof (with_top'_T _ _ _ end_block_sames H6) as R6.
      pose proof (unwind_T _ _ _ H) as R7.
      cbn [link_targets rn_info]. rewrite Hsz. cbn [on_ok]. rewrite Hiw. cbn [bind].
      rewrite Ew. cbn [on_ok].
      eapply T0_l; [exact R1|]. eapply T0_r; [|exact R7]. eapply T0_r; [|exact R6].
      eapply T0_r; [|exact R5]. eapply T0_r; eassumption.
    - (* IUl *)
      start H Hg w sz ap st1 ps R1 Hg1. bind_inv H st2 H2.
      pose proof (unwind_T _ _ _ H) as R3.
      cbn [link_targets rn_info]. rewrite Hsz. cbn [on_ok].
      eapply T0_l; [exact R1|]. eapply T0_r; [|exact R3].
      rewrite <- (flat_map_on_ok _ (fun c w' => lt c w') cs w).
      revert H2.
      apply (fold_T
               (fun item s =>
                  do inner_width <- usub 22 (e_min sz) (swidth (d_ul_prefix d));
                  do tp <- top s;
                  do w <- width_minus tp (swidth (d_ul_prefix d)) inner_width;
                  do s2 <- render_node d mw item (push_sub s (new_sub_renderer tp w));
                  do pp <- pop_sub s2;
                  let '(sub, s3) := pp in
                  with_top s3 (fun t => append_subrender t sub (d_ul_prefix d)
                     (repeat_chr (spacel L_prefix) (N.to_nat (swidth (d_ul_prefix d))))))
               _ w cs); [|exact Hg1].
      intros item Hitem a a' Ha Hstep.
      bind_inv Hstep iw Hiw. bind_inv Hstep tp Htp. bind_inv Hstep w' Hw.
      bind_inv Hstep s2 Hs2. bind_inv Hstep pp Hpp. destruct pp as [sub s3].
      rewrite Forall_forall in IH.
      destruct (prefixed_T a tp _ _ w w' s2 sub s3 (lt item w') Ha Htp Hw) as [Ew R3'];
        [|exact Hpp|].
      { intros Hgp. apply (IH item Hitem _ _ _ Hgp Hs2). }
      pose proof (with_top_T _ _ _ (append_subrender_sames _ _ _) Hstep) as R4.
      rewrite Hiw. cbn [bind]. rewrite Ew. cbn [on_ok]. eapply T0_r; eassumption.
    - (* IOl *)
      start H Hg w sz ap st1 ps R1 Hg1. bind_inv H r Hr.
      pose proof (unwind_T _ _ _ H) as R3.
      cbn [link_targets rn_info]. rewrite Hsz. cbn [on_ok].
      eapply T0_l; [exact R1|]. eapply T0_r; [|exact R3].
      rewrite <- (flat_map_on_ok _ (fun c w' => lt c w') cs w).
      eapply (ol_items_T sz _ w cs st1 start r IH Hg1). exact Hr.
    - (* IDl *)
      start H Hg w sz ap st1 ps R1 Hg1. bind_inv H st2 H2. bind_inv H st3 H3.
      pose proof (with_top_T _ _ _ start_block_sames H2) as R2.
      assert (Hg2 : geo st2 = Some (w, o)) by (rewrite (T_geo _ _ _ R2); exact Hg1).
      pose proof (render_kids_T _ _ _ _ IH Hg2 H3) as R3.
      pose proof (unwind_T _ _ _ H) as R4.
      eapply T0_l; [exact R1|]. eapply T0_l; [exact R2|]. eapply T0_r; eassumption.
    - (* IDt *)
      start H Hg w sz ap st1 ps R1 Hg1. bind_inv H st2 H2.
      pose proof (with_top_T _ _ _ flush_wrapping_sames H2) as R2.
      assert (Hg2 : geo st2 = Some (w, o)) by (rewrite (T_geo _ _ _ R2); exact Hg1).
      eapply T0_l; [exact R1|]. eapply T0_l; [exact R2|].
      eapply (wrap_case_T (start_emphasis d) (end_emphasis d)); try eassumption;
        [apply (start_deco_sames d)|apply (end_deco_sames d)].
    - (* IDd *)
      start H Hg w sz ap st1 ps R1 Hg1. bind_inv H iw Hiw.
      bind_inv H tp Htp. bind_inv H w' Hw. bind_inv H st2 H2. bind_inv H pp Hpp.
      destruct pp as [sub st3]. bind_inv H st4 H4.
      destruct (prefixed_T st1 tp _ _ w w' st2 sub st3 (kids_lt cs w') Hg1 Htp Hw) as [Ew R3];
        [|exact Hpp|].
      { intros Hgp. eapply render_kids_T; eassumption. }
      pose proof (with_top_T _ _ _ (append_subrender_sames _ _ _) H4) as R4.
      pose proof (unwind_T _ _ _ H) as R5.
      cbn [link_targets rn_info]. rewrite Hsz. cbn [on_ok]. rewrite Hiw. cbn [bind].
      rewrite Ew. cbn [on_ok].
      eapply T0_l; [exact R1|]. eapply T0_r; [|exact R5]. eapply T0_r; eassumption.
    - (* IBreak *)
      start H Hg w sz ap st1 ps R1 Hg1. bind_inv H st2 H2.
      pose proof (with_top_T _ _ _ new_line_hard_sames H2) as R2.
      pose proof (unwind_T _ _ _ H) as R3.
      cbn [link_targets rn_info]. eapply T0_l; [exact R1|]. eapply T0_l; eassumption.
    - (* ITable *)
      start H Hg w sz ap st1 ps R1 Hg1.
      bind_inv H col_sizes Hcs. bind_inv H tp Htp.
      pose proof Hg1 as Hg'. rewrite (top_geo _ _ Htp) in Hg'. injection Hg' as E1 E2.
      set (vr := o_raw (sopts tp)
                 || ((swidth_ tp <? sumN (map e_min col_sizes) + (N.of_nat (length col_sizes) - 1))
                     || (swidth_ tp =? 0))) in *.
      bind_inv H col_widths Hcw. bind_inv H st2 H2. bind_inv H st3 H3. bind_inv H st_rows Hrows.
      assert (Hcs' : tbl_col_sizes d mw rows ncols = Ok col_sizes) by exact Hcs.
      assert (Evr : tbl_vert o w col_sizes = vr) by (rewrite <- E1, <- E2; reflexivity).
      assert (Hcw' : tbl_col_widths o w col_sizes = Ok col_widths).
      { rewrite <- E1, <- E2. exact Hcw. }
      pose proof (with_top_T _ _ _ start_block_sames H2) as R2.
      assert (R3 : T st2 st3 []).
      { match type of H3 with (if ?c then _ else _) = _ => destruct c end.
        - eapply with_top_T; [apply add_horizontal_border_width_sames|exact H3].
        - ok_inv H3. apply T_refl. }
      assert (Hg3 : geo st3 = Some (w, o)).
      { rewrite (T_geo _ _ _ R3), (T_geo _ _ _ R2). exact Hg1. }
      assert (Hrows' : fold_left (fun acc r => do s <- acc; row_body d mw vr col_widths r s) rows
                                 (Ok st3) = Ok st_rows) by exact Hrows.
      pose proof (unwind_T _ _ _ H) as R5.
      rewrite (lt_table _ _ _ _ _ _ Hcs' Hcw'), Evr.
      eapply T0_l; [exact R1|]. eapply T0_l; [exact R2|]. eapply T0_l; [exact R3|].
      eapply T0_r; [|exact R5].
      revert Hrows'. apply (fold_T (row_body d mw vr col_widths) _ w rows); [|exact Hg3].
      intros r Hr a a' Ha Hstep.
      apply Forall_flat_map in IH. rewrite Forall_forall in IH. specialize (IH r Hr).
      unfold row_kids in IH. apply Forall_flat_map in IH.
      exact (row_body_T vr col_widths w r a a' IH Ha Hstep).
    - (* ITableBody *) bind_inv H sz Hsz. bind_inv H ap Hap. destruct ap. discriminate.
    - (* ITableRow *) bind_inv H sz Hsz. bind_inv H ap Hap. destruct ap. discriminate.
    - (* ITableCell *) bind_inv H sz Hsz. bind_inv H ap Hap. destruct ap. discriminate.
    - (* IFragStart *)
      start H Hg w sz ap st1 ps R1 Hg1. bind_inv H st2 H2.
      pose proof (with_top'_T _ _ _ (record_frag_start_sames name) H2) as R2.
      pose proof (unwind_T _ _ _ H) as R3.
      cbn [link_targets rn_info]. eapply T0_l; [exact R1|]. eapply T0_l; eassumption.
    - (* IListItem *)
      start H Hg w sz ap st1 ps R1 Hg1. eapply T0_l; [exact R1|].
      eapply (wrap_case_T start_block (fun s => Ok (end_block s))); try eassumption;
        [apply start_block_sames|apply end_block_sames].
    - (* ISup *)
      start H Hg w sz ap st1 ps R1 Hg1. eapply T0_l; [exact R1|].
      destruct (sup_digits cs) as [digitstr|] eqn:Esd.
      + bind_inv H st2 H2.
        pose proof (inline_text_T _ _ _ H2) as R2. pose proof (unwind_T _ _ _ H) as R3.
        change (lt (RN (ISup cs) sty) w) with (kids_lt cs w).
        rewrite (sup_digits_lt _ _ w Esd). eapply T0_l; eassumption.
      + eapply (wrap_case_T (start_superscript d) (end_superscript d)); try eassumption;
          [apply (start_deco_sames d)|apply (end_deco_sames d)].
  Qed.
End Threading.

(* ================================================================== *)
(* 4. THEOREM (1): the link list after rendering a node                 *)
(* ================================================================== *)

(* Whenever render_node answers Ok, the links it pushed are exactly link_targets of the node,
   computed for the options and the width of the sub-renderer that was on top of the stack,
   appended in that order to the links that were there before.  Holds for every node kind,
   through all sub-renderers (headings, quotes, lists, dd, table cells, nested tables), for
   every decorator and all options (in particular: whether or not footnotes are on). *)
Theorem links_threaded : forall d mw n st st' tp,
  top st = Ok tp -> render_node d mw n st = Ok st' ->
  links st' = links st ++ link_targets d mw (sopts tp) n (swidth_ tp).
Proof.
  intros d mw n st st' tp Ht H.
  exact (proj2 (node_lt_all d mw (sopts tp) n st st' (swidth_ tp) (top_geo _ _ Ht) H)).
Qed.
Print Assumptions links_threaded.

(* ... and the stack of sub-renderers has the same widths and options as before. *)
Theorem render_node_shape : forall d mw n st st' tp,
  top st = Ok tp -> render_node d mw n st = Ok st' -> shape st' = shape st.
Proof.
  intros d mw n st st' tp Ht H.
  exact (proj1 (node_lt_all d mw (sopts tp) n st st' (swidth_ tp) (top_geo _ _ Ht) H)).
Qed.

(* ---- link_targets versus the plain pre-order list of all links ---- *)
Fixpoint all_links (n : rnode) {struct n} : list text :=
  let kids (cs : list rnode) : list text := flat_map all_links cs in
  match rn_info n with
  | IText _ | IImg _ _ | IBreak | IFragStart _ => []
  | ILink href cs => href :: kids cs
  | IContainer cs | IEm cs | IStrong cs | IStrikeout cs | ICode cs | IBlock cs | IListItem cs
  | IDiv cs | IDl cs | IDt cs | ISup cs | IHeader _ cs | IBlockQuote cs | IUl cs | IOl _ cs
  | IDd cs => kids cs
  | ITable rows _ =>
    flat_map (fun r => match r with
                       | RRow cells _ =>
                         flat_map (fun c => match c with RCell _ k _ => kids k end) cells
                       end) rows
  | ITableRow _ | ITableBody _ | ITableCell _ => []   (* never rendered: Panic 60 *)
  end.

Fixpoint no_table (n : rnode) {struct n} : bool :=
  match rn_info n with
  | IText _ | IImg _ _ | IBreak | IFragStart _ => true
  | ILink _ cs
  | IContainer cs | IEm cs | IStrong cs | IStrikeout cs | ICode cs | IBlock cs | IListItem cs
  | IDiv cs | IDl cs | IDt cs | ISup cs | IHeader _ cs | IBlockQuote cs | IUl cs | IOl _ cs
  | IDd cs => forallb no_table cs
  | ITable _ _ | ITableRow _ | ITableBody _ | ITableCell _ => false
  end.

Inductive subseq {A} : list A -> list A -> Prop :=
| ss_nil : subseq [] []
| ss_both x l l' : subseq l l' -> subseq (x :: l) (x :: l')
| ss_skip x l l' : subseq l l' -> subseq l (x :: l').

Lemma subseq_refl {A} (l : list A) : subseq l l.
Proof. induction l; constructor; assumption. Qed.
Lemma subseq_nil_l {A} (l : list A) : subseq [] l.
Proof. induction l; constructor; assumption. Qed.
Lemma subseq_skip_app {A} (x l l' : list A) : subseq l l' -> subseq l (x ++ l').
Proof. intros H. induction x; cbn [app]; [exact H|constructor; assumption]. Qed.
Lemma subseq_app {A} (a a' b b' : list A) : subseq a a' -> subseq b b' -> subseq (a ++ b) (a' ++ b').
Proof. intros Ha Hb. induction Ha; cbn [app]; [exact Hb|constructor; assumption|constructor; assumption]. Qed.
Lemma subseq_flat_map {A B} (f g : A -> list B) (l : list A) :
  Forall (fun a => subseq (f a) (g a)) l -> subseq (flat_map f l) (flat_map g l).
Proof.
  induction 1 as [|a l Ha _ IH]; cbn [flat_map]; [constructor|apply subseq_app; assumption].
Qed.

Section Pure.
  Variable d : deco.
  Variable mw : N.
  Variable o : ropts.
  Notation lt := (link_targets d mw o).

  Lemma kids_no_table cs :
    Forall (fun n => no_table n = true -> forall w, lt n w = all_links n) cs ->
    forallb no_table cs = true -> forall w, kids_lt d mw o cs w = flat_map all_links cs.
  Proof.
    intros HF Hn w. unfold kids_lt. induction HF as [|c cs Hc _ IH]; [reflexivity|].
    cbn [forallb] in Hn. apply andb_true_iff in Hn. destruct Hn as [H1 H2].
    cbn [flat_map]. rewrite (Hc H1 w), (IH H2). reflexivity.
  Qed.

  (* In a tree without tables every link is visited, whatever the widths are. *)
  Theorem link_targets_no_table : forall n, no_table n = true -> forall w, lt n w = all_links n.
  Proof.
    apply (rnode_ind' (fun n => no_table n = true -> forall w, lt n w = all_links n)).
    intros i sty IH Hn w.
    destruct i; cbn [direct_kids] in IH; cbn [no_table rn_info] in Hn; try discriminate;
      cbn [link_targets all_links rn_info]; try reflexivity;
      repeat match goal with
             | |- context [on_ok ?r _ _] => destruct r; cbn [on_ok]
             end;
      first [ exact (kids_no_table _ IH Hn _)
            | apply (f_equal (cons _)); exact (kids_no_table _ IH Hn _) ].
  Qed.


  Lemma kids_subseq cs :
    Forall (fun n => forall w, subseq (lt n w) (all_links n)) cs ->
    forall w, subseq (kids_lt d mw o cs w) (flat_map all_links cs).
  Proof.
    intros HF w. apply subseq_flat_map. eapply Forall_impl; [|exact HF]. intros n H. apply H.
  Qed.

  Lemma cells_lt_subseq : forall cells wsl,
    Forall (fun c => Forall (fun n => forall w, subseq (lt n w) (all_links n)) (cell_content c))
           cells ->
    subseq (cells_lt lt cells wsl)
           (flat_map (fun c => match c with RCell _ k _ => flat_map all_links k end) cells).
  Proof.
    induction cells as [|[n content csty] cells IH]; intros wsl HF.
    - destruct wsl; constructor.
    - inversion HF as [|? ? HF1 HF2]; subst. cbn [cell_content] in HF1.
      destruct wsl as [|[cw_|] wsl]; cbn [cells_lt flat_map].
      + apply subseq_nil_l.
      + apply subseq_app; [apply (kids_subseq _ HF1)|apply IH, HF2].
      + apply subseq_skip_app, IH, HF2.
  Qed.

  (* In general link_targets is a subsequence of all links in document order: the only
     thing the renderer can do is to leave out the links of skipped table cells. *)
  Theorem link_targets_subseq : forall n w, subseq (lt n w) (all_links n).
  Proof.
    apply (rnode_ind' (fun n => forall w, subseq (lt n w) (all_links n))).
    intros i sty IH w.
    destruct i; cbn [direct_kids] in IH;
      try (cbn [link_targets all_links rn_info];
           repeat match goal with
                  | |- context [on_ok ?r _ _] => destruct r; cbn [on_ok]
                  end;
           try (apply ss_both); try exact (kids_subseq _ IH _); constructor).
    (* ITable *)
    apply Forall_flat_map in IH.
    assert (Hall : subseq
              (flat_map (fun r => match r with
                                  | RRow rcells _ =>
                                    flat_map (fun c => match c with
                                                       | RCell _ content _ =>
                                                         flat_map (fun c0 => lt c0 w) content
                                                       end) rcells
                                  end) rows)
              (all_links (RN (ITable rows ncols) sty))).
    { cbn [all_links rn_info]. apply subseq_flat_map. eapply Forall_impl; [|exact IH].
      intros [cells rsty] Hr. unfold row_kids in Hr. apply Forall_flat_map in Hr.
      cbn [row_cells] in Hr. apply subseq_flat_map. eapply Forall_impl; [|exact Hr].
      intros [n content csty] Hc. cbn [cell_content] in Hc. apply (kids_subseq _ Hc). }
    destruct (tbl_col_sizes d mw rows ncols) as [col_sizes| | |] eqn:E1;
      [destruct (tbl_col_widths o w col_sizes) as [col_widths| | |] eqn:E2|..];
      try (cbn [link_targets rn_info]; rewrite E1; cbn [on_ok]; try rewrite E2; cbn [on_ok];
           exact Hall).
    rewrite (lt_table d mw o rows ncols sty w _ _ E1 E2). cbn [all_links rn_info].
    apply subseq_flat_map. eapply Forall_impl; [|exact IH].
    intros [cells rsty] Hr. unfold row_kids in Hr. apply Forall_flat_map in Hr.
    cbn [row_cells] in Hr. unfold row_lt.
    destruct (cell_widths (tbl_vert o w col_sizes) col_widths cells 0) as [cws| | |];
      cbn [on_ok]; try apply (cells_lt_subseq _ _ Hr);
      (apply subseq_flat_map; eapply Forall_impl; [|exact Hr];
       intros [n content csty] Hc; apply (kids_subseq _ Hc)).
  Qed.
End Pure.
Print Assumptions link_targets_no_table.
Print Assumptions link_targets_subseq.

(* Corollary: in a tree without tables the k-th pushed link is the k-th link of the tree in
   document order, wherever the links occur (paragraphs, lists, quotes, headings, dd, ...). *)
Corollary links_threaded_no_table : forall d mw n st st' tp,
  no_table n = true -> top st = Ok tp -> render_node d mw n st = Ok st' ->
  links st' = links st ++ all_links n.
Proof.
  intros d mw n st st' tp Hn Ht H.
  rewrite (links_threaded d mw n st st' tp Ht H), (link_targets_no_table d mw (sopts tp) n Hn).
  reflexivity.
Qed.
Print Assumptions links_threaded_no_table.

(* a list of children: the i-th child starts with the links of the children before it *)
Lemma render_kids_nth d mw : forall cs st st' tp i c,
  top st = Ok tp ->
  fold_left (fun acc c => do s <- acc; render_node d mw c s) cs (Ok st) = Ok st' ->
  nth_error cs i = Some c ->
  exists sti sti',
    render_node d mw c sti = Ok sti' /\ shape sti = shape st /\
    links sti = links st ++ kids_lt d mw (sopts tp) (firstn i cs) (swidth_ tp).
Proof.
  induction cs as [|c0 cs IH]; intros st st' tp i c Ht H Hn; [destruct i; discriminate|].
  apply fold_bind_cons in H. destruct H as (st1 & H1 & H).
  destruct i as [|i]; cbn [nth_error firstn] in *.
  - injection Hn as <-. exists st, st1. split; [exact H1|]. split; [reflexivity|].
    unfold kids_lt. cbn [flat_map]. rewrite app_nil_r. reflexivity.
  - pose proof (node_lt_all d mw (sopts tp) c0 st st1 (swidth_ tp) (top_geo _ _ Ht) H1) as [S1 L1].
    assert (Ht1 : exists tp1, top st1 = Ok tp1 /\ sopts tp1 = sopts tp /\ swidth_ tp1 = swidth_ tp).
    { destruct (top_inv _ _ Ht) as [rest E]. unfold shape in S1. rewrite E in S1.
      unfold top. destruct (stack st1) as [|tp1 rest1]; [discriminate|].
      cbn [map] in S1. injection S1 as A B _. exists tp1. auto. }
    destruct Ht1 as (tp1 & Ht1 & Eo & Ew).
    destruct (IH st1 st' tp1 i c Ht1 H Hn) as (sti & sti' & A & B & C).
    exists sti, sti'. split; [exact A|]. split; [congruence|].
    rewrite C, L1, Eo, Ew. unfold kids_lt. cbn [flat_map]. rewrite app_assoc. reflexivity.
Qed.
Print Assumptions render_kids_nth.

(* ================================================================== *)
(* 5. THEOREM (2): the reference text of a link                         *)
(* ================================================================== *)

(* The complete run of the ILink case.  The text passed to add_inline_text after
   sub_end_link is "[k]" with k = the number of links pushed so far INCLUDING the links
   nested inside this link:  k = |links before| + 1 + |link_targets of the children|.
   For a link that contains no (visited) link this is its own 1-based position in the link
   list (link_reference_simple); a link that contains other links gets the number of the
   LAST link inside it (known defect, see nested_link_* below).
   With footnotes off nothing at all is added after the decorator's own link-end string. *)
Theorem link_reference : forall d mw href cs sty st st' tp,
  top st = Ok tp -> render_node d mw (RN (ILink href cs) sty) st = Ok st' ->
  let inner := kids_lt d mw (sopts tp) cs (swidth_ tp) in
  let k := (length (links st) + 1 + length inner)%nat in
  exists st1 ps st2 st3 st4 st5,
    apply_style d st sty = Ok (st1, ps) /\
    with_top (mkrst (stack st1) (links st ++ [href])) (fun s => sub_start_link d s href) = Ok st2 /\
    fold_left (fun acc c => do s <- acc; render_node d mw c s) cs (Ok st2) = Ok st3 /\
    with_top st3 (fun s => sub_end_link d s) = Ok st4 /\
    links st4 = links st ++ href :: inner /\ shape st4 = shape st /\
    (if o_footnotes (sopts tp)
     then inline_text d st4 (ftext ([91] ++ dec_N (N.of_nat k) ++ [93]))
     else Ok st4) = Ok st5 /\
    unwind d ps st5 = Ok st'.
Proof.
  intros d mw href cs sty st st' tp Ht H inner k.
  pose proof (top_geo _ _ Ht) as Hg.
  cbn [render_node rn_info rn_style] in H.
  bind_inv H sz Hsz. bind_inv H ap Hap. destruct ap as [st1 ps].
  pose proof (apply_style_T _ _ _ _ _ Hap) as R1.
  assert (Hg1 : geo st1 = Some (swidth_ tp, sopts tp)) by (rewrite (T_geo _ _ _ R1); exact Hg).
  assert (El1 : links st1 = links st) by (rewrite (proj2 R1), app_nil_r; reflexivity).
  rewrite El1 in H.
  set (st1' := mkrst (stack st1) (links st ++ [href])) in H.
  bind_inv H st2 H2. bind_inv H st3 H3. bind_inv H st4 H4. bind_inv H tp4 H5. bind_inv H st5 H6.
  pose proof (with_top_T _ _ _ (start_deco_sames d (d_link_start d href)) H2) as R2.
  assert (Hg2 : geo st2 = Some (swidth_ tp, sopts tp)) by (rewrite (T_geo _ _ _ R2); exact Hg1).
  pose proof (render_kids_T d mw (sopts tp) _ _ _ _
                (proj2 (Forall_forall _ _) (fun c _ => node_lt_all d mw (sopts tp) c)) Hg2 H3) as R3.
  pose proof (with_top_T _ _ _ (end_deco_sames d (d_link_end d)) H4) as R4.
  pose proof (T0_l _ _ _ _ R2 (T0_r _ _ _ _ R3 R4)) as R24.
  assert (El4 : links st4 = links st ++ href :: inner).
  { rewrite (proj2 R24). cbn [links st1']. rewrite <- app_assoc. reflexivity. }
  assert (Es4 : shape st4 = shape st).
  { rewrite (proj1 R24). exact (proj1 R1). }
  assert (Eo : sopts tp4 = sopts tp).
  { pose proof (top_geo _ _ H5) as G4. unfold geo in G4, Hg. rewrite Es4, Hg in G4. congruence. }
  exists st1, ps, st2, st3, st4, st5. repeat (split; [assumption|]). split; [|exact H].
  rewrite <- Eo. rewrite El4 in H6. rewrite app_length in H6. cbn [length] in H6.
  replace k with (length (links st) + S (length inner))%nat by lia. exact H6.
Qed.
Print Assumptions link_reference.

Lemma subseq_nil_r {A} (l : list A) : subseq l [] -> l = [].
Proof. inversion 1. reflexivity. Qed.

(* a link without links inside gets its own position in the list: |links before| + 1 *)
Corollary link_reference_simple : forall d mw href cs sty st st' tp,
  flat_map all_links cs = [] ->
  top st = Ok tp -> o_footnotes (sopts tp) = true ->
  render_node d mw (RN (ILink href cs) sty) st = Ok st' ->
  exists st4 st5 ps,
    links st4 = links st ++ [href] /\
    inline_text d st4 (ftext ([91] ++ dec_N (N.of_nat (length (links st) + 1)) ++ [93])) = Ok st5 /\
    unwind d ps st5 = Ok st' /\ links st' = links st ++ [href].
Proof.
  intros d mw href cs sty st st' tp Hnone Ht Hf H.
  pose proof (links_threaded _ _ _ _ _ _ Ht H) as HL.
  destruct (link_reference d mw href cs sty st st' tp Ht H)
    as (st1 & ps & st2 & st3 & st4 & st5 & _ & _ & _ & _ & A & _ & B & C).
  assert (E : kids_lt d mw (sopts tp) cs (swidth_ tp) = []).
  { apply subseq_nil_r. rewrite <- Hnone. apply subseq_flat_map, Forall_forall.
    intros c _. apply link_targets_subseq. }
  cbn [link_targets rn_info] in HL. fold (kids_lt d mw (sopts tp) cs (swidth_ tp)) in HL.
  rewrite E in A, B, HL. rewrite Hf in B. cbn [length] in B. rewrite Nat.add_0_r in B.
  exists st4, st5, ps. auto.
Qed.
Print Assumptions link_reference_simple.

(* ================================================================== *)
(* 6. THEOREM (3): render_tree and the footnote list                    *)
(* ================================================================== *)

Lemma finalise_from_nil k L : finalise_from k L = [] <-> L = [].
Proof. destruct L; cbn [finalise_from]; split; intros; try reflexivity; discriminate. Qed.

(* render_tree = render the tree into one sub-renderer `body`, collecting
   L = link_targets tree, then - only if footnotes are on and L is not empty - start a new
   block and format the lines finalise_from 1 L, ONCE, at the end.  With footnotes off (or no
   visited link) the result is the body itself: no list. *)
Theorem render_tree_footnotes : forall d mw o width tree s,
  render_tree d mw o width tree = Ok s ->
  let L := link_targets d mw o tree width in
  exists st body,
    render_node d mw tree (mkrst [sub_new width o] []) = Ok st /\
    stack st = [body] /\ links st = L /\ swidth_ body = width /\ sopts body = o /\
    match (if o_footnotes o then L else []) with
    | [] => s = body
    | _ :: _ => exists b1, start_block body = Ok b1 /\ s = fmt_links b1 (finalise_from 1 L)
    end.
Proof.
  intros d mw o width tree s H L. unfold render_tree in H.
  bind_inv H e He. bind_inv H st Hst.
  pose proof (node_lt_all d mw o tree (mkrst [sub_new width o] []) st width eq_refl Hst) as [Sh Lk].
  cbn [links app] in Lk.
  destruct (stack st) as [|body [|x rest]] eqn:Es; try discriminate.
  unfold shape in Sh. rewrite Es in Sh. cbn [stack map] in Sh. injection Sh as E1 E2.
  cbn [sub_new swidth_ sopts] in E1, E2.
  exists st, body. repeat (split; [assumption|]).
  unfold sub_finalise in H. rewrite E2, Lk in H. fold L in H.
  destruct (o_footnotes o).
  - destruct L as [|u L']; [cbn [finalise_from] in H; ok_inv H; reflexivity|].
    cbn [finalise_from] in H. bind_inv H b1 Hb1. ok_inv H. exists b1. split; [exact Hb1|reflexivity].
  - ok_inv H. reflexivity.
Qed.
Print Assumptions render_tree_footnotes.

(* the k-th entry (k = 1, 2, ...) of that list is "[k]: " followed by the k-th link target *)
Corollary render_tree_footnote_entry : forall d mw o width tree i u,
  nth_error (link_targets d mw o tree width) i = Some u ->
  option_map (fun l => cps (tl_string l))
             (nth_error (finalise_from 1 (link_targets d mw o tree width)) i) =
  Some ([91] ++ dec_N (1 + N.of_nat i) ++ [93; 58; 32] ++ cps u) /\
  length (finalise_from 1 (link_targets d mw o tree width)) =
  length (link_targets d mw o tree width).
Proof.
  intros. split; [apply finalise_from_nth; assumption|apply finalise_from_length].
Qed.
Print Assumptions render_tree_footnote_entry.

(* ---- what fmt_links appends: the lines of the list ---- *)

(* text of the fragments waiting for the next line (fragment markers have no text) *)
Definition pf_text (s : subr) : text := flat_map elem_text (pending_frags s).

Lemma tl_string_fold_push v : forall l,
  tl_string (fold_left tl_push v l) = tl_string l ++ flat_map elem_text v.
Proof.
  induction v as [|e v IH]; intros l; cbn [fold_left flat_map].
  - rewrite app_nil_r. reflexivity.
  - rewrite IH, TableProof.tl_string_push, app_assoc. reflexivity.
Qed.

Lemma add_line_text s tl :
  exists l', slines (add_line s (RText tl)) = slines s ++ [l'] /\
             rline_string l' = pf_text s ++ tl_string tl /\
             pending_frags (add_line s (RText tl)) = [].
Proof.
  unfold add_line, pf_text. destruct (pending_frags s) as [|e pf] eqn:E; sprj.
  - eexists. split; [reflexivity|]. split; [reflexivity|first [exact E|reflexivity]].
  - eexists. split; [reflexivity|]. split; [|reflexivity].
    cbn [rline_string]. rewrite !tl_string_fold_push. reflexivity.
Qed.

(* everything that has been put on lines or is waiting to be *)
Definition fl_pending (s : subr) (wl : tline) (buf : text) : text :=
  pf_text s ++ tl_string wl ++ buf.

Lemma fl_chars_spec t : forall cs s buf wl pos s' buf' wl' pos',
  fl_chars s t cs buf wl pos = (s', buf', wl', pos') ->
  exists new, slines s' = slines s ++ new /\
              flat_map rline_string new ++ fl_pending s' wl' buf' = fl_pending s wl buf ++ cs /\
              same s s' /\ wrapping s' = wrapping s.
Proof.
  induction cs as [|c cs IH]; intros s buf wl pos s' buf' wl' pos' H; cbn [fl_chars] in H.
  - injection H as <- <- <- <-. exists []. rewrite !app_nil_r. cbn [flat_map app].
    split; [reflexivity|]. split; [reflexivity|]. split; [apply same_refl|reflexivity].
  - destruct (swidth_ s <? pos + cw0 c).
    + match type of H with
      | fl_chars (add_line s (RText ?wl1)) _ _ _ _ _ = _ => set (w1 := wl1) in *
      end.
      destruct (add_line_text s w1) as (l' & E1 & E2 & E3).
      destruct (IH _ _ _ _ _ _ _ _ H) as (new & A & B & C & D).
      exists (l' :: new). rewrite A, E1, <- app_assoc. split; [reflexivity|].
      destruct (add_line_same s (RText w1)) as (a & b & c').
      split; [|split; [eapply same_trans; [apply add_line_same'|exact C]|congruence]].
      cbn [flat_map]. rewrite <- app_assoc, B, E2.
      assert (Ep : fl_pending (add_line s (RText w1)) tl_new [c] = [c]).
      { unfold fl_pending, pf_text. rewrite E3. reflexivity. }
      assert (Ew : tl_string w1 = tl_string wl ++ buf).
      { unfold w1. destruct buf; [rewrite app_nil_r; reflexivity|].
        apply TableProof.tl_string_push_str. }
      rewrite Ep, Ew. unfold fl_pending. rewrite <- !app_assoc. reflexivity.
    + destruct (IH _ _ _ _ _ _ _ _ H) as (new & A & B & C & D).
      exists new. split; [exact A|]. split; [|split; assumption].
      rewrite B. unfold fl_pending. rewrite <- !app_assoc. reflexivity.
Qed.

Lemma fl_strings_spec : forall strs s wl pos s' wl',
  fl_strings s strs wl pos = (s', wl') ->
  exists new, slines s' = slines s ++ new /\
              flat_map rline_string new ++ fl_pending s' wl' [] =
              fl_pending s wl [] ++ flat_map (fun p => nl_to_space (fst p)) strs /\
              same s s' /\ wrapping s' = wrapping s /\
              (o_wrap_links (sopts s) = false -> new = [] /\ s' = s).
Proof.
  induction strs as [|[str tg] strs IH]; intros s wl pos s' wl' H; cbn [fl_strings] in H.
  - injection H as <- <-. exists []. cbn [flat_map app]. rewrite !app_nil_r.
    repeat split; try reflexivity.
  - cbn [flat_map fst].
    destruct (o_wrap_links (sopts s) && (swidth_ s <? pos + swidth (nl_to_space str))) eqn:Ec.
    + destruct (fl_chars s [ADefault] (nl_to_space str) [] wl pos) as [[[s1 buf] wl1] pos1] eqn:Ef.
      destruct (fl_chars_spec _ _ _ _ _ _ _ _ _ _ Ef) as (new1 & A1 & B1 & C1 & D1).
      destruct (IH _ _ _ _ _ H) as (new2 & A2 & B2 & C2 & D2 & _).
      exists (new1 ++ new2). rewrite A2, A1, <- app_assoc. split; [reflexivity|].
      split; [|split; [eapply same_trans; eassumption|split; [congruence|]]].
      * rewrite flat_map_app, <- app_assoc, B2.
        assert (Ep : fl_pending s1 (tl_push_str wl1 buf [ADefault]) [] = fl_pending s1 wl1 buf).
        { unfold fl_pending. rewrite TableProof.tl_string_push_str, app_nil_r. reflexivity. }
        rewrite Ep, app_assoc, B1, <- app_assoc. reflexivity.
      * intros Hw. rewrite Hw in Ec. discriminate.
    + destruct (IH _ _ _ _ _ H) as (new2 & A2 & B2 & C2 & D2 & F2).
      exists new2. split; [exact A2|]. split; [|split; [exact C2|split; [exact D2|exact F2]]].
      rewrite B2. unfold fl_pending. rewrite TableProof.tl_string_push_str, !app_nil_r,
        <- !app_assoc. reflexivity.
Qed.

Lemma nl_to_space_app a b : nl_to_space (a ++ b) = nl_to_space a ++ nl_to_space b.
Proof. apply map_app. Qed.

Lemma tagged_strings_text l :
  flat_map (fun p => nl_to_space (fst p)) (tl_tagged_strings l) = nl_to_space (tl_string l).
Proof.
  unfold tl_tagged_strings, tl_string. induction (tv l) as [|e v IH]; [reflexivity|].
  cbn [flat_map]. rewrite flat_map_app, nl_to_space_app, IH.
  destruct e; cbn [flat_map elem_text fst app]; rewrite ?app_nil_r; reflexivity.
Qed.

(* the lines `new` consist of one non-empty group of consecutive lines per entry; the strings
   of the lines of a group concatenate to the entry (the first one preceded by the text p of
   the pending fragments) *)
Inductive entry_groups : list text -> text -> list rline -> Prop :=
| eg_nil p : entry_groups [] p []
| eg_cons e es p g rest :
    g <> [] -> flat_map rline_string g = p ++ e -> entry_groups es [] rest ->
    entry_groups (e :: es) p (g ++ rest).

Definition entry_text (l : tline) : text := nl_to_space (tl_string l).

Theorem fmt_links_spec : forall ls s,
  exists new,
    slines (fmt_links s ls) = slines s ++ new /\
    entry_groups (map entry_text ls) (pf_text s) new /\
    wrapping (fmt_links s ls) = wrapping s /\
    (o_wrap_links (sopts s) = false ->
     map rline_string new = match map entry_text ls with
                            | [] => []
                            | e :: es => (pf_text s ++ e) :: es
                            end).
Proof.
  induction ls as [|l ls IH]; intros s; cbn [fmt_links map].
  - exists []. rewrite app_nil_r. repeat split; try reflexivity. constructor.
  - destruct (fl_strings s (tl_tagged_strings l) tl_new 0) as [s1 wl] eqn:Ef.
    destruct (fl_strings_spec _ _ _ _ _ _ Ef) as (new1 & A1 & B1 & C1 & D1 & F1).
    destruct (add_line_text s1 wl) as (l' & E1 & E2 & E3).
    destruct (IH (add_line s1 (RText wl))) as (new2 & A2 & B2 & C2 & D2).
    destruct (add_line_same s1 (RText wl)) as (a & b & c).
    exists ((new1 ++ [l']) ++ new2).
    split; [rewrite A2, E1, A1, <- !app_assoc; reflexivity|]. split; [|split; [congruence|]].
    + constructor.
      * intros Hx. apply app_eq_nil in Hx. destruct Hx as [_ Hx]. discriminate Hx.
      * rewrite flat_map_app. cbn [flat_map]. rewrite app_nil_r, E2.
        unfold fl_pending in B1. rewrite !app_nil_r in B1.
        rewrite tagged_strings_text in B1. exact B1.
      * unfold pf_text in B2 at 1. rewrite E3 in B2. exact B2.
    + intros Hw. destruct (F1 Hw) as [-> ->]. cbn [app map]. rewrite E2.
      unfold fl_pending in B1. rewrite !app_nil_r in B1. cbn [flat_map app] in B1.
      rewrite tagged_strings_text in B1. rewrite B1. unfold entry_text at 1.
      f_equal. rewrite D2 by (rewrite b; exact Hw).
      unfold pf_text. rewrite E3. destruct (map entry_text ls); reflexivity.
Qed.
Print Assumptions fmt_links_spec.

(* ---- the output of render_tree ends with exactly that list ---- *)

Lemma extend_lines_wrapping ls : forall s, wrapping (extend_lines s ls) = wrapping s.
Proof.
  unfold extend_lines. induction ls as [|l ls IH]; intros s; cbn [fold_left]; [reflexivity|].
  rewrite IH. destruct (add_line_same s l) as (_ & _ & c). exact c.
Qed.

Lemma flush_wrapping_none s s' : flush_wrapping s = Ok s' -> wrapping s' = None.
Proof.
  intros H. unfold flush_wrapping in H. destruct (wrapping s) as [w|] eqn:Ew.
  - destruct (take_trailing_fragments w) as [w1 frags]. bind_inv H ls Hls. ok_inv H. sprj.
    rewrite extend_lines_wrapping. reflexivity.
  - ok_inv H. exact Ew.
Qed.

Lemma start_block_none s s' : start_block s = Ok s' -> wrapping s' = None.
Proof.
  intros H. unfold start_block in H. bind_inv H s1 H1. bind_inv H s2 H2. ok_inv H. sprj.
  pose proof (flush_wrapping_none _ _ H1) as E1.
  destruct (existsb rline_has_content (slines s1)).
  - unfold add_empty_line in H2. bind_inv H2 s3 H3. ok_inv H2. sprj.
    destruct (add_line_same s3 (RText tl_new)) as (_ & _ & c). rewrite c.
    apply (flush_wrapping_none _ _ H3).
  - ok_inv H2. exact E1.
Qed.

Lemma cps_nl_to_space t :
  cps (nl_to_space t) = map (fun c => if c =? 10 then 32 else c) (cps t).
Proof.
  unfold cps, nl_to_space. rewrite !map_map. apply map_ext. intros c.
  destruct (cp c =? 10); reflexivity.
Qed.

(* With footnotes on and at least one visited link: the lines of the result are the lines of
   the document body (after start_block, which separates the list from the text by an empty
   line) followed by the lines `new` of the footnote list and nothing else; `new` consists
   of one group of lines per link, the k-th group spelling "[k]: " ++ target_k (newlines in
   the target shown as spaces); without link wrapping each group is a single line. *)
Theorem render_tree_output : forall d mw o width tree s,
  render_tree d mw o width tree = Ok s ->
  o_footnotes o = true ->
  let L := link_targets d mw o tree width in
  L <> [] ->
  exists st body b1 new,
    render_node d mw tree (mkrst [sub_new width o] []) = Ok st /\ stack st = [body] /\
    start_block body = Ok b1 /\
    sub_into_lines s = Ok (slines b1 ++ new) /\
    entry_groups (map entry_text (finalise_from 1 L)) (pf_text b1) new /\
    (o_wrap_links o = false ->
     map rline_string new = match map entry_text (finalise_from 1 L) with
                            | [] => []
                            | e :: es => (pf_text b1 ++ e) :: es
                            end) /\
    forall i u, nth_error L i = Some u ->
      option_map (fun l => cps (entry_text l)) (nth_error (finalise_from 1 L) i) =
      Some (map (fun c => if c =? 10 then 32 else c)
                ([91] ++ dec_N (1 + N.of_nat i) ++ [93; 58; 32] ++ cps u)).
Proof.
  intros d mw o width tree s H Hf L HL.
  destruct (render_tree_footnotes d mw o width tree s H) as (st & body & A & B & C & D & E & F).
  fold L in F. rewrite Hf in F. destruct L as [|u0 L'] eqn:EL; [contradiction|].
  destruct F as (b1 & Hb1 & ->).
  destruct (fmt_links_spec (finalise_from 1 (u0 :: L')) b1) as (new & G1 & G2 & G3 & G4).
  exists st, body, b1, new. repeat (split; [assumption|]).
  split; [|split; [exact G2|split]].
  - unfold sub_into_lines, flush_wrapping. rewrite G3, (start_block_none _ _ Hb1).
    cbn [bind]. rewrite G1. reflexivity.
  - intros Hw. apply G4. destruct (start_block_sames _ _ Hb1) as [_ Eo]. rewrite Eo, E. exact Hw.
  - intros i u Hn. pose proof (finalise_from_nth (u0 :: L') 1 i u Hn) as X.
    destruct (nth_error (finalise_from 1 (u0 :: L')) i) as [l|]; [|discriminate].
    cbn [option_map] in *. injection X as X. unfold entry_text. rewrite cps_nl_to_space, X.
    reflexivity.
Qed.
Print Assumptions render_tree_output.

(* ================================================================== *)
(* 7. Non-vacuity examples and findings                                 *)
(* ================================================================== *)

Definition fn_opts : ropts := render_options (set_footnotes (with_decorator plain_deco) true).
Definition fn_out (r : res subr) : res (list (list N)) :=
  do s <- r; do ls <- sub_into_lines s; Ok (map (fun l => cps (rline_string l)) ls).
Definition fn_u (k : N) : text := ex_str [117; 48 + k].             (* "u<k>" *)
Definition fn_tx (l : list N) : rnode := ex_n (IText (ex_str l)).
Definition fn_lk (k : N) (l : list N) : rnode := ex_n (ILink (fn_u k) [fn_tx l]).

(* links in a paragraph, a heading, a quote, an unordered and an ordered list, a table cell,
   a nested table, a dt and a dd *)
Definition fn_tree : rnode :=
  ex_n (IContainer
    [ex_n (IBlock [fn_tx [97;32]; fn_lk 1 [112]]);
     ex_n (IHeader 1 [fn_lk 2 [104]]);
     ex_n (IBlockQuote [ex_n (IBlock [fn_lk 3 [113]])]);
     ex_n (IUl [ex_n (IListItem [fn_lk 4 [105]])]);
     ex_n (IOl 1 [ex_n (IListItem [fn_lk 5 [111]])]);
     ex_n (ITable [RRow [RCell 1 [fn_lk 6 [99]] cstyle0;
                         RCell 1 [ex_n (ITable [RRow [RCell 1 [fn_lk 7 [110]] cstyle0] cstyle0] 1)]
                               cstyle0] cstyle0] 2);
     ex_n (IDl [ex_n (IDt [fn_lk 8 [116]]); ex_n (IDd [fn_lk 9 [100]])])]).

(* (1): the hypotheses of links_threaded hold (rendering is Ok from a state that already has
   one link) and the links come out as u0, u1 .. u9 *)
Example fn_links_threaded :
  (do st <- render_node plain_deco 3 fn_tree (mkrst [sub_new 40 fn_opts] [fn_u 0]);
   Ok (map cps (links st))) = Ok (map (fun k => cps (fn_u k)) [0;1;2;3;4;5;6;7;8;9]) /\
  map cps (link_targets plain_deco 3 fn_opts fn_tree 40) =
  map (fun k => cps (fn_u k)) [1;2;3;4;5;6;7;8;9] /\
  link_targets plain_deco 3 fn_opts fn_tree 40 = all_links fn_tree.
Proof. repeat split; vm_compute; reflexivity. Qed.

(* (3): render_tree is Ok, the references are [1] .. [9] in document order and the output ends
   with the list "[1]: u1" .. "[9]: u9" *)
Example fn_render_tree :
  fn_out (render_tree plain_deco 3 fn_opts 40 fn_tree) =
  Ok [[97; 32; 91; 112; 93; 91; 49; 93]; [];                         (* a [p][1]   *)
      [35; 32; 91; 104; 93; 91; 50; 93]; [];                         (* # [h][2]   *)
      [62; 32; 91; 113; 93; 91; 51; 93];                             (* > [q][3]   *)
      [42; 32; 91; 105; 93; 91; 52; 93];                             (* * [i][4]   *)
      [49; 46; 32; 91; 111; 93; 91; 53; 93]; [];                     (* 1. [o][5]  *)
      [9472; 9472; 9472; 9472; 9472; 9472; 9516; 9472; 9472; 9472; 9472; 9472; 9472];
      [91; 99; 93; 91; 54; 93; 9474; 91; 110; 93; 91; 55; 93];       (* [c][6]|[n][7] *)
      [9472; 9472; 9472; 9472; 9472; 9472; 9524; 9472; 9472; 9472; 9472; 9472; 9472]; [];
      [91; 116; 93; 91; 56; 93];                                     (* [t][8]     *)
      [32; 32; 91; 100; 93; 91; 57; 93]; [];                         (*   [d][9]   *)
      [91; 49; 93; 58; 32; 117; 49]; [91; 50; 93; 58; 32; 117; 50];
      [91; 51; 93; 58; 32; 117; 51]; [91; 52; 93; 58; 32; 117; 52];
      [91; 53; 93; 58; 32; 117; 53]; [91; 54; 93; 58; 32; 117; 54];
      [91; 55; 93; 58; 32; 117; 55]; [91; 56; 93; 58; 32; 117; 56];
      [91; 57; 93; 58; 32; 117; 57]].
Proof. vm_compute. reflexivity. Qed.

(* the theorems apply to the example *)
Definition fn_s : subr :=
  match render_tree plain_deco 3 fn_opts 40 fn_tree with Ok s => s | _ => sub_new 0 fn_opts end.
Example fn_render_eq : render_tree plain_deco 3 fn_opts 40 fn_tree = Ok fn_s.
Proof. vm_compute. reflexivity. Qed.
Example fn_output_applies :
  exists b1 new, sub_into_lines fn_s = Ok (slines b1 ++ new) /\
                 entry_groups (map entry_text (finalise_from 1 (all_links fn_tree))) (pf_text b1) new.
Proof.
  destruct (render_tree_output plain_deco 3 fn_opts 40 fn_tree fn_s fn_render_eq eq_refl)
    as (st & body & b1 & new & _ & _ & _ & A & B & _).
  - vm_compute. discriminate.
  - exists b1, new. split; [exact A|].
    replace (all_links fn_tree) with (link_targets plain_deco 3 fn_opts fn_tree 40)
      by (vm_compute; reflexivity).
    exact B.
Qed.

(* footnotes off: no reference and no list (the link list is still collected) *)
Definition fn_opts_off : ropts := render_options (with_decorator plain_deco).
Example fn_footnotes_off :
  fn_out (render_tree plain_deco 3 fn_opts_off 40
            (ex_n (IBlock [fn_tx [97;32]; fn_lk 1 [112]; fn_tx [32]; fn_lk 2 [113]]))) =
  Ok [[97; 32; 91; 112; 93; 32; 91; 113; 93]].                       (* a [p] [q] *)
Proof. vm_compute. reflexivity. Qed.

(* ---- FINDING 1 (known, DESIGN): a link that contains another link gets the number of the
   last link inside it.  link_reference says k = |links before| + 1 + |links inside|. ---- *)
(* <a href=u1>x <a href=u2>y</a> z</a>  (render tree; an HTML parser does not nest <a> directly) *)
Definition nested_link_tree : rnode :=
  ex_n (ILink (fn_u 1) [fn_tx [120;32]; fn_lk 2 [121]; fn_tx [32;122]]).
Example nested_link_direct :
  fn_out (render_tree plain_deco 3 fn_opts 40 nested_link_tree) =
  Ok [[91; 120; 32; 91; 121; 93; 91; 50; 93; 32; 122; 93; 91; 50; 93]; [];   (* [x [y][2] z][2] *)
      [91; 49; 93; 58; 32; 117; 49]; [91; 50; 93; 58; 32; 117; 50]].         (* [1]: u1  [2]: u2 *)
Proof. vm_compute. reflexivity. Qed.
(* <a href=u1><table><tr><td>x <a href=u2>y</a></td></tr></table>z</a>: reachable from HTML;
   the implementation prints the same ("z][2]") *)
Definition nested_link_table : rnode :=
  ex_n (ILink (fn_u 1)
          [ex_n (ITable [RRow [RCell 1 [fn_tx [120;32]; fn_lk 2 [121]] cstyle0] cstyle0] 1);
           fn_tx [122]]).
Example nested_link_via_table :
  fn_out (render_tree plain_deco 3 fn_opts 20 nested_link_table) =
  Ok [[91]; []; [9472; 9472; 9472; 9472; 9472; 9472; 9472];
      [120; 32; 32; 32; 32; 32; 32]; [91; 121; 93; 91; 50; 93; 32];          (* [y][2] *)
      [9472; 9472; 9472; 9472; 9472; 9472; 9472]; [122; 93; 91; 50; 93]; []; (* z][2]  *)
      [91; 49; 93; 58; 32; 117; 49]; [91; 50; 93; 58; 32; 117; 50]] /\
  map cps (link_targets plain_deco 3 fn_opts nested_link_table 20) = [cps (fn_u 1); cps (fn_u 2)].
Proof. split; vm_compute; reflexivity. Qed.

(* ---- FINDING 2 (new): a table cell whose estimated size divided by its colspan is 0 is given
   no width and is dropped with everything in it: text, link, reference and footnote.
   link_targets really is shorter than all_links here.  Reachable from HTML:
   <table><tr><td colspan=7><a href=u1>x</a></td></tr><tr><td></td> x7 </tr></table>
   renders as the empty string, in the model and in the implementation (probed with the
   harness; <td colspan=7>hello</td> over seven empty cells loses "hello" the same way). ---- *)
Definition skipped_cell_tree : rnode :=
  ex_n (ITable [RRow [RCell 7 [fn_lk 1 [120]] cstyle0] cstyle0] 7).
Example skipped_cell :
  fn_out (render_tree plain_deco 3 fn_opts 20 skipped_cell_tree) = Ok [] /\
  link_targets plain_deco 3 fn_opts skipped_cell_tree 20 = [] /\
  all_links skipped_cell_tree = [fn_u 1].
Proof. repeat split; vm_compute; reflexivity. Qed.

Definition fn_el (name : list N) attrs kids : node := NElem true (ex_str name) attrs kids.
Definition fn_td0 : node := fn_el [116;100] [] [].
Definition skipped_cell_dom : list node :=
  [fn_el [116;97;98;108;101] [] [fn_el [116;98;111;100;121] []
     [fn_el [116;114] []
        [fn_el [116;100] [(ex_str [99;111;108;115;112;97;110], ex_str [55])]
               [fn_el [97] [(ex_str [104;114;101;102], fn_u 1)] [NText (ex_str [120])]]];
      fn_el [116;114] [] [fn_td0;fn_td0;fn_td0;fn_td0;fn_td0;fn_td0;fn_td0]]]].
Example skipped_cell_from_html :
  string_from_read (fun _ => Ok []) (fun _ => Ok [])
                   (set_footnotes (with_decorator plain_deco) true) skipped_cell_dom 20 = Ok [].
Proof. vm_compute. reflexivity. Qed.

(* ================================================================== *)
(* SUMMARY                                                              *)
(* ==================================================================

   link_targets d mw o n w : list text
     the targets of the ILink nodes that render_node visits when it renders n into a
     sub-renderer of width w with options o, in document (pre-)order.  Every ILink node counts
     (with or without content, nested or not, footnotes on or off); only the contents of
     table cells that get no width are not visited.  all_links n = all ILink targets in
     pre-order;  link_targets_subseq: link_targets is a subsequence of all_links;
     link_targets_no_table: equal for trees without tables.

   (1) links_threaded:
         top st = Ok tp -> render_node d mw n st = Ok st' ->
         links st' = links st ++ link_targets d mw (sopts tp) n (swidth_ tp)
       (+ render_node_shape: the stack keeps its widths/options;
          links_threaded_no_table: ... = links st ++ all_links n;
          render_kids_nth: the i-th child starts after the links of the children before it)
   (2) link_reference: the complete run of the ILink case; the text passed to
       add_inline_text after sub_end_link is
         "[" ++ dec_N (|links st| + 1 + |link_targets of the children|) ++ "]"
       if footnotes are on, and nothing is added if they are off.
       link_reference_simple: for a link without links inside: "[" ++ dec_N (|links st| + 1) ++ "]".
   (3) render_tree_footnotes: render_tree = body; if footnotes on and L = link_targets tree <> []
       then fmt_links (start_block body) (finalise_from 1 L) - once - else the body itself.
       render_tree_footnote_entry (k-th entry = "[k]: " ++ target_k), fmt_links_spec and
       render_tree_output (the lines of the result are the body's lines followed by exactly the
       lines of the list, one group of lines per link; one line per link without wrapping).

   No hypotheses besides the Ok outcome.  NOT proved: a tree-level "trace" connecting every
   nested ILink call inside a tree to link_reference formally (link_reference is stated for an
   arbitrary start state, and (1)/render_kids_nth give the link list at every point, but the
   call tree itself is not formalised); that the reference text, once passed to
   add_inline_text, appears in the output right after the link text (that is the
   character-conservation property of the wrapping layer, Proofs/Conserve.v).

   Deviations from C08 found: FINDING 1 (nested links, known), FINDING 2 (skipped cells, new);
   with footnotes off the renderer still collects the link list (it is only not printed), so
   "links stays []" is false, harmlessly. *)
