(* Proofs/Footnotes.v -- property C08 (link footnotes): the THREADING of the link list through
   the whole renderer model.  Partial correctness (only the Ok outcome), no axioms, no
   hypothesis on the options or the decorator.

   See the summary at the end of the file for the main theorems. *)
From H2T Require Import Base Tagged Wrap Sub Css Dom Render Api.
From H2T Require Import Proofs.RenderWidth Proofs.Small.
From Coq Require Import Lia ZifyN ZifyBool ZifyNat.

Local Arguments N.add : simpl never.
Local Arguments N.sub : simpl never.
Local Arguments N.mul : simpl never.
Local Arguments N.div : simpl never.
Local Arguments N.modulo : simpl never.
Local Arguments N.leb : simpl never.
Local Arguments N.ltb : simpl never.
Local Arguments N.eqb : simpl never.
Local Arguments N.min : simpl never.
Local Arguments N.max : simpl never.
Local Arguments N.to_nat : simpl never.
Local Arguments N.of_nat : simpl never.
Local Open Scope N_scope.

(* ================================================================== *)
(* 1. Every SubRenderer operation keeps the width and the options       *)
(*    (unconditionally: RenderWidth.keeps needs sub_ok, i.e. overflow   *)
(*    not allowed; here nothing is assumed)                             *)
(* ================================================================== *)

Definition sames (f : subr -> res subr) : Prop := forall s s', f s = Ok s' -> same s s'.

Lemma sames_pure (g : subr -> subr) :
  (forall s, swidth_ (g s) = swidth_ s /\ sopts (g s) = sopts s) -> sames (fun s => Ok (g s)).
Proof. intros Hg s s' H. ok_inv H. exact (Hg s). Qed.

Lemma sames_comp f g : sames f -> sames g -> sames (fun s => do s1 <- f s; g s1).
Proof.
  intros Hf Hg s s' H. bind_inv H s1 H1. eapply same_trans; [apply Hf, H1|apply Hg, H].
Qed.

Lemma extend_lines_same ls : forall s, same s (extend_lines s ls).
Proof.
  unfold extend_lines. induction ls as [|l ls IH]; intros s; cbn [fold_left].
  - apply same_refl.
  - eapply same_trans; [apply add_line_same'|apply IH].
Qed.

Lemma flush_wrapping_sames : sames flush_wrapping.
Proof.
  intros s s' H. unfold flush_wrapping in H. destruct (wrapping s) as [w|].
  - destruct (take_trailing_fragments w) as [w1 frags]. bind_inv H ls Hls. ok_inv H.
    destruct (extend_lines_same (map RText ls) (set_wrapping s None)) as [A B].
    split; sprj; [rewrite A|rewrite B]; reflexivity.
  - ok_inv H. apply same_refl.
Qed.

Lemma add_empty_line_sames : sames add_empty_line.
Proof.
  intros s s' H. unfold add_empty_line in H. bind_inv H s1 H1. ok_inv H.
  eapply same_trans; [apply flush_wrapping_sames, H1|].
  destruct (add_line_same s1 (RText tl_new)) as (a & b & _). split; sprj; auto.
Qed.

Lemma start_block_sames : sames start_block.
Proof.
  intros s s' H. unfold start_block in H. bind_inv H s1 H1. bind_inv H s2 H2. ok_inv H.
  eapply same_trans; [apply flush_wrapping_sames, H1|].
  assert (C : same s1 s2).
  { destruct (existsb rline_has_content (slines s1)).
    - apply add_empty_line_sames, H2.
    - ok_inv H2. apply same_refl. }
  eapply same_trans; [exact C|]. split; reflexivity.
Qed.

Lemma new_line_hard_sames : sames new_line_hard.
Proof.
  intros s s' H. unfold new_line_hard in H. destruct (wrapping s) as [w|].
  - destruct ((wordlen w =? 0) && (tlen_ (wline w) =? 0)).
    + apply add_empty_line_sames, H.
    + apply flush_wrapping_sames, H.
  - apply add_empty_line_sames, H.
Qed.

Lemma add_horizontal_line_sames b t : sames (fun s => add_horizontal_line s b t).
Proof.
  intros s s' H. unfold add_horizontal_line in H. bind_inv H s1 H1. ok_inv H.
  eapply same_trans; [apply flush_wrapping_sames, H1|apply add_line_same'].
Qed.

Lemma add_horizontal_border_width_sames w : sames (fun s => add_horizontal_border_width s w).
Proof.
  intros s s' H. unfold add_horizontal_border_width in H. bind_inv H s1 H1. ok_inv H.
  eapply same_trans; [apply flush_wrapping_sames, H1|apply add_line_same'].
Qed.

Lemma add_inline_text_sames d t : sames (fun s => add_inline_text d s t).
Proof.
  intros s s' H. unfold add_inline_text in H.
  destruct (negb (preserve_ws (ws_mode s)) && at_block_end s && all_ws t).
  { ok_inv H. apply same_refl. }
  bind_inv H s1 H1.
  assert (B : same s s1).
  { destruct (at_block_end s).
    - apply start_block_sames, H1.
    - ok_inv H1. apply same_refl. }
  bind_inv H w1 Hw1. ok_inv H. eapply same_trans; [exact B|]. split; reflexivity.
Qed.

Lemma push_ann_sames a : sames (fun s => Ok (push_ann s a)).
Proof. apply sames_pure. intros s. unfold push_ann. sprj. auto. Qed.
Lemma pop_ann_sames : sames (fun s => Ok (pop_ann s)).
Proof. apply sames_pure. intros s. unfold pop_ann. sprj. auto. Qed.

Lemma start_deco_sames d p : sames (fun s => start_deco d s p).
Proof.
  unfold start_deco.
  exact (sames_comp _ _ (push_ann_sames (snd p)) (add_inline_text_sames d (fst p))).
Qed.
Lemma end_deco_sames d e : sames (fun s => end_deco d s e).
Proof. unfold end_deco. exact (sames_comp _ _ (add_inline_text_sames d e) pop_ann_sames). Qed.

Lemma start_strikeout_sames d : sames (start_strikeout d).
Proof.
  unfold start_strikeout. apply sames_comp; [apply (start_deco_sames d)|].
  apply sames_pure. intros s. destruct (o_strike (sopts s)); sprj; auto.
Qed.
Lemma end_strikeout_sames d : sames (end_strikeout d).
Proof.
  unfold end_strikeout. apply sames_comp; [|apply (end_deco_sames d)].
  intros s s' H. destruct (o_strike (sopts s)).
  - destruct (filter_depth s); [discriminate|]. ok_inv H. split; reflexivity.
  - ok_inv H. apply same_refl.
Qed.

Lemma add_image_sames d src title : sames (fun s => add_image d s src title).
Proof.
  unfold add_image.
  exact (sames_comp _ _ (sames_comp _ _ (push_ann_sames _) (add_inline_text_sames d _))
                    pop_ann_sames).
Qed.

Lemma record_frag_start_sames name : sames (fun s => Ok (record_frag_start s name)).
Proof. apply sames_pure. intros s. unfold record_frag_start. sprj. auto. Qed.
Lemma end_block_sames : sames (fun s => Ok (end_block s)).
Proof. apply sames_pure. intros s. unfold end_block. sprj. auto. Qed.
Lemma push_colour_sames d r g b : sames (fun s => Ok (push_colour d s r g b)).
Proof. apply sames_pure. intros s. unfold push_colour, push_ann. destruct (d_colours d); sprj; auto. Qed.
Lemma push_bgcolour_sames d r g b : sames (fun s => Ok (push_bgcolour d s r g b)).
Proof. apply sames_pure. intros s. unfold push_bgcolour, push_ann. destruct (d_colours d); sprj; auto. Qed.
Lemma pop_colour_sames d : sames (fun s => Ok (pop_colour d s)).
Proof. apply sames_pure. intros s. unfold pop_colour, pop_ann. destruct (d_colours d); sprj; auto. Qed.
Lemma push_ws_mode_sames m : sames (fun s => Ok (push_ws_mode s m)).
Proof. apply sames_pure. intros s. unfold push_ws_mode. sprj. auto. Qed.
Lemma pop_ws_mode_sames : sames (fun s => Ok (pop_ws_mode s)).
Proof. apply sames_pure. intros s. unfold pop_ws_mode. sprj. auto. Qed.
Lemma push_preformat_sames : sames (fun s => Ok (push_preformat s)).
Proof. apply sames_pure. intros s. unfold push_preformat. sprj. auto. Qed.
Lemma pop_preformat_sames : sames pop_preformat.
Proof.
  intros s s' H. unfold pop_preformat in H. destruct (0 <? pre_depth s); [|discriminate].
  ok_inv H. split; reflexivity.
Qed.

Lemma append_subrender_sames sub first rest : sames (fun s => append_subrender s sub first rest).
Proof.
  intros s s' H. unfold append_subrender in H. bind_inv H s1 H1. bind_inv H ols Hols. ok_inv H.
  eapply same_trans; [apply flush_wrapping_sames, H1|apply extend_lines_same].
Qed.

Lemma vert_cols_same : forall cols s first s', vert_cols s cols first = Ok s' -> same s s'.
Proof.
  induction cols as [|c cols IH]; intros s first s' H; cbn [vert_cols] in H.
  - ok_inv H. apply same_refl.
  - bind_inv H s1 H1. bind_inv H s2 H2.
    assert (A : same s s1).
    { destruct (negb first && o_borders (sopts s)).
      - eapply add_horizontal_line_sames, H1.
      - ok_inv H1. apply same_refl. }
    eapply same_trans; [exact A|]. eapply same_trans; [eapply append_subrender_sames, H2|].
    eapply IH, H.
Qed.

Lemma append_vert_row_sames cols : sames (fun s => append_vert_row s cols).
Proof.
  intros s s' H. unfold append_vert_row in H. bind_inv H s1 H1. bind_inv H s2 H2.
  eapply same_trans; [apply flush_wrapping_sames, H1|].
  eapply same_trans; [eapply vert_cols_same, H2|].
  destruct (o_borders (sopts s2)).
  - unfold add_horizontal_border in H. eapply add_horizontal_border_width_sames, H.
  - ok_inv H. apply same_refl.
Qed.

Lemma row_lines_same t draw sets pads : forall n i s, same s (row_lines t draw n i sets pads s).
Proof.
  induction n as [|n IH]; intros i s; cbn [row_lines].
  - apply same_refl.
  - eapply same_trans; [apply add_line_same'|apply IH].
Qed.

Lemma append_columns_sames cols collapse :
  sames (fun s => append_columns_with_borders s cols collapse).
Proof.
  intros s s' H. unfold append_columns_with_borders in H.
  bind_inv H s1 H1. bind_inv H sets Hsets. bind_inv H chk Hchk.
  eapply same_trans; [apply flush_wrapping_sames, H1|]. clear H1 Hchk.
  match type of H with
  | (let '(p, n) := ?e in _) = _ => destruct e as [prev1 next1]
  end.
  bind_inv H r Hr. destruct r as [[[prev3 next3] sets4] pads].
  ok_inv H.
  match goal with
  | |- same _ (if ?c then _ else _) => destruct c
  end.
  - eapply same_trans; [|apply add_line_same'].
    eapply same_trans; [|apply row_lines_same]. split; reflexivity.
  - eapply same_trans; [|apply row_lines_same]. split; reflexivity.
Qed.

(* ================================================================== *)
(* 2. link_targets                                                      *)
(* ================================================================== *)

(* WHICH LINKS ARE COUNTED.  `render_node` pushes the target of an `ILink` node onto
   `links` BEFORE it renders the children of the link, unconditionally: whether or not
   footnotes are on, whether or not the link has any content, whether or not it is
   nested inside another link.  So the list is the list of targets of ALL `ILink` nodes
   that `render_node` VISITS, in pre-order (document order).  The only sub-trees that
   `render_node` does not visit are the contents of table cells that get no width
   (`cell_widths` answers None when the columns the cell spans all have width 0: then
   `cells_loop` skips the cell and nothing of it is rendered, neither text nor links).
   Which cells are skipped depends on the column widths, which depend on the size
   estimates of the table and on the width and the options of the sub-renderer the
   table is rendered into.  `link_targets` therefore takes the options `o` and the
   width `w` of the current sub-renderer and mirrors the width computations of
   `render_node` (header / quote / list / dd prefixes, table cells).  For a tree without
   tables it is simply the pre-order list of all link targets (`link_targets_all_links`).
   Links without content are dropped earlier, by `Dom.build_element` (a DOM <a href> whose
   children are all shallow-empty produces no node at all), not by the renderer. *)

Section LinkTargets.
  Variable d : deco.
  Variable mw : N.
  Variable o : ropts.

  (* the column estimates / widths of render_table_tree, copied from Render.render_node *)
  Definition tbl_row_step (sizes : list est) (r : rrow) : res (list est) :=
    do res_ <- fold_left
         (fun acc c =>
            do a <- acc;
            let '(sz_, colno) := a in
            do ce <- est_kids d mw (cell_content c);
            let cspan := cell_colspan c in
            if cspan =? 0 then Panic 33 else
            let e := mkest (e_size ce / cspan) (e_min ce / cspan) (e_prefix ce) in
            match upd_range sz_ (N.to_nat colno) (N.to_nat cspan) (fun s => est_max s e) with
            | Some sz' => Ok (sz', colno + cspan)
            | None => Panic 31
            end)
         (row_cells r) (Ok (sizes, 0));
    Ok (fst res_).

  Definition tbl_col_sizes (rows : list rrow) (ncols : N) : res (list est) :=
    fold_left (fun acc r => do s <- acc; tbl_row_step s r) rows
              (Ok (repeat est0 (N.to_nat ncols))).

  Definition tbl_vert (width : N) (col_sizes : list est) : bool :=
    let min_size := sumN (map e_min col_sizes) + (N.of_nat (length col_sizes) - 1) in
    o_raw o || ((width <? min_size) || (width =? 0)).

  Definition tbl_col_widths (width : N) (col_sizes : list est) : res (list N) :=
    let tot_size := sumN (map e_size col_sizes) in
    if negb (tbl_vert width col_sizes)
    then
      let ws0 := map (col_width_of width tot_size) col_sizes in
      match ws0 with
      | [] => Ok ws0
      | _ => shrink_loop (S (N.to_nat (sumN ws0))) width (map e_min col_sizes) ws0
      end
    else Ok (map (fun _ => width) col_sizes).

  (* the links of the cells of one row, given the widths the cells get *)
  Fixpoint cells_lt (f : rnode -> N -> list text) (cells : list rcell) (wsl : list (option N))
    : list text :=
    match cells, wsl with
    | RCell _ content _ :: cells', Some cw_ :: wsl' =>
      flat_map (fun c => f c cw_) content ++ cells_lt f cells' wsl'
    | _ :: cells', None :: wsl' => cells_lt f cells' wsl'
    | _, _ => []
    end.

  Definition on_ok {A} (r : res A) (k : A -> list text) : list text :=
    match r with Ok a => k a | _ => [] end.

  Fixpoint link_targets (n : rnode) (w : N) {struct n} : list text :=
    let kids (cs : list rnode) (w' : N) : list text := flat_map (fun c => link_targets c w') cs in
    match rn_info n with
    | IText _ | IImg _ _ | IBreak | IFragStart _ => []
    | ILink href cs => href :: kids cs w
    | IContainer cs | IEm cs | IStrong cs | IStrikeout cs | ICode cs | IBlock cs | IListItem cs
    | IDiv cs | IDl cs | IDt cs | ISup cs => kids cs w
    | IHeader _ cs =>
      on_ok (est_of d mw n) (fun sz =>
      on_ok (width_minus (sub_new w o) (e_prefix sz) (e_min sz - e_prefix sz)) (kids cs))
    | IBlockQuote cs =>
      let plen := swidth (d_quote_prefix d) in
      on_ok (est_of d mw n) (fun sz =>
      on_ok (do iw <- usub 21 (e_min sz) plen; width_minus (sub_new w o) plen iw) (kids cs))
    | IUl cs =>
      let plen := swidth (d_ul_prefix d) in
      on_ok (est_of d mw n) (fun sz =>
      on_ok (do iw <- usub 22 (e_min sz) plen; width_minus (sub_new w o) plen iw) (kids cs))
    | IOl start cs =>
      let sn := isat64 (start + Z.of_nat (length cs)) in
      let max_number := isat64 (sn - 1) in
      let pw := N.max (swidth (d_ol_prefix d start)) (swidth (d_ol_prefix d max_number)) in
      on_ok (est_of d mw n) (fun sz =>
      on_ok (do im <- usub 23 (e_min sz) (e_prefix sz); width_minus (sub_new w o) pw im) (kids cs))
    | IDd cs =>
      on_ok (est_of d mw n) (fun sz =>
      on_ok (do im <- usub 24 (e_min sz) 2; width_minus (sub_new w o) 2 im) (kids cs))
    | ITable rows ncols =>
      on_ok (tbl_col_sizes rows ncols) (fun col_sizes =>
      on_ok (tbl_col_widths w col_sizes) (fun col_widths =>
        flat_map (fun r =>
                    match r with
                    | RRow rcells _ =>
                      on_ok (cell_widths (tbl_vert w col_sizes) col_widths rcells 0)
                            ((fix cells_loop (cells : list rcell) (wsl : list (option N))
                                {struct cells} : list text :=
                                match cells, wsl with
                                | RCell _ content _ :: cells', Some cw_ :: wsl' =>
                                  flat_map (fun c => link_targets c cw_) content
                                           ++ cells_loop cells' wsl'
                                | _ :: cells', None :: wsl' => cells_loop cells' wsl'
                                | _, _ => []
                                end) rcells)
                    end) rows))
    | ITableRow _ | ITableBody _ | ITableCell _ => []
    end.
End LinkTargets.

(* ================================================================== *)
(* 3. The threading relation                                            *)
(* ================================================================== *)

(* width and options of the sub-renderer on top of the stack *)
Definition geo (st : rstate) : option (N * ropts) := hd_error (shape st).

(* st' has the same stack shape as st, and the links ls were pushed *)
Definition T (st st' : rstate) (ls : list text) : Prop :=
  shape st' = shape st /\ links st' = links st ++ ls.

Lemma T_refl st : T st st [].
Proof. split; [reflexivity|]. rewrite app_nil_r. reflexivity. Qed.
Lemma T_trans a b c l1 l2 : T a b l1 -> T b c l2 -> T a c (l1 ++ l2).
Proof. intros [A1 A2] [B1 B2]. split; [congruence|]. rewrite B2, A2, app_assoc. reflexivity. Qed.
Lemma T0_l a b c l : T a b [] -> T b c l -> T a c l.
Proof. intros A B. exact (T_trans _ _ _ _ _ A B). Qed.
Lemma T0_r a b c l : T a b l -> T b c [] -> T a c l.
Proof. intros A B. pose proof (T_trans _ _ _ _ _ A B) as C. rewrite app_nil_r in C. exact C. Qed.
Lemma T_geo a b l : T a b l -> geo b = geo a.
Proof. intros [A _]. unfold geo. rewrite A. reflexivity. Qed.

Lemma with_top_T f st st' : sames f -> with_top st f = Ok st' -> T st st' [].
Proof.
  intros Hf H. destruct (with_top_inv _ _ _ H) as (s & rest & s' & Es & Ef & ->).
  destruct (Hf _ _ Ef) as [A B]. split.
  - unfold shape. cbn [stack]. rewrite Es. cbn [map]. congruence.
  - cbn [links]. rewrite app_nil_r. reflexivity.
Qed.

Lemma with_top'_T g st st' : sames (fun s => Ok (g s)) -> with_top' st g = Ok st' -> T st st' [].
Proof. unfold with_top'. apply with_top_T. Qed.

Lemma top_geo st tp : top st = Ok tp -> geo st = Some (swidth_ tp, sopts tp).
Proof. intros H. destruct (top_inv _ _ H) as [rest E]. unfold geo, shape. rewrite E. reflexivity. Qed.

Lemma width_minus_geo tp a b :
  width_minus tp a b = width_minus (sub_new (swidth_ tp) (sopts tp)) a b.
Proof. reflexivity. Qed.

Lemma push_geo st tp w' :
  geo (push_sub st (new_sub_renderer tp w')) = Some (w', sopts tp).
Proof. reflexivity. Qed.

Lemma sub_scope_T st tp w' st2 sub st3 ls :
  T (push_sub st (new_sub_renderer tp w')) st2 ls -> pop_sub st2 = Ok (sub, st3) ->
  T st st3 ls /\ swidth_ sub = w'.
Proof.
  intros [E L] Hp. unfold pop_sub in Hp.
  destruct (stack st2) as [|s rest] eqn:Es; [discriminate|]. injection Hp as -> <-.
  unfold shape in E. rewrite Es in E. cbn [push_sub stack map] in E. injection E as E1 E2 E3.
  split; [split|exact E1].
  - exact E3.
  - exact L.
Qed.

Section Threading.
  Variable d : deco.
  Variable mw : N.
  Variable o : ropts.

  Notation lt := (link_targets d mw o).

  Lemma apply_style_T st cs st' p : apply_style d st cs = Ok (st', p) -> T st st' [].
  Proof.
    intros H. unfold apply_style in H.
    bind_inv H st1 H1. bind_inv H st2 H2. bind_inv H st3 H3. bind_inv H st4 H4.
    injection H as <- _.
    assert (R1 : T st st1 []).
    { destruct (ws_val (c_colour (cs_core cs))) as [[[r g] b]|].
      - eapply with_top'_T; [apply push_colour_sames|exact H1].
      - ok_inv H1. apply T_refl. }
    assert (R2 : T st1 st2 []).
    { destruct (ws_val (c_bg (cs_core cs))) as [[[r g] b]|].
      - eapply with_top'_T; [apply push_bgcolour_sames|exact H2].
      - ok_inv H2. apply T_refl. }
    assert (R3 : T st2 st3 []).
    { destruct (match ws_val (c_white_space (cs_core cs)) with
                | Some WsPre => Some WsPre
                | Some WsPreWrap => Some WsPreWrap
                | _ => None
                end) as [m|].
      - eapply with_top'_T; [apply push_ws_mode_sames|exact H3].
      - ok_inv H3. apply T_refl. }
    assert (R4 : T st3 st4 []).
    { destruct (cs_internal_pre cs).
      - eapply with_top'_T; [apply push_preformat_sames|exact H4].
      - ok_inv H4. apply T_refl. }
    eapply T0_l; [exact R1|]. eapply T0_l; [exact R2|]. eapply T0_l; eassumption.
  Qed.

  Lemma unwind_T p st st' : unwind d p st = Ok st' -> T st st' [].
  Proof.
    intros H. unfold unwind in H.
    bind_inv H st1 H1. bind_inv H st2 H2. bind_inv H st3 H3.
    assert (R1 : T st st1 []).
    { destruct (p_bg p).
      - eapply with_top'_T; [apply pop_colour_sames|exact H1].
      - ok_inv H1. apply T_refl. }
    assert (R2 : T st1 st2 []).
    { destruct (p_colour p).
      - eapply with_top'_T; [apply pop_colour_sames|exact H2].
      - ok_inv H2. apply T_refl. }
    assert (R3 : T st2 st3 []).
    { destruct (p_ws p).
      - eapply with_top'_T; [apply pop_ws_mode_sames|exact H3].
      - ok_inv H3. apply T_refl. }
    assert (R4 : T st3 st' []).
    { destruct (p_pre p).
      - eapply with_top_T; [apply pop_preformat_sames|exact H].
      - ok_inv H. apply T_refl. }
    eapply T0_l; [exact R1|]. eapply T0_l; [exact R2|]. eapply T0_l; eassumption.
  Qed.

  Lemma inline_text_T t st st' : inline_text d st t = Ok st' -> T st st' [].
  Proof. unfold inline_text. apply with_top_T, add_inline_text_sames. Qed.

  (* a monadic fold over a list threads the links of the elements *)
  Lemma fold_T {B} (f : B -> rstate -> res rstate) (g : B -> list text) (w : N) (l : list B) :
    (forall b, In b l -> forall a a', geo a = Some (w, o) -> f b a = Ok a' -> T a a' (g b)) ->
    forall a a', geo a = Some (w, o) ->
      fold_left (fun acc b => do s <- acc; f b s) l (Ok a) = Ok a' -> T a a' (flat_map g l).
  Proof.
    induction l as [|b l IH]; intros Hstep a a' Ha H.
    - cbn [fold_left] in H. ok_inv H. apply T_refl.
    - apply fold_bind_cons in H. destruct H as (a1 & H1 & H).
      pose proof (Hstep b (or_introl eq_refl) a a1 Ha H1) as T1.
      cbn [flat_map]. eapply T_trans; [exact T1|].
      apply IH; [intros b' Hb'; apply Hstep; right; exact Hb'| |exact H].
      rewrite (T_geo _ _ _ T1). exact Ha.
  Qed.

  Definition node_lt (n : rnode) : Prop :=
    forall st st' w, geo st = Some (w, o) -> render_node d mw n st = Ok st' ->
                     T st st' (lt n w).

  Definition kids_lt (cs : list rnode) (w : N) : list text := flat_map (fun c => lt c w) cs.

  Lemma render_kids_T cs st st' w :
    Forall node_lt cs -> geo st = Some (w, o) ->
    fold_left (fun acc c => do s <- acc; render_node d mw c s) cs (Ok st) = Ok st' ->
    T st st' (kids_lt cs w).
  Proof.
    intros HF Hg H. unfold kids_lt.
    apply (fold_T (render_node d mw) (fun c => lt c w) w cs); [|exact Hg|exact H].
    intros c Hc a a' Ha Hr. rewrite Forall_forall in HF. apply (HF c Hc a a' w Ha Hr).
  Qed.

  Lemma wrap_case_T (f1 f2 : subr -> res subr) cs ps st1 st' w :
    sames f1 -> sames f2 -> Forall node_lt cs -> geo st1 = Some (w, o) ->
    (do a <- with_top st1 f1;
     do b <- fold_left (fun acc c => do s <- acc; render_node d mw c s) cs (Ok a);
     do c <- with_top b f2; unwind d ps c) = Ok st' -> T st1 st' (kids_lt cs w).
  Proof.
    intros K1 K2 HF Hg H.
    bind_inv H a H1. bind_inv H b H2. bind_inv H c H3.
    pose proof (with_top_T _ _ _ K1 H1) as Ra.
    assert (Hga : geo a = Some (w, o)) by (rewrite (T_geo _ _ _ Ra); exact Hg).
    pose proof (render_kids_T _ _ _ _ HF Hga H2) as Rb.
    pose proof (with_top_T _ _ _ K2 H3) as Rc.
    pose proof (unwind_T _ _ _ H) as Rd.
    eapply T0_l; [exact Ra|]. eapply T0_r; [|exact Rd]. eapply T0_r; eassumption.
  Qed.

  (* a prefixed block: push a sub-renderer of the width computed by width_minus, render the
     body, pop *)
  Lemma prefixed_T st tp a b w w' st2 sub st3 ls :
    geo st = Some (w, o) -> top st = Ok tp -> width_minus tp a b = Ok w' ->
    (geo (push_sub st (new_sub_renderer tp w')) = Some (w', o) ->
     T (push_sub st (new_sub_renderer tp w')) st2 ls) ->
    pop_sub st2 = Ok (sub, st3) ->
    width_minus (sub_new w o) a b = Ok w' /\ T st st3 ls.
  Proof.
    intros Hg Ht Hw Hbody Hp. rewrite (top_geo _ _ Ht) in Hg. injection Hg as E1 E2.
    split; [rewrite <- E1, <- E2, <- width_minus_geo; exact Hw|].
    eapply sub_scope_T; [|exact Hp]. apply Hbody. rewrite push_geo, E2. reflexivity.
  Qed.

  Lemma flat_map_on_ok {A B} (r : res A) (h : B -> A -> list text) (l : list B) :
    flat_map (fun b => on_ok r (h b)) l = on_ok r (fun x => flat_map (fun b => h b x) l).
  Proof.
    destruct r; cbn [on_ok]; try reflexivity; induction l as [|b l IH]; cbn [flat_map];
      try reflexivity; exact IH.
  Qed.

  Lemma sup_digits_lt cs t w : sup_digits cs = Some t -> kids_lt cs w = [].
  Proof.
    unfold sup_digits, kids_lt. destruct cs as [|n [|n2 cs]]; try discriminate.
    destruct n as [i sty]. destruct i; cbn [rn_info]; try discriminate. intros _. reflexivity.
  Qed.

  (* the table case of link_targets in terms of cells_lt *)
  Lemma lt_table rows ncols sty w :
    lt (RN (ITable rows ncols) sty) w =
    on_ok (tbl_col_sizes d mw rows ncols) (fun col_sizes =>
    on_ok (tbl_col_widths o w col_sizes) (fun col_widths =>
      flat_map (fun r => match r with
                         | RRow rcells _ =>
                           on_ok (cell_widths (tbl_vert o w col_sizes) col_widths rcells 0)
                                 (cells_lt lt rcells)
                         end) rows)).
  Proof.
    cbn [link_targets rn_info].
    destruct (tbl_col_sizes d mw rows ncols) as [col_sizes| | |]; cbn [on_ok]; try reflexivity.
    destruct (tbl_col_widths o w col_sizes) as [col_widths| | |]; cbn [on_ok]; try reflexivity.
    apply flat_map_ext. intros [rcells rsty].
    destruct (cell_widths (tbl_vert o w col_sizes) col_widths rcells 0) as [cws| | |];
      cbn [on_ok]; try reflexivity.
    revert cws. induction rcells as [|[n content csty] rcells IH]; intros [|[cw_|] wsl];
      cbn [cells_lt]; try reflexivity.
    - rewrite IH. reflexivity.
    - apply IH.
  Qed.

  (* ---- ordered lists ---- *)
  Lemma ol_items_T sz pw w : forall items s i r,
    Forall node_lt items -> geo s = Some (w, o) ->
    fold_left (fun acc item => do si <- acc; ol_step d mw sz pw item si) items (Ok (s, i)) = Ok r ->
    T s (fst r)
      (flat_map (fun item =>
                   on_ok (do im <- usub 23 (e_min sz) (e_prefix sz);
                          width_minus (sub_new w o) pw im) (lt item)) items).
  Proof.
    induction items as [|item items IH]; intros s i r HF Hg H.
    - cbn [fold_left] in H. ok_inv H. apply T_refl.
    - apply fold_bind_cons in H. destruct H as ([s4 i'] & Hstep & H).
      pose proof (Forall_inv HF) as HF1. pose proof (Forall_inv_tail HF) as HF2.
      unfold ol_step in Hstep.
      bind_inv Hstep iw Hiw. bind_inv Hstep tp Htp. bind_inv Hstep w' Hw.
      bind_inv Hstep s2 Hs2. bind_inv Hstep pp Hpp. destruct pp as [sub s3].
      bind_inv Hstep s4' H4. injection Hstep as -> <-.
      destruct (prefixed_T s tp _ _ w w' s2 sub s3 (lt item w') Hg Htp Hw) as [Ew R3];
        [|exact Hpp|].
      { intros Hgp. apply (HF1 _ _ _ Hgp Hs2). }
      pose proof (with_top_T _ _ _ (append_subrender_sames _ _ _) H4) as R4.
      pose proof (T0_r _ _ _ _ R3 R4) as R04.
      cbn [flat_map]. rewrite Hiw. cbn [bind]. rewrite Ew. cbn [on_ok].
      eapply T_trans; [exact R04|].
      specialize (IH s4 (isat64 (i + 1)) r HF2).
      rewrite Hiw in IH. cbn [bind] in IH. rewrite Ew in IH. apply IH; [|exact H].
      rewrite (T_geo _ _ _ R04). exact Hg.
  Qed.

  (* ---- tables ---- *)
  Lemma cells_loop_T w : forall cells wsl s2 subs r,
    Forall (fun c => Forall node_lt (cell_content c)) cells -> geo s2 = Some (w, o) ->
    cells_loop d mw cells wsl s2 subs = Ok r -> T s2 (fst r) (cells_lt lt cells wsl).
  Proof.
    induction cells as [|[n content csty] cells IH]; intros wsl s2 subs r HF Hg H;
      cbn [cells_loop] in H.
    - ok_inv H. destruct wsl; apply T_refl.
    - inversion HF as [|? ? HF1 HF2]; subst. cbn [cell_content] in HF1.
      destruct wsl as [|[cw_|] wsl].
      + ok_inv H. apply T_refl.
      + bind_inv H tp2 Htp. bind_inv H apc Hap. destruct apc as [s4 pcell].
        bind_inv H s5 H5. bind_inv H s6 H6. bind_inv H pp Hpp. destruct pp as [sub s7].
        pose proof Hg as Hg'. rewrite (top_geo _ _ Htp) in Hg'. injection Hg' as E1 E2.
        pose proof (apply_style_T _ _ _ _ Hap) as Ra.
        assert (Hg4 : geo s4 = Some (cw_, o)).
        { rewrite (T_geo _ _ _ Ra), push_geo, E2. reflexivity. }
        pose proof (render_kids_T _ _ _ _ HF1 Hg4 H5) as Rb.
        pose proof (unwind_T _ _ _ H6) as Rc.
        destruct (sub_scope_T s2 tp2 cw_ s6 sub s7 (kids_lt content cw_)) as [R7 _];
          [|exact Hpp|].
        { eapply T0_l; [exact Ra|]. eapply T0_r; eassumption. }
        cbn [cells_lt]. eapply T_trans; [exact R7|].
        apply (IH wsl s7 (subs ++ [sub]) r HF2); [|exact H].
        rewrite (T_geo _ _ _ R7). exact Hg.
      + cbn [cells_lt]. apply (IH wsl s2 subs r HF2 Hg H).
  Qed.

  Lemma row_body_T vr col_widths w r s s' :
    Forall (fun c => Forall node_lt (cell_content c)) (row_cells r) -> geo s = Some (w, o) ->
    row_body d mw vr col_widths r s = Ok s' ->
    T s s' (match r with
            | RRow rcells _ => on_ok (cell_widths vr col_widths rcells 0) (cells_lt lt rcells)
            end).
  Proof.
    intros HF Hg H. destruct r as [rcells rstyle]. cbn [row_cells] in *. unfold row_body in H.
    bind_inv H apr Hap. destruct apr as [s1 prow]. bind_inv H cws Hcws. bind_inv H rr Hrr.
    destruct rr as [s8 subs]. bind_inv H s9 H9.
    pose proof (apply_style_T _ _ _ _ Hap) as R1.
    assert (Hg1 : geo s1 = Some (w, o)) by (rewrite (T_geo _ _ _ R1); exact Hg).
    pose proof (cells_loop_T w rcells cws s1 [] (s8, subs) HF Hg1 Hrr) as R8. cbn [fst] in R8.
    assert (R9 : T s8 s9 []).
    { destruct vr.
      - eapply with_top_T; [apply append_vert_row_sames|exact H9].
      - destruct (existsb (fun c => negb (sub_empty c)) subs).
        + eapply with_top_T; [apply append_columns_sames|exact H9].
        + ok_inv H9. apply T_refl. }
    pose proof (unwind_T _ _ _ H) as R10.
    rewrite Hcws. cbn [on_ok].
    eapply T0_l; [exact R1|]. eapply T0_r; [|exact R10]. eapply T0_r; eassumption.
  Qed.

  Ltac start H Hg w sz ap st1 ps R1 Hg1 :=
    let Hsz := fresh "Hsz" in let Hap := fresh "Hap" in
    bind_inv H sz Hsz; bind_inv H ap Hap; destruct ap as [st1 ps];
    pose proof (apply_style_T _ _ _ _ Hap) as R1;
    assert (Hg1 : geo st1 = Some (w, o)) by (rewrite (T_geo _ _ _ R1); exact Hg).

  (* THEOREM (1), per node *)
  Lemma node_lt_all : forall n, node_lt n.
  Proof.
    apply rnode_ind'. intros i sty IH st st' w Hg H.
    destruct i; cbn [direct_kids] in IH; cbn [render_node rn_info rn_style] in H.
    - (* IText *)
      start H Hg w sz ap st1 ps R1 Hg1. bind_inv H st2 H2.
      pose proof (inline_text_T _ _ _ H2) as R2. pose proof (unwind_T _ _ _ H) as R3.
      cbn [link_targets rn_info]. eapply T0_l; [exact R1|]. eapply T0_l; eassumption.
    - (* IContainer *)
      start H Hg w sz ap st1 ps R1 Hg1. bind_inv H st2 H2.
      pose proof (render_kids_T _ _ _ _ IH Hg1 H2) as R2. pose proof (unwind_T _ _ _ H) as R3.
      eapply T0_l; [exact R1|]. eapply T0_r; eassumption.
    - (* ILink *)
      start H Hg w sz ap st1 ps R1 Hg1.
      set (st1' := mkrst (stack st1) (links st1 ++ [href])) in H.
      assert (R1' : T st1 st1' [href]) by (split; reflexivity).
      assert (Hg1' : geo st1' = Some (w, o)) by exact Hg1.
      bind_inv H st2 H2. bind_inv H st3 H3. bind_inv H st4 H4. bind_inv H tp H5. bind_inv H st5 H6.
      pose proof (with_top_T _ _ _ (start_deco_sames d (d_link_start d href)) H2) as R2.
      assert (Hg2 : geo st2 = Some (w, o)) by (rewrite (T_geo _ _ _ R2); exact Hg1').
      pose proof (render_kids_T _ _ _ _ IH Hg2 H3) as R3.
      pose proof (with_top_T _ _ _ (end_deco_sames d (d_link_end d)) H4) as R4.
      assert (R5 : T st4 st5 []).
      { destruct (o_footnotes (sopts tp)).
        - eapply inline_text_T, H6.
        - ok_inv H6. apply T_refl. }
      pose proof (unwind_T _ _ _ H) as R6.
      cbn [link_targets rn_info]. eapply T0_l; [exact R1|].
      apply (T_trans _ _ _ [href] _ R1'). eapply T0_l; [exact R2|].
      eapply T0_r; [|exact R6]. eapply T0_r; [|exact R5]. eapply T0_r; eassumption.
    - (* IEm *)
      start H Hg w sz ap st1 ps R1 Hg1. eapply T0_l; [exact R1|].
      eapply (wrap_case_T (start_emphasis d) (end_emphasis d)); try eassumption;
        [apply (start_deco_sames d)|apply (end_deco_sames d)].
    - (* IStrong *)
      start H Hg w sz ap st1 ps R1 Hg1. eapply T0_l; [exact R1|].
      eapply (wrap_case_T (start_strong d) (end_strong d)); try eassumption;
        [apply (start_deco_sames d)|apply (end_deco_sames d)].
    - (* IStrikeout *)
      start H Hg w sz ap st1 ps R1 Hg1. eapply T0_l; [exact R1|].
      eapply (wrap_case_T (start_strikeout d) (end_strikeout d)); try eassumption;
        [apply start_strikeout_sames|apply end_strikeout_sames].
    - (* ICode *)
      start H Hg w sz ap st1 ps R1 Hg1. eapply T0_l; [exact R1|].
      eapply (wrap_case_T (start_code d) (end_code d)); try eassumption;
        [apply (start_deco_sames d)|apply (end_deco_sames d)].
    - (* IImg *)
      start H Hg w sz ap st1 ps R1 Hg1. bind_inv H st2 H2.
      pose proof (with_top_T _ _ _ (add_image_sames d src title) H2) as R2.
      pose proof (unwind_T _ _ _ H) as R3.
      cbn [link_targets rn_info]. eapply T0_l; [exact R1|]. eapply T0_l; eassumption.
    - (* IBlock *)
      start H Hg w sz ap st1 ps R1 Hg1. eapply T0_l; [exact R1|].
      eapply (wrap_case_T start_block (fun s => Ok (end_block s))); try eassumption;
        [apply start_block_sames|apply end_block_sames].
    - (* IHeader *)
      start H Hg w sz ap st1 ps R1 Hg1.
      destruct (swidth (d_header_prefix d level) =? e_prefix sz); cbn [negb] in H; [|discriminate].
      bind_inv H tp Htp. bind_inv H w' Hw. bind_inv H st2 H2. bind_inv H pp Hpp.
      destruct pp as [sub st3]. bind_inv H st4 H4. bind_inv H st5 H5. bind_inv H st6 H6.
      destruct (prefixed_T st1 tp _ _ w w' st2 sub st3 (kids_lt cs w') Hg1 Htp Hw) as [Ew R3];
        [|exact Hpp|].
      { intros Hgp. eapply render_kids_T; eassumption. }
      pose proof (with_top_T _ _ _ start_block_sames H4) as R4.
      pose proof (with_top_T _ _ _ (append_subrender_sames _ _ _) H5) as R5.
      pose proof (with_top'_T _ _ _ end_block_sames H6) as R6.
      pose proof (unwind_T _ _ _ H) as R7.
      cbn [link_targets rn_info]. rewrite Hsz. cbn [on_ok]. rewrite Ew. cbn [on_ok].
      eapply T0_l; [exact R1|]. eapply T0_r; [|exact R7]. eapply T0_r; [|exact R6].
      eapply T0_r; [|exact R5]. eapply T0_r; eassumption.
    - (* IDiv *)
      start H Hg w sz ap st1 ps R1 Hg1. eapply T0_l; [exact R1|].
      eapply (wrap_case_T new_line new_line); try eassumption; apply flush_wrapping_sames.
    - (* IBlockQuote *)
      start H Hg w sz ap st1 ps R1 Hg1.
      destruct (e_prefix sz =? swidth (d_quote_prefix d)); cbn [negb] in H; [|discriminate].
      bind_inv H iw Hiw.
      bind_inv H tp Htp. bind_inv H w' Hw. bind_inv H st2 H2. bind_inv H pp Hpp.
      destruct pp as [sub st3]. bind_inv H st4 H4. bind_inv H st5 H5. bind_inv H st6 H6.
      destruct (prefixed_T st1 tp _ _ w w' st2 sub st3 (kids_lt cs w') Hg1 Htp Hw) as [Ew R3];
        [|exact Hpp|].
      { intros Hgp. eapply render_kids_T; eassumption. }
      pose proof (with_top_T _ _ _ start_block_sames H4) as R4.
      pose proof (with_top_T _ _ _ (append_subrender_sames _ _ _) H5) as R5.
      pose proof (with_top'_T _ _ _ end_block_sames H6) as R6.
      pose proof (unwind_T _ _ _ H) as R7.
      cbn [link_targets rn_info]. rewrite Hsz. cbn [on_ok]. rewrite Hiw. cbn [bind].
      rewrite Ew. cbn [on_ok].
      eapply T0_l; [exact R1|]. eapply T0_r; [|exact R7]. eapply T0_r; [|exact R6].
      eapply T0_r; [|exact R5]. eapply T0_r; eassumption.
    - (* IUl *)
      start H Hg w sz ap st1 ps R1 Hg1. bind_inv H st2 H2.
      pose proof (unwind_T _ _ _ H) as R3.
      cbn [link_targets rn_info]. rewrite Hsz. cbn [on_ok].
      eapply T0_l; [exact R1|]. eapply T0_r; [|exact R3].
      rewrite <- (flat_map_on_ok _ (fun c w' => lt c w') cs).
      revert H2.
      apply (fold_T
               (fun item s =>
                  do inner_width <- usub 22 (e_min sz) (swidth (d_ul_prefix d));
                  do tp <- top s;
                  do w <- width_minus tp (swidth (d_ul_prefix d)) inner_width;
                  do s2 <- render_node d mw item (push_sub s (new_sub_renderer tp w));
                  do pp <- pop_sub s2;
                  let '(sub, s3) := pp in
                  with_top s3 (fun t => append_subrender t sub (d_ul_prefix d)
                     (repeat_chr (spacel L_prefix) (N.to_nat (swidth (d_ul_prefix d))))))
               _ w cs); [|exact Hg1].
      intros item Hitem a a' Ha Hstep.
      bind_inv Hstep iw Hiw. bind_inv Hstep tp Htp. bind_inv Hstep w' Hw.
      bind_inv Hstep s2 Hs2. bind_inv Hstep pp Hpp. destruct pp as [sub s3].
      rewrite Forall_forall in IH.
      destruct (prefixed_T a tp _ _ w w' s2 sub s3 (lt item w') Ha Htp Hw) as [Ew R3'];
        [|exact Hpp|].
      { intros Hgp. apply (IH item Hitem _ _ _ Hgp Hs2). }
      pose proof (with_top_T _ _ _ (append_subrender_sames _ _ _) Hstep) as R4.
      rewrite Hiw. cbn [bind]. rewrite Ew. cbn [on_ok]. eapply T0_r; eassumption.
    - (* IOl *)
      start H Hg w sz ap st1 ps R1 Hg1. bind_inv H r Hr.
      pose proof (unwind_T _ _ _ H) as R3.
      cbn [link_targets rn_info]. rewrite Hsz. cbn [on_ok].
      eapply T0_l; [exact R1|]. eapply T0_r; [|exact R3].
      rewrite <- (flat_map_on_ok _ (fun c w' => lt c w') cs).
      eapply (ol_items_T sz _ w cs st1 start r IH Hg1). exact Hr.
    - (* IDl *)
      start H Hg w sz ap st1 ps R1 Hg1. bind_inv H st2 H2. bind_inv H st3 H3.
      pose proof (with_top_T _ _ _ start_block_sames H2) as R2.
      assert (Hg2 : geo st2 = Some (w, o)) by (rewrite (T_geo _ _ _ R2); exact Hg1).
      pose proof (render_kids_T _ _ _ _ IH Hg2 H3) as R3.
      pose proof (unwind_T _ _ _ H) as R4.
      eapply T0_l; [exact R1|]. eapply T0_l; [exact R2|]. eapply T0_r; eassumption.
    - (* IDt *)
      start H Hg w sz ap st1 ps R1 Hg1. bind_inv H st2 H2.
      pose proof (with_top_T _ _ _ flush_wrapping_sames H2) as R2.
      assert (Hg2 : geo st2 = Some (w, o)) by (rewrite (T_geo _ _ _ R2); exact Hg1).
      eapply T0_l; [exact R1|]. eapply T0_l; [exact R2|].
      eapply (wrap_case_T (start_emphasis d) (end_emphasis d)); try eassumption;
        [apply (start_deco_sames d)|apply (end_deco_sames d)].
    - (* IDd *)
      start H Hg w sz ap st1 ps R1 Hg1. bind_inv H iw Hiw.
      bind_inv H tp Htp. bind_inv H w' Hw. bind_inv H st2 H2. bind_inv H pp Hpp.
      destruct pp as [sub st3]. bind_inv H st4 H4.
      destruct (prefixed_T st1 tp _ _ w w' st2 sub st3 (kids_lt cs w') Hg1 Htp Hw) as [Ew R3];
        [|exact Hpp|].
      { intros Hgp. eapply render_kids_T; eassumption. }
      pose proof (with_top_T _ _ _ (append_subrender_sames _ _ _) H4) as R4.
      pose proof (unwind_T _ _ _ H) as R5.
      cbn [link_targets rn_info]. rewrite Hsz. cbn [on_ok]. rewrite Hiw. cbn [bind].
      rewrite Ew. cbn [on_ok].
      eapply T0_l; [exact R1|]. eapply T0_r; [|exact R5]. eapply T0_r; eassumption.
    - (* IBreak *)
      start H Hg w sz ap st1 ps R1 Hg1. bind_inv H st2 H2.
      pose proof (with_top_T _ _ _ new_line_hard_sames H2) as R2.
      pose proof (unwind_T _ _ _ H) as R3.
      cbn [link_targets rn_info]. eapply T0_l; [exact R1|]. eapply T0_l; eassumption.
    - (* ITable *)
      start H Hg w sz ap st1 ps R1 Hg1.
      bind_inv H col_sizes Hcs. bind_inv H tp Htp.
      pose proof Hg1 as Hg'. rewrite (top_geo _ _ Htp) in Hg'. injection Hg' as E1 E2.
      set (vr := o_raw (sopts tp)
                 || ((swidth_ tp <? sumN (map e_min col_sizes) + (N.of_nat (length col_sizes) - 1))
                     || (swidth_ tp =? 0))) in *.
      bind_inv H col_widths Hcw. bind_inv H st2 H2. bind_inv H st3 H3. bind_inv H st_rows Hrows.
      assert (Hcs' : tbl_col_sizes d mw rows ncols = Ok col_sizes) by exact Hcs.
      assert (Evr : tbl_vert o w col_sizes = vr) by (rewrite <- E1, <- E2; reflexivity).
      assert (Hcw' : tbl_col_widths o w col_sizes = Ok col_widths).
      { rewrite <- E1, <- E2. exact Hcw. }
      pose proof (with_top_T _ _ _ start_block_sames H2) as R2.
      assert (R3 : T st2 st3 []).
      { match type of H3 with (if ?c then _ else _) = _ => destruct c end.
        - eapply with_top_T; [apply add_horizontal_border_width_sames|exact H3].
        - ok_inv H3. apply T_refl. }
      assert (Hg3 : geo st3 = Some (w, o)).
      { rewrite (T_geo _ _ _ R3), (T_geo _ _ _ R2). exact Hg1. }
      assert (Hrows' : fold_left (fun acc r => do s <- acc; row_body d mw vr col_widths r s) rows
                                 (Ok st3) = Ok st_rows) by exact Hrows.
      pose proof (unwind_T _ _ _ H) as R5.
      rewrite lt_table, Hcs'. cbn [on_ok]. rewrite Hcw'. cbn [on_ok]. rewrite Evr.
      eapply T0_l; [exact R1|]. eapply T0_l; [exact R2|]. eapply T0_l; [exact R3|].
      eapply T0_r; [|exact R5].
      revert Hrows'. apply (fold_T (row_body d mw vr col_widths) _ w rows); [|exact Hg3].
      intros r Hr a a' Ha Hstep.
      apply Forall_flat_map in IH. rewrite Forall_forall in IH. specialize (IH r Hr).
      unfold row_kids in IH. apply Forall_flat_map in IH.
      exact (row_body_T vr col_widths w r a a' IH Ha Hstep).
    - (* ITableBody *) bind_inv H sz Hsz. bind_inv H ap Hap. destruct ap. discriminate.
    - (* ITableRow *) bind_inv H sz Hsz. bind_inv H ap Hap. destruct ap. discriminate.
    - (* ITableCell *) bind_inv H sz Hsz. bind_inv H ap Hap. destruct ap. discriminate.
    - (* IFragStart *)
      start H Hg w sz ap st1 ps R1 Hg1. bind_inv H st2 H2.
      pose proof (with_top'_T _ _ _ (record_frag_start_sames name) H2) as R2.
      pose proof (unwind_T _ _ _ H) as R3.
      cbn [link_targets rn_info]. eapply T0_l; [exact R1|]. eapply T0_l; eassumption.
    - (* IListItem *)
      start H Hg w sz ap st1 ps R1 Hg1. eapply T0_l; [exact R1|].
      eapply (wrap_case_T start_block (fun s => Ok (end_block s))); try eassumption;
        [apply start_block_sames|apply end_block_sames].
    - (* ISup *)
      start H Hg w sz ap st1 ps R1 Hg1. eapply T0_l; [exact R1|].
      destruct (sup_digits cs) as [digitstr|] eqn:Esd.
      + bind_inv H st2 H2.
        pose proof (inline_text_T _ _ _ H2) as R2. pose proof (unwind_T _ _ _ H) as R3.
        change (lt (RN (ISup cs) sty) w) with (kids_lt cs w).
        rewrite (sup_digits_lt _ _ w Esd). eapply T0_l; eassumption.
      + eapply (wrap_case_T (start_superscript d) (end_superscript d)); try eassumption;
          [apply (start_deco_sames d)|apply (end_deco_sames d)].
  Qed.
End Threading.
