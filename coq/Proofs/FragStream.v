(* Proofs/FragStream.v -- property C14 ("every element carrying an id that has visible content
   produces exactly one fragment marker in the annotated output, placed at the start of that
   element's first visible character - independent of wrapping, nesting in lists/quotes and
   line breaks; markers never change the rendered text") lifted from the WrappedBlock
   (Proofs/Conserve.v) through the sub-renderers, render_node, render_tree and lines_from_read,
   for trees without tables.  No axioms.
   The combined stream of visible document characters (inr c) and markers (inl name) is
   followed; SUMMARY (definitions, exact statements, findings) at the end of the file. *)
From H2T Require Import Base Tagged Wrap Sub Css Dom Render Api.
From H2T Require Import Proofs.Conserve Proofs.WrapInv Proofs.RenderWidth Proofs.Small.
From H2T Require Import Proofs.Footnotes Proofs.RenderConserve.
From H2T Require Proofs.TableProof.
From Coq Require Import Lia ZifyN ZifyBool ZifyNat.

Local Arguments N.add : simpl never.
Local Arguments N.sub : simpl never.
Local Arguments N.mul : simpl never.
Local Arguments N.div : simpl never.
Local Arguments N.modulo : simpl never.
Local Arguments N.leb : simpl never.
Local Arguments N.ltb : simpl never.
Local Arguments N.eqb : simpl never.
Local Arguments N.min : simpl never.
Local Arguments N.max : simpl never.
Local Arguments N.to_nat : simpl never.
Local Arguments N.of_nat : simpl never.
Local Open Scope N_scope.

(* ================================================================== *)
(* 1. Vocabulary                                                        *)
(* ================================================================== *)

(* stream items (Conserve.sitem = text + chr): inl name = a fragment marker, inr c = a visible
   document character (RenderConserve.docp) *)
Notation mel := (pel docp).
Notation mline := (pline docp).

Definition mchars (t : text) : list sitem := map inr (doc_chars t).

Definition mrline (r : rline) : list sitem :=
  match r with RText l => mline l | RLine _ _ => [] end.
Definition mlines (ls : list rline) : list sitem := flat_map mrline ls.
Definition mpend (pf : list elem) : list sitem := flat_map mel pf.
Definition mwrap (ow : option wblock) : list sitem :=
  match ow with Some w => pstream docp w | None => [] end.

(* lines and waiting markers *)
Definition mlp (s : subr) : list sitem := mlines (slines s) ++ mpend (pending_frags s).

(* THE stream of a sub-renderer: the visible document characters and the markers of all its
   lines, top to bottom, left to right; then the markers waiting in pending_frags (recorded
   while no text line was open: add_line puts them in front of the next text line); then the
   open wrapping block (finished lines, current line, pending word) *)
Definition mstream_out (s : subr) : list sitem := mlp s ++ mwrap (wrapping s).

(* a obtained from b by deleting markers (only markers; characters and order are kept) *)
Inductive msub : list sitem -> list sitem -> Prop :=
| ms_nil : msub [] []
| ms_both x a b : msub a b -> msub (x :: a) (x :: b)
| ms_skip m a b : msub a b -> msub a (inl m :: b).

(* x without its trailing markers *)
Fixpoint strip (x : list sitem) : list sitem :=
  match x with
  | [] => []
  | i :: x' =>
    match strip x', i with
    | [], inl _ => []
    | r, _ => i :: r
    end
  end.

(* ================================================================== *)
(* 2. msub / strip                                                      *)
(* ================================================================== *)

Lemma msub_refl a : msub a a.
Proof. induction a; constructor; assumption. Qed.

Lemma msub_app a a' b b' : msub a a' -> msub b b' -> msub (a ++ b) (a' ++ b').
Proof. intros Ha Hb. induction Ha; cbn [app]; [exact Hb|constructor; assumption..]. Qed.

Lemma msub_trans a b c : msub a b -> msub b c -> msub a c.
Proof.
  intros Hab Hbc. revert a Hab. induction Hbc as [|x b c Hbc IH|m b c Hbc IH]; intros a Hab.
  - exact Hab.
  - inversion Hab; subst.
    + constructor. apply IH. assumption.
    + constructor. apply IH. assumption.
  - constructor. apply IH, Hab.
Qed.

Lemma msub_projr a b : msub a b -> projr a = projr b.
Proof.
  induction 1 as [|x a b _ IH|m a b _ IH]; [reflexivity| |exact IH].
  destruct x; cbn [projr flat_map app] in *; fold (projr a); fold (projr b); rewrite ?IH; reflexivity.
Qed.

Lemma msub_markers_r a ms : msub a (a ++ map inl ms).
Proof.
  induction a as [|x a IH]; cbn [app].
  - induction ms as [|m ms IH]; cbn [map]; constructor; assumption.
  - constructor. exact IH.
Qed.

Lemma msub_flat_map {A} (f g : A -> list sitem) (l : list A) :
  Forall (fun a => msub (f a) (g a)) l -> msub (flat_map f l) (flat_map g l).
Proof. induction 1 as [|a l Ha _ IH]; cbn [flat_map]; [constructor|apply msub_app; assumption]. Qed.

Lemma projr_cons_inl m x : projr (inl m :: x) = projr x.
Proof. reflexivity. Qed.
Lemma projr_cons_inr c x : projr (inr c :: x) = c :: projr x.
Proof. reflexivity. Qed.
Lemma projr_map_inl (ms : list text) : projr (map inl ms) = [].
Proof. induction ms as [|m ms IH]; [reflexivity|]. cbn [map]. rewrite projr_cons_inl. exact IH. Qed.

Lemma strip_no_chars x : projr x = [] -> strip x = [].
Proof.
  induction x as [|i x IH]; [reflexivity|]. destruct i as [m|c].
  - rewrite projr_cons_inl. intros H. cbn [strip]. rewrite (IH H). reflexivity.
  - rewrite projr_cons_inr. discriminate.
Qed.

Lemma strip_msub x : msub (strip x) x.
Proof.
  induction x as [|i x IH]; [constructor|]. cbn [strip].
  destruct (strip x) as [|j r] eqn:E.
  - destruct i as [m|c]; [constructor; exact IH|constructor; exact IH].
  - destruct i; constructor; exact IH.
Qed.

Lemma strip_projr x : projr (strip x) = projr x.
Proof. apply msub_projr, strip_msub. Qed.

(* the markers all of which are behind the last character can be cut off on the right *)
Lemma strip_msub_cut x y : msub x y -> forall t ms, y = t ++ map inl ms -> msub (strip x) t.
Proof.
  induction 1 as [|i a b Hab IH|m a b Hab IH]; intros t ms E.
  - destruct t; [constructor|discriminate].
  - destruct t as [|j t].
    + cbn [app] in E. assert (Hp : projr (i :: a) = []).
      { rewrite (msub_projr _ _ (ms_both i _ _ Hab)), E. apply projr_map_inl. }
      rewrite (strip_no_chars _ Hp). constructor.
    + cbn [app] in E. injection E as <- Eb. specialize (IH t ms Eb). cbn [strip].
      destruct (strip a) as [|j r] eqn:Es.
      * destruct i as [m|c]; [constructor; exact IH|constructor; exact IH].
      * destruct i; constructor; exact IH.
  - destruct t as [|j t].
    + cbn [app] in E. assert (Hp : projr a = []).
      { rewrite (msub_projr _ _ (ms_skip m _ _ Hab)), E. apply projr_map_inl. }
      rewrite (strip_no_chars _ Hp). constructor.
    + cbn [app] in E. injection E as <- Eb. constructor. exact (IH t ms Eb).
Qed.

(* a list of stream items without characters is a list of markers *)
Lemma no_chars_markers x : projr x = [] -> exists ms, x = map inl ms.
Proof.
  induction x as [|i x IH]; intros H; [exists []; reflexivity|]. destruct i as [m|c].
  - rewrite projr_cons_inl in H. destruct (IH H) as [ms ->]. exists (m :: ms). reflexivity.
  - rewrite projr_cons_inr in H. discriminate.
Qed.

(* lo <= t <= hi *)
Definition btw (lo t hi : list sitem) : Prop := msub lo t /\ msub t hi.

Lemma btw_refl t : btw t t t.
Proof. split; apply msub_refl. Qed.
Lemma btw_app lo1 t1 hi1 lo2 t2 hi2 :
  btw lo1 t1 hi1 -> btw lo2 t2 hi2 -> btw (lo1 ++ lo2) (t1 ++ t2) (hi1 ++ hi2).
Proof. intros [A B] [C D]. split; apply msub_app; assumption. Qed.

(* closing a scope: some markers at the end of what was rendered are dropped *)
Lemma btw_cut lo tk hi t rest :
  btw lo tk hi -> tk = t ++ rest -> projr rest = [] -> btw (strip lo) t hi.
Proof.
  intros [A B] E Hr. destruct (no_chars_markers _ Hr) as [ms ->]. split.
  - exact (strip_msub_cut _ _ A t ms E).
  - eapply msub_trans; [apply (msub_markers_r t ms)|]. rewrite <- E. exact B.
Qed.

(* ================================================================== *)
(* 3. Invariant of a wrapping block: no marker-only current line        *)
(* ================================================================== *)

(* a Str element of the pending word is never the empty string *)
Definition strne (e : elem) : Prop := match e with Str [] _ => False | _ => True end.
(* the current line is empty or holds a Str *)
Definition lgood (l : tline) : Prop := tv l = [] \/ tl_is_empty l = false.
Definition WB (b : wblock) : Prop :=
  allow_overflow b = false /\ lgood (wline b) /\ Forall strne (wword b).
(* options and word untouched *)
Definition Kw (b b' : wblock) : Prop :=
  allow_overflow b' = allow_overflow b /\ wword b' = wword b.

Lemma Kw_refl b : Kw b b.
Proof. split; reflexivity. Qed.
Lemma Kw_trans a b c : Kw a b -> Kw b c -> Kw a c.
Proof. unfold Kw. intuition congruence. Qed.

Ltac kw := first [exact (Kw_refl _) | split; reflexivity].

Lemma lgood_new : lgood tl_new.
Proof. left. reflexivity. Qed.

Lemma hs_push_str l s t : s <> [] -> tl_is_empty (tl_push_str l s t) = false.
Proof.
  intros Hs. unfold tl_push_str. destruct s as [|c s]; [contradiction|].
  unfold tl_is_empty. cbn [tv]. rewrite content_push_merge. reflexivity.
Qed.
Lemma hs_push_char l c t : tl_is_empty (tl_push_char l c t) = false.
Proof. unfold tl_push_char, tl_is_empty. cbn [tv]. rewrite content_push_merge. reflexivity. Qed.

Lemma hs_push l e : tl_is_empty l = false -> tl_is_empty (tl_push l e) = false.
Proof.
  intros H. destruct e as [s t|n]; cbn [tl_push].
  - unfold tl_push_str. destruct s as [|c s]; [exact H|].
    unfold tl_is_empty. cbn [tv]. rewrite content_push_merge. reflexivity.
  - unfold tl_is_empty in *. cbn [tv]. rewrite existsb_app.
    destruct (existsb elem_has_content (tv l)); [reflexivity|discriminate].
Qed.

Lemma lgood_push_str l s t : lgood l -> lgood (tl_push_str l s t).
Proof.
  intros H. destruct s as [|c s]; [exact H|]. right. apply hs_push_str. discriminate.
Qed.
Lemma lgood_push_wsl lb l n t : lgood l -> lgood (tl_push_wsl lb l n t).
Proof. apply lgood_push_str. Qed.

Lemma strne_vpm v s t : Forall strne v -> s <> [] -> Forall strne (v_push_merge v s t).
Proof.
  intros Hv Hs. induction v as [|e v IH].
  - cbn [v_push_merge]. constructor; [|constructor]. destruct s; [contradiction|exact I].
  - destruct v as [|e' v].
    + cbn [v_push_merge]. destruct e as [s0 t0|n].
      * destruct (tag_eqb t0 t).
        -- constructor; [|constructor]. destruct s0; cbn [app]; [destruct s; [contradiction|exact I]|exact I].
        -- constructor; [exact (Forall_inv Hv)|]. constructor; [|constructor].
           destruct s; [contradiction|exact I].
      * constructor; [exact I|]. constructor; [|constructor]. destruct s; [contradiction|exact I].
    + rewrite Conserve.v_push_merge_cons2. constructor; [exact (Forall_inv Hv)|].
      apply IH. exact (Forall_inv_tail Hv).
Qed.

Lemma ffl_kw b b' : force_flush_line b = Ok b' -> Kw b b' /\ wline b' = tl_new.
Proof.
  unfold force_flush_line. intros H. bind_inv H l Hl. ok_inv H. split; [split|]; reflexivity.
Qed.

Lemma fl_kw b b' : flush_line b = Ok b' -> Kw b b' /\ (lgood (wline b) -> lgood (wline b')).
Proof.
  unfold flush_line. destruct (tl_is_empty (wline b)); intros H.
  - ok_inv H. split; [kw|auto].
  - destruct (ffl_kw _ _ H) as [A B]. split; [exact A|]. intros _. rewrite B. apply lgood_new.
Qed.

Lemma ws_loop_kw : forall fuel b b',
  ws_loop fuel b = Ok b' -> Kw b b' /\ (lgood (wline b) -> lgood (wline b')).
Proof.
  induction fuel as [|f IH]; intros b b' H; cbn [ws_loop] in H.
  - destruct (wslen b =? 0); [|discriminate H]. ok_inv H. split; [kw|auto].
  - destruct (wslen b =? 0); [ok_inv H; split; [kw|auto]|].
    destruct (wwidth b =? 0); [ok_inv H; split; [split; reflexivity|auto]|].
    destruct (spacetag b) as [st|]; [|discriminate H].
    cbv zeta in H. bind_inv H b2 H2. destruct (IH _ _ H) as [A B].
    set (b1 := set_line b (tl_push_wsl L_space (wline b) (N.min (wslen b) (wwidth b)) st)) in *.
    assert (G1 : lgood (wline b) -> lgood (wline b1)) by (intros Hl; apply lgood_push_wsl, Hl).
    assert (C : Kw b b2 /\ (lgood (wline b) -> lgood (wline b2))).
    { destruct (N.min (wslen b) (wwidth b) =? wwidth b).
      - destruct (fl_kw _ _ H2) as [C1 C2]. split; [exact C1|]. intros Hl. apply C2, G1, Hl.
      - ok_inv H2. split; [split; reflexivity|exact G1]. }
    destruct C as [C1 C2]. split; [eapply Kw_trans; [exact C1|exact A]|]. intros Hl. apply B, C2, Hl.
Qed.

Lemma tab_loop_kw : forall fuel b t tw pos one fl r,
  tab_loop fuel b t tw pos one fl = Ok r ->
  Kw b (fst r) /\ (lgood (wline b) -> lgood (wline (fst r))).
Proof.
  induction fuel as [|f IH]; intros b t tw pos one fl r H; cbn [tab_loop] in H.
  - destruct (negb (pos mod 8 =? 0) || negb one); [discriminate H|].
    ok_inv H. split; [kw|auto].
  - destruct (negb (pos mod 8 =? 0) || negb one);
      [|ok_inv H; split; [kw|auto]].
    destruct (wwidth b =? 0); [ok_inv H; split; [kw|auto]|].
    destruct (wwidth b <=? pos).
    + bind_inv H b1 H1. destruct (fl_kw _ _ H1) as [A B].
      destruct (IH _ _ _ _ _ _ _ H) as [C D].
      split; [eapply Kw_trans; eassumption|]. intros Hl. apply D, B, Hl.
    + destruct (IH _ _ _ _ _ _ _ H) as [C D]. prj. split; [exact C|].
      intros _. apply D. right. apply hs_push_char.
Qed.

(* without overflow hw_scan never takes the whole piece *)
Lemma hw_scan_rest l0 : forall s first tr ll wp taken ll' wp',
  hw_scan false l0 first s tr ll wp = Ok (taken, ll', wp') ->
  (first = true -> tr = []) ->
  taken = [] \/ exists suf, suf <> [] /\ rev tr ++ s = taken ++ suf.
Proof.
  induction s as [|c s IH]; intros first tr ll wp taken ll' wp' H Hf; cbn [hw_scan] in H.
  - ok_inv H. left. reflexivity.
  - destruct (cw c) as [c_w|]; [|discriminate H].
    destruct (c_w <=? ll).
    + apply IH in H; [|discriminate].
      destruct H as [H|(suf & Hs & H)]; [left; exact H|right].
      exists suf. split; [exact Hs|]. rewrite <- H. cbn [rev]. rewrite <- app_assoc. reflexivity.
    + destruct first.
      * rewrite (Hf eq_refl) in *. bind_inv H lw Hlw.
        destruct (lw =? 0); [discriminate H|]. ok_inv H. left. reflexivity.
      * ok_inv H. right. exists (c :: s). split; [discriminate|reflexivity].
Qed.

Lemma hw_scan_rest' l0 rest ll wp taken ll' wp' :
  hw_scan false l0 true rest [] ll wp = Ok (taken, ll', wp') -> rest <> [] ->
  skipn (length taken) rest <> [].
Proof.
  intros H Hr. apply hw_scan_rest in H; [|reflexivity].
  destruct H as [->|(suf & Hs & H)]; [exact Hr|].
  cbn [rev app] in H. subst rest. rewrite Conserve.skipn_length_app. exact Hs.
Qed.

Lemma hw_piece_hs t w : forall fuel b rest consumed ll wpos b' ll',
  hw_piece fuel b t w rest consumed ll wpos = Ok (b', ll') ->
  allow_overflow b = false -> rest <> [] ->
  tl_is_empty (wline b') = false /\ Kw b b'.
Proof.
  induction fuel as [|f IH]; intros b rest consumed ll wpos b' ll' H Ho Hr; cbn [hw_piece] in H;
    [discriminate H|].
  bind_inv H rem Hrem. destruct (ll <? rem).
  - bind_inv H r Hsc. destruct r as [[taken x] wpos']. cbv zeta in H.
    bind_inv H b2 H2. destruct (ffl_kw _ _ H2) as [[A1 A2] _]. prj.
    rewrite Ho in Hsc. pose proof (hw_scan_rest' _ _ _ _ _ _ _ Hsc Hr) as Hr'.
    destruct (IH _ _ _ _ _ _ _ H (eq_trans A1 Ho) Hr') as [B [C1 C2]].
    split; [exact B|]. split; congruence.
  - destruct (negb consumed).
    + bind_inv H l1 Hl1. ok_inv H. prj. split; [|kw].
      cbn [tl_push]. apply hs_push_str, Hr.
    + destruct rest as [|c rest]; [contradiction|].
      bind_inv H l1 Hl1. ok_inv H. prj. split; [|kw].
      exact (hs_push_str (wline b) (c :: rest) t ltac:(discriminate)).
Qed.

Lemma hw_elems_hs : forall els b ll b',
  hw_elems b els ll = Ok b' -> allow_overflow b = false -> Forall strne els ->
  tl_is_empty (wline b) = false \/ word_is_empty els = false ->
  tl_is_empty (wline b') = false /\ Kw b b'.
Proof.
  induction els as [|e els IH]; intros b ll b' H Ho Hs Hd; cbn [hw_elems] in H.
  - ok_inv H. split; [|kw]. destruct Hd as [Hd|Hd]; [exact Hd|discriminate Hd].
  - destruct e as [s t|n].
    + bind_inv H r Hr. destruct r as [b1 ll1].
      assert (Hne : s <> []).
      { pose proof (Forall_inv Hs) as X. cbn [strne] in X. destruct s; [contradiction|discriminate]. }
      destruct (hw_piece_hs _ _ _ _ _ _ _ _ _ _ Hr Ho Hne) as [A [B1 B2]].
      destruct (IH _ _ _ H (eq_trans B1 Ho) (Forall_inv_tail Hs) (or_introl A)) as [C [D1 D2]].
      split; [exact C|]. split; congruence.
    + destruct (IH _ _ _ H Ho (Forall_inv_tail Hs)) as [C D]; [|split; [exact C|exact D]].
      prj. destruct Hd as [Hd|Hd]; [left; apply hs_push, Hd|right; exact Hd].
Qed.

Lemma fold_push_hs els : forall l, Forall strne els ->
  tl_is_empty l = false \/ word_is_empty els = false ->
  tl_is_empty (fold_left tl_push els l) = false.
Proof.
  induction els as [|e els IH]; intros l Hs Hd; cbn [fold_left].
  - destruct Hd as [Hd|Hd]; [exact Hd|discriminate Hd].
  - apply IH; [exact (Forall_inv_tail Hs)|].
    destruct e as [s t|n].
    + left. cbn [tl_push]. apply hs_push_str. pose proof (Forall_inv Hs) as X. cbn [strne] in X.
      destruct s; [contradiction|discriminate].
    + destruct Hd as [Hd|Hd]; [left; apply hs_push, Hd|right; exact Hd].
Qed.

Lemma flush_word_WB b m b' : flush_word b m = Ok b' -> WB b -> WB b'.
Proof.
  unfold flush_word. destruct (word_is_empty (wword b)) eqn:Hwe; intros H (Ho & Hl & Hs).
  - ok_inv H. split; [exact Ho|]. split; assumption.
  - cbv zeta in H. bind_inv H sil Hsil.
    destruct (wslen b + wordlen b <=? sil).
    + bind_inv H b1 H1. ok_inv H.
      assert (A : Kw b b1).
      { destruct (0 <? wslen b).
        - destruct (spacetag b) as [st|]; [|discriminate H1]. ok_inv H1. kw.
        - ok_inv H1. kw. }
      destruct A as [A1 A2]. split; [prj; congruence|]. split; [|prj; constructor].
      prj. right. apply fold_push_hs; [rewrite A2; exact Hs|]. right. rewrite A2. exact Hwe.
    + bind_inv H b1 H1. bind_inv H b2 H2. bind_inv H b4 H4. bind_inv H b6 H6. ok_inv H.
      assert (A : Kw b b1).
      { destruct (negb (do_wrap m)).
        - destruct (sil <=? wslen b); [ok_inv H1; kw|].
          destruct (0 <? wslen b); [|ok_inv H1; kw].
          destruct (spacetag b) as [st|]; [|discriminate H1]. ok_inv H1. kw.
        - ok_inv H1. kw. }
      destruct (fl_kw _ _ H2) as [B _].
      assert (C : Kw b2 b4).
      { destruct (ws_loop_kw _ _ _ H4) as [C _]. destruct (is_pre m); exact C. }
      pose proof (Kw_trans _ _ _ (Kw_trans _ _ _ A B) C) as [D1 D2].
      unfold flush_word_hard_wrap in H6. bind_inv H6 ll Hll. cbv zeta in H6.
      pose proof (hw_elems_word _ _ _ _ H6) as Ew. prj.
      destruct (hw_elems_hs _ _ _ _ H6) as [E [F1 F2]].
      * prj. congruence.
      * rewrite D2. exact Hs.
      * right. rewrite D2. exact Hwe.
      * unfold WB. prj. split; [congruence|]. split; [right; exact E|]. rewrite Ew. constructor.
Qed.

Lemma add_char_WB m t1 t2 b u c b' u' :
  add_char m t1 t2 (b, u) c = Ok (b', u') -> WB b -> WB b'.
Proof.
  unfold add_char. intros H Hb. bind_inv H b0 H0.
  assert (S0 : WB b0).
  { destruct (ws c && (0 <? wordlen b));
      [eapply flush_word_WB; eassumption | ok_inv H0; exact Hb]. }
  cbv zeta in H. clear H0 Hb b. destruct S0 as (Ho & Hl & Hs). unfold WB.
  destruct (ws c) eqn:Hws.
  - destruct (preserve_ws m).
    + destruct (cp c =? 10).
      { bind_inv H b1 H1. ok_inv H. destruct (ffl_kw _ _ H1) as [[A1 A2] A3]. prj.
        split; [congruence|]. split; [rewrite A3; apply lgood_new|rewrite A2; exact Hs]. }
      destruct (cp c =? 9).
      { bind_inv H r H1. cbv zeta in H. ok_inv H.
        destruct (tab_loop_kw _ _ _ _ _ _ _ _ H1) as [[A1 A2] A3].
        destruct (is_pre m && snd r); prj;
          (split; [congruence|]; split; [apply A3, Hl|rewrite A2; exact Hs]). }
      destruct (cw c) as [cwidth|]; [|ok_inv H; split; [exact Ho|split; assumption]].
      destruct (wwidth b0 <? tlen_ (wline b0) + wslen b0 + cwidth);
        [|ok_inv H; prj; split; [exact Ho|split; assumption]].
      bind_inv H b2 H2. destruct (fl_kw _ _ H2) as [[A1 A2] A3]. prj.
      destruct (do_wrap m); ok_inv H; prj;
        (split; [congruence|]; split; [apply A3, Hl|rewrite A2; exact Hs]).
    + destruct ((0 <? tlen_ (wline b0)) && (wslen b0 =? 0)); ok_inv H; prj;
        (split; [exact Ho|split; assumption]).
  - destruct (cw c) as [cwidth|] eqn:Hcw; [|ok_inv H; split; [exact Ho|split; assumption]].
    ok_inv H.
    destruct (is_pre m && (wwidth b0 <? tlen_ (wline b0) + wslen b0 + (wordlen b0 + cwidth)));
      prj; (split; [exact Ho|]; split; [exact Hl|]; apply strne_vpm; [exact Hs|discriminate]).
Qed.

Lemma add_chars_WB m t1 t2 : forall s b u b' u',
  add_chars m t1 t2 (b, u) s = Ok (b', u') -> WB b -> WB b'.
Proof.
  induction s as [|c s IH]; intros b u b' u' H Hb; cbn [add_chars] in H.
  - ok_inv H. exact Hb.
  - bind_inv H st Hst. destruct st as [b1 u1]. eapply IH; [exact H|].
    eapply add_char_WB; eassumption.
Qed.

Lemma wb_add_text_WB b s m t1 t2 b' : wb_add_text b s m t1 t2 = Ok b' -> WB b -> WB b'.
Proof.
  unfold wb_add_text. intros H Hb. bind_inv H r Hr. destruct r as [b1 u1]. ok_inv H.
  eapply add_chars_WB; eassumption.
Qed.

Lemma WB_new W pad : WB (wb_new W pad false).
Proof. split; [reflexivity|]. split; [apply lgood_new|constructor]. Qed.

Lemma WB_add_frag b n : WB b -> WB (wb_add_element b (Frag n)).
Proof.
  intros (Ho & Hl & Hs). cbn [wb_add_element]. prj. split; [exact Ho|]. split; [exact Hl|].
  apply Forall_app. split; [exact Hs|]. constructor; [exact I|constructor].
Qed.

(* what flush_word leaves in the word *)
Lemma flush_word_word b m b' :
  flush_word b m = Ok b' -> (word_is_empty (wword b) = true /\ wword b' = wword b) \/ wword b' = [].
Proof.
  unfold flush_word. destruct (word_is_empty (wword b)) eqn:Hwe; intros H.
  - ok_inv H. left. split; reflexivity.
  - right. cbv zeta in H. bind_inv H sil Hsil.
    destruct (wslen b + wordlen b <=? sil).
    + bind_inv H b1 H1. ok_inv H. reflexivity.
    + bind_inv H b1 H1. bind_inv H b2 H2. bind_inv H b4 H4. bind_inv H b6 H6. ok_inv H.
      unfold flush_word_hard_wrap in H6. bind_inv H6 ll Hll. cbv zeta in H6.
      pose proof (hw_elems_word _ _ _ _ H6) as Ew. prj. exact Ew.
Qed.

(* the point of the invariant WB: the lines returned by wb_into_lines hold every marker of the
   block (wb_flush leaves a current line that `is_empty` - no Str - where it is, and
   wb_into_lines returns the finished lines only).  flush_wrapping no longer calls
   wb_into_lines (see into_lines_markers_m below); kept as a fact about wb_into_lines. *)
Lemma into_lines_m b ls :
  wb_into_lines b = Ok ls -> WB b -> wword b = [] \/ word_is_empty (wword b) = false ->
  flat_map mline ls = pstream docp b.
Proof.
  unfold wb_into_lines. intros H Hb Hw. bind_inv H b1 H1. ok_inv H.
  rewrite <- (wb_flush_stream docp docp_spacel b b1 H1).
  unfold wb_flush in H1. bind_inv H1 b0 H0.
  pose proof (flush_word_WB _ _ _ H0 Hb) as (_ & Hl & _).
  assert (Ew : wword b0 = []).
  { destruct (flush_word_word _ _ _ H0) as [[A B]|A]; [|exact A].
    destruct Hw as [Hw|Hw]; [congruence|congruence]. }
  unfold pstream, plines.
  assert (E : mline (wline b1) = [] /\ wword b1 = []).
  { unfold flush_line in H1. destruct (tl_is_empty (wline b0)) eqn:He.
    - ok_inv H1. split; [|exact Ew]. destruct Hl as [Hl|Hl]; [|congruence].
      unfold pline. rewrite Hl. reflexivity.
    - destruct (ffl_kw _ _ H1) as [[_ A2] A3]. rewrite A3. split; [reflexivity|congruence]. }
  destruct E as [E1 E2]. rewrite E1, E2. cbn [flat_map]. rewrite !app_nil_r. reflexivity.
Qed.

(* flush_wrapping now uses wb_into_lines_markers: the lines PLUS the elements left on the
   unfinished last line (markers only: WrapInv.wb_into_lines_markers_no_content).  Together
   they hold every marker of the block, and NO invariant is needed for that (neither WB nor
   allow_overflow = false) *)
Lemma into_lines_markers_m b ls mk :
  wb_into_lines_markers b = Ok (ls, mk) -> wword b = [] \/ word_is_empty (wword b) = false ->
  flat_map mline ls ++ mpend mk = pstream docp b.
Proof.
  unfold wb_into_lines_markers. intros H Hw. bind_inv H b1 H1. injection H as <- <-.
  rewrite <- (wb_flush_stream docp docp_spacel b b1 H1).
  unfold wb_flush in H1. bind_inv H1 b0 H0.
  assert (Ew : wword b0 = []).
  { destruct (flush_word_word _ _ _ H0) as [[A B]|A]; [|exact A].
    destruct Hw as [Hw|Hw]; [congruence|congruence]. }
  destruct (fl_kw _ _ H1) as [[_ E2] _]. rewrite Ew in E2.
  unfold pstream, plines, mpend, pline. rewrite E2. cbn [flat_map]. rewrite app_nil_r. reflexivity.
Qed.

(* ================================================================== *)
(* 4. Sub-renderer operations                                           *)
(* ================================================================== *)

(* the invariant of a sub-renderer stated by c14_render_node_no_table: pending_frags holds
   markers only (RenderConserve.pfc), overflow is not allowed, and the open block satisfies WB.
   (Only the pfc part is still needed for the stream equations: see Jx below.) *)
Definition J (s : subr) : Prop :=
  pfc s /\ o_allow_overflow (sopts s) = false /\ (forall w, wrapping s = Some w -> WB w).

(* GENERIC INVARIANT.  Sections 4-6 are proved once for the invariant Jx x, x a boolean:
     Jx true s  <-> J s      (overflow not allowed, open block satisfies WB: kept for the theorems
                              that state J, c14_render_node_no_table ...)
     Jx false s <-> pfc s    (nothing about overflow: the ..._any_overflow theorems).
   Since flush_wrapping collects the markers of the unfinished line (into_lines_markers_m) the
   STREAM equations need pfc only; the WB part is merely carried along when x = true. *)
Section Inv.
Variable x : bool.
Definition ofx (s : subr) : Prop := x = true -> o_allow_overflow (sopts s) = false.
Definition WBx (b : wblock) : Prop := x = true -> WB b.
Definition Jx (s : subr) : Prop :=
  pfc s /\ ofx s /\ (forall w, wrapping s = Some w -> WBx w).

Lemma ofx_ext s s' : sopts s' = sopts s -> ofx s -> ofx s'.
Proof. unfold ofx. intros ->. auto. Qed.

Lemma mlines_app a b : mlines (a ++ b) = mlines a ++ mlines b.
Proof. apply flat_map_app. Qed.
Lemma mpend_app a b : mpend (a ++ b) = mpend a ++ mpend b.
Proof. apply flat_map_app. Qed.
Lemma mlines_RText ls : mlines (map RText ls) = flat_map mline ls.
Proof. induction ls as [|l ls IH]; cbn [map mlines flat_map mrline]; [reflexivity|]. f_equal. exact IH. Qed.

Lemma Jx_none s : pfc s -> ofx s -> wrapping s = None -> Jx s.
Proof. intros A B C. split; [exact A|]. split; [exact B|]. intros w E. rewrite C in E. discriminate. Qed.

Lemma add_line_m s l :
  mlp (add_line s l) = mlp s ++ mrline l /\ wrapping (add_line s l) = wrapping s /\
  sopts (add_line s l) = sopts s /\ (pfc s -> pfc (add_line s l)).
Proof.
  destruct (add_line_same s l) as (_ & Eo & Ew).
  split; [|split; [exact Ew|split; [exact Eo|intros Hp; apply (add_line_out s l Hp)]]].
  unfold add_line, mlp. destruct (pending_frags s) as [|e pf] eqn:E.
  - destruct l; sprj; rewrite mlines_app; cbn [mlines flat_map mpend]; rewrite ?E, !app_nil_r; reflexivity.
  - destruct l as [tl|b t]; sprj.
    + rewrite mlines_app. cbn [mlines flat_map mrline mpend]. rewrite !app_nil_r.
      rewrite !pline_fold, pline_new. cbn [app]. rewrite <- app_assoc. reflexivity.
    + rewrite mlines_app. cbn [mlines flat_map mrline]. rewrite !app_nil_r. reflexivity.
Qed.

Lemma extend_lines_m ls : forall s,
  mlp (extend_lines s ls) = mlp s ++ mlines ls /\ wrapping (extend_lines s ls) = wrapping s /\
  sopts (extend_lines s ls) = sopts s /\ (pfc s -> pfc (extend_lines s ls)).
Proof.
  unfold extend_lines. induction ls as [|l ls IH]; intros s; cbn [fold_left].
  - cbn [mlines flat_map]. rewrite app_nil_r. auto.
  - destruct (add_line_m s l) as (A & B & C & D). destruct (IH (add_line s l)) as (A' & B' & C' & D').
    split; [|split; [congruence|split; [congruence|auto]]].
    rewrite A', A, <- app_assoc. reflexivity.
Qed.

Lemma take_frags_m w w1 frags :
  take_trailing_fragments w = (w1, frags) ->
  (WB w -> WB w1) /\ (wword w1 = [] \/ word_is_empty (wword w1) = false) /\
  pstream docp w = pstream docp w1 ++ mpend frags.
Proof.
  rewrite ttf_eq. intros H. injection H as <- <-.
  split; [|split].
  - intros (Ho & Hl & Hs).
    pose proof Hs as Hs'. rewrite (tfr_app (wword w)) in Hs'. apply Forall_app in Hs'.
    split; [exact Ho|split; [exact Hl|exact (proj1 Hs')]].
  - cbn [set_word wword]. destruct (word_is_empty (wword w)) eqn:E.
    + left. apply tfr_fst_nil_iff, E.
    + right. rewrite tfr_fst_empty. exact E.
  - unfold pstream, plines, mpend. cbn [set_word wword wtext wline].
    rewrite (tfr_app (wword w)) at 1. rewrite flat_map_app, !app_assoc. reflexivity.
Qed.

Lemma flush_wrapping_m s s' : flush_wrapping s = Ok s' -> Jx s ->
  Jx s' /\ mstream_out s' = mstream_out s /\ wrapping s' = None.
Proof.
  intros H (Hp & Ho & Hw). pose proof (flush_wrapping_none _ _ H) as En.
  destruct (flush_wrapping_out _ _ H Hp) as (Hp' & _ & _).
  destruct (flush_wrapping_sames _ _ H) as [_ Eo].
  split; [apply Jx_none; [exact Hp'|exact (ofx_ext _ _ Eo Ho)|exact En]|]. split; [|exact En].
  unfold flush_wrapping in H. destruct (wrapping s) as [w|] eqn:Ew.
  - destruct (take_trailing_fragments w) as [w1 frags] eqn:Et. bind_inv H lm Hlm. ok_inv H.
    destruct lm as [ls mk]. cbn [fst snd] in *.
    destruct (take_frags_m _ _ _ Et) as (_ & Hw1 & Es).
    destruct (extend_lines_m (map RText ls) (set_wrapping s None)) as (A & B & _ & _).
    unfold mstream_out. sprj. rewrite B. sprj. cbn [mwrap]. rewrite app_nil_r, Ew. cbn [mwrap].
    unfold mlp at 1. sprj. rewrite !mpend_app, app_assoc.
    change (mlines (slines (extend_lines (set_wrapping s None) (map RText ls))) ++
            mpend (pending_frags (extend_lines (set_wrapping s None) (map RText ls))))
      with (mlp (extend_lines (set_wrapping s None) (map RText ls))).
    rewrite A, mlines_RText, Es, <- (into_lines_markers_m _ _ _ Hlm Hw1), <- !app_assoc. reflexivity.
  - ok_inv H. reflexivity.
Qed.

(* an operation appends the items t to the stream and nothing else *)
Definition opM (f : subr -> res subr) (t : list sitem) : Prop :=
  forall s s', f s = Ok s' -> Jx s -> Jx s' /\ mstream_out s' = mstream_out s ++ t.

Lemma opM_comp f g t u : opM f t -> opM g u -> opM (fun s => do s1 <- f s; g s1) (t ++ u).
Proof.
  intros Hf Hg s s' H Hj. bind_inv H s1 H1. destruct (Hf _ _ H1 Hj) as [A B].
  destruct (Hg _ _ H A) as [C D]. split; [exact C|]. rewrite D, B, app_assoc. reflexivity.
Qed.
Lemma opM_comp0 f g u : opM f [] -> opM g u -> opM (fun s => do s1 <- f s; g s1) u.
Proof. intros Hf Hg. exact (opM_comp f g [] u Hf Hg). Qed.
Lemma opM_comp0r f g t : opM f t -> opM g [] -> opM (fun s => do s1 <- f s; g s1) t.
Proof. intros Hf Hg. pose proof (opM_comp f g t [] Hf Hg) as H. rewrite app_nil_r in H. exact H. Qed.

Lemma opM_pure (g : subr -> subr) :
  (forall s, slines (g s) = slines s /\ pending_frags (g s) = pending_frags s /\
             wrapping (g s) = wrapping s /\ sopts (g s) = sopts s) -> opM (fun s => Ok (g s)) [].
Proof.
  intros Hg s s' H (Hp & Ho & Hw). ok_inv H. destruct (Hg s) as (a & b & c & e).
  split.
  - split; [unfold pfc, pf_text in *; rewrite b; exact Hp|]. split; [exact (ofx_ext _ _ e Ho)|].
    intros w E. apply Hw. congruence.
  - unfold mstream_out, mlp. rewrite a, b, c, app_nil_r. reflexivity.
Qed.

Lemma flush_wrapping_opM : opM flush_wrapping [].
Proof.
  intros s s' H Hj. destruct (flush_wrapping_m _ _ H Hj) as (A & B & _).
  rewrite app_nil_r. auto.
Qed.

Lemma Jx_set_abe s b : Jx s -> Jx (set_abe s b).
Proof. intros (A & B & C). split; [exact A|]. split; [exact B|exact C]. Qed.
Lemma mstream_set_abe s b : mstream_out (set_abe s b) = mstream_out s.
Proof. reflexivity. Qed.

Lemma add_line_none_m s l : Jx s -> wrapping s = None ->
  Jx (add_line s l) /\ mstream_out (add_line s l) = mstream_out s ++ mrline l /\
  wrapping (add_line s l) = None.
Proof.
  intros (Hp & Ho & _) Hn. destruct (add_line_m s l) as (A & B & C & D).
  split; [apply Jx_none; [auto|exact (ofx_ext _ _ C Ho)|congruence]|]. split; [|congruence].
  unfold mstream_out. rewrite B, A, Hn. cbn [mwrap]. rewrite !app_nil_r. reflexivity.
Qed.

Lemma add_empty_line_opM : opM add_empty_line [].
Proof.
  intros s s' H Hj. unfold add_empty_line in H. bind_inv H s1 H1. ok_inv H.
  destruct (flush_wrapping_m _ _ H1 Hj) as (A & B & C).
  destruct (add_line_none_m s1 (RText tl_new) A C) as (A' & B' & _).
  split; [apply Jx_set_abe, A'|]. rewrite mstream_set_abe, B', B. reflexivity.
Qed.

Lemma start_block_opM : opM start_block [].
Proof.
  intros s s' H Hj. unfold start_block in H. bind_inv H s1 H1. bind_inv H s2 H2. ok_inv H.
  destruct (flush_wrapping_opM _ _ H1 Hj) as [A B].
  assert (C : Jx s2 /\ mstream_out s2 = mstream_out s1 ++ []).
  { destruct (existsb rline_has_content (slines s1)).
    - apply add_empty_line_opM; assumption.
    - ok_inv H2. rewrite app_nil_r. auto. }
  destruct C as [C D]. split; [apply Jx_set_abe, C|]. rewrite mstream_set_abe, D, B, !app_nil_r. reflexivity.
Qed.

Lemma new_line_hard_opM : opM new_line_hard [].
Proof.
  intros s s' H Hj. unfold new_line_hard in H. destruct (wrapping s) as [w|].
  - destruct ((wordlen w =? 0) && (tlen_ (wline w) =? 0)).
    + apply add_empty_line_opM; assumption.
    + apply flush_wrapping_opM; assumption.
  - apply add_empty_line_opM; assumption.
Qed.

Lemma WB_get s : Jx s -> WBx (get_wrapping s).
Proof.
  intros (_ & Ho & Hw) Hx. unfold get_wrapping.
  destruct (wrapping s) as [w|] eqn:E; [apply (Hw w); [reflexivity|exact Hx]|].
  rewrite (Ho Hx). apply WB_new.
Qed.
Lemma mwrap_get s : pstream docp (get_wrapping s) = mwrap (wrapping s).
Proof. unfold get_wrapping, mwrap. destruct (wrapping s); reflexivity. Qed.

Lemma pchars_kept t : pchars docp (kept t) = mchars t.
Proof. reflexivity. Qed.

(* THE text operation *)
Lemma add_inline_text_opM d t : opM (fun s => add_inline_text d s t) (mchars t).
Proof.
  intros s s' H Hj. pose proof H as H0. unfold add_inline_text in H.
  destruct (negb (preserve_ws (ws_mode s)) && at_block_end s && all_ws t) eqn:Ec.
  { ok_inv H. apply andb_true_iff in Ec. destruct Ec as [_ Ea]. unfold mchars.
    rewrite (all_ws_doc_chars _ Ea). cbn [map]. rewrite app_nil_r. auto. }
  bind_inv H s1 H1.
  assert (B : Jx s1 /\ mstream_out s1 = mstream_out s ++ []).
  { destruct (at_block_end s).
    - apply start_block_opM; assumption.
    - ok_inv H1. rewrite app_nil_r. auto. }
  destruct B as [B1 B2]. rewrite app_nil_r in B2.
  bind_inv H w1 Hw1. ok_inv H.
  assert (Hb : WBx w1) by (intros Hx; exact (wb_add_text_WB _ _ _ _ _ _ Hw1 (WB_get _ B1 Hx))).
  apply (add_text_stream docp docp_spacel) in Hw1.
  rewrite pchars_kept in Hw1. unfold mchars in Hw1. rewrite doc_chars_filters, mwrap_get in Hw1.
  destruct B1 as (P1 & O1 & W1). split.
  - split; [exact P1|]. split; [exact O1|]. intros w E. sprj. injection E as <-. exact Hb.
  - unfold mstream_out in *. unfold mlp in *. sprj. cbn [mwrap]. rewrite Hw1, app_assoc, B2. reflexivity.
Qed.

Lemma push_ann_opM a : opM (fun s => Ok (push_ann s a)) [].
Proof. apply opM_pure. intros s. unfold push_ann. sprj. auto. Qed.
Lemma pop_ann_opM : opM (fun s => Ok (pop_ann s)) [].
Proof. apply opM_pure. intros s. unfold pop_ann. sprj. auto. Qed.

Lemma start_deco_opM d p : opM (fun s => start_deco d s p) (mchars (fst p)).
Proof.
  unfold start_deco.
  exact (opM_comp0 _ _ _ (push_ann_opM (snd p)) (add_inline_text_opM d (fst p))).
Qed.
Lemma end_deco_opM d e : opM (fun s => end_deco d s e) (mchars e).
Proof. unfold end_deco. exact (opM_comp0r _ _ _ (add_inline_text_opM d e) pop_ann_opM). Qed.

Lemma Jx_set_filter s n : Jx s -> Jx (set_filter s n).
Proof. intros (A & B & C). split; [exact A|]. split; [exact B|exact C]. Qed.

Lemma start_strikeout_opM d : opM (start_strikeout d) (mchars (fst (d_strike_start d))).
Proof.
  unfold start_strikeout. apply opM_comp0r; [apply (start_deco_opM d)|].
  intros s s' H Hj. ok_inv H. rewrite app_nil_r.
  destruct (o_strike (sopts s)); [split; [apply Jx_set_filter, Hj|reflexivity]|auto].
Qed.
Lemma end_strikeout_opM d : opM (end_strikeout d) (mchars (d_strike_end d)).
Proof.
  unfold end_strikeout. apply opM_comp0; [|apply (end_deco_opM d)].
  intros s s' H Hj. rewrite app_nil_r. destruct (o_strike (sopts s)).
  - destruct (filter_depth s); [discriminate|]. ok_inv H. split; [apply Jx_set_filter, Hj|reflexivity].
  - ok_inv H. auto.
Qed.

Lemma add_image_opM d src title :
  opM (fun s => add_image d s src title) (mchars (fst (d_image d src title))).
Proof.
  unfold add_image.
  exact (opM_comp0r _ _ _ (opM_comp0 _ _ _ (push_ann_opM _) (add_inline_text_opM d _)) pop_ann_opM).
Qed.

(* THE marker operation *)
Lemma record_frag_start_opM name : opM (fun s => Ok (record_frag_start s name)) [inl name].
Proof.
  intros s s' H Hj. ok_inv H. pose proof (WB_get _ Hj) as Hb. destruct Hj as (Hp & Ho & Hw). split.
  - split; [exact Hp|]. split; [exact Ho|]. intros w E. unfold record_frag_start in E. sprj.
    injection E as <-. intros Hx. apply WB_add_frag, Hb, Hx.
  - unfold record_frag_start, mstream_out, mlp. sprj. cbn [mwrap].
    rewrite add_frag_stream, mwrap_get, !app_assoc. reflexivity.
Qed.

Lemma end_block_opM : opM (fun s => Ok (end_block s)) [].
Proof. apply opM_pure. intros s. unfold end_block. sprj. auto. Qed.
Lemma push_colour_opM d r g b : opM (fun s => Ok (push_colour d s r g b)) [].
Proof. apply opM_pure. intros s. unfold push_colour, push_ann. destruct (d_colours d); sprj; auto. Qed.
Lemma push_bgcolour_opM d r g b : opM (fun s => Ok (push_bgcolour d s r g b)) [].
Proof. apply opM_pure. intros s. unfold push_bgcolour, push_ann. destruct (d_colours d); sprj; auto. Qed.
Lemma pop_colour_opM d : opM (fun s => Ok (pop_colour d s)) [].
Proof. apply opM_pure. intros s. unfold pop_colour, pop_ann. destruct (d_colours d); sprj; auto. Qed.
Lemma push_ws_mode_opM m : opM (fun s => Ok (push_ws_mode s m)) [].
Proof. apply opM_pure. intros s. unfold push_ws_mode. sprj. auto. Qed.
Lemma pop_ws_mode_opM : opM (fun s => Ok (pop_ws_mode s)) [].
Proof. apply opM_pure. intros s. unfold pop_ws_mode. sprj. auto. Qed.
Lemma push_preformat_opM : opM (fun s => Ok (push_preformat s)) [].
Proof. apply opM_pure. intros s. unfold push_preformat. sprj. auto. Qed.
Lemma pop_preformat_opM : opM pop_preformat [].
Proof.
  intros s s' H Hj. unfold pop_preformat in H. destruct (0 <? pre_depth s); [|discriminate].
  ok_inv H. rewrite app_nil_r. destruct Hj as (A & B & C). split; [|reflexivity].
  split; [exact A|]. split; [exact B|exact C].
Qed.

(* ---- a nested sub-renderer is appended with prefixes ---- *)
Lemma nodoc_pchars t : nodoc t -> pchars docp t = [].
Proof. unfold nodoc, pchars. intros ->. reflexivity. Qed.

Lemma mline_insert_front l s t : mline (tl_insert_front l s t) = pchars docp s ++ mline l.
Proof.
  unfold tl_insert_front, pline. destruct (tv l) as [|[s1 t1|n] v'] eqn:E; cbn [tv flat_map pel];
    try reflexivity.
  destruct (tag_eqb t1 t); cbn [tv flat_map pel].
  - fold (pchars docp (s ++ s1)). rewrite pchars_app, <- app_assoc. reflexivity.
  - reflexivity.
Qed.

Lemma attach_prefix_m t p l : nodoc p -> mrline (attach_prefix t p l) = mrline l.
Proof.
  intros Hp. destruct l as [tl|b bt]; cbn [attach_prefix].
  - destruct p as [|c p]; [reflexivity|]. cbn [mrline].
    rewrite mline_insert_front, (nodoc_pchars _ Hp). reflexivity.
  - cbn [mrline]. rewrite !pline_push, pline_new. cbn [pel app].
    fold (pchars docp p). fold (pchars docp (border_string b)).
    rewrite (nodoc_pchars _ Hp), (nodoc_pchars _ (nodoc_border b)). reflexivity.
Qed.

Lemma attach_prefixes_m t first rest ls :
  nodoc first -> nodoc rest -> mlines (attach_prefixes t first rest ls) = mlines ls.
Proof.
  intros Hf Hr. destruct ls as [|l ls]; cbn [attach_prefixes]; [reflexivity|].
  cbn [mlines flat_map]. rewrite (attach_prefix_m _ _ _ Hf). f_equal.
  induction ls as [|l' ls IH]; cbn [map flat_map]; [reflexivity|].
  rewrite (attach_prefix_m _ _ _ Hr), IH. reflexivity.
Qed.

Lemma projr_mpend pf : projr (mpend pf) = filter docp (flat_map elem_text pf).
Proof. apply projr_flat_pel. Qed.

(* the lines of a sub-renderer: its stream without the markers that are still waiting *)
Lemma sub_into_lines_m s ls : sub_into_lines s = Ok ls -> Jx s ->
  exists waiting, mstream_out s = mlines ls ++ waiting /\ projr waiting = [].
Proof.
  intros H Hj. unfold sub_into_lines in H. bind_inv H s1 H1. ok_inv H.
  destruct (flush_wrapping_m _ _ H1 Hj) as ((Hp & _ & _) & B & C).
  exists (mpend (pending_frags s1)). split.
  - rewrite <- B. unfold mstream_out, mlp. rewrite C. cbn [mwrap]. rewrite app_nil_r. reflexivity.
  - rewrite projr_mpend. unfold pfc, pf_text in Hp. rewrite Hp. reflexivity.
Qed.

(* append_subrender: the stream of the lines of the nested sub-renderer is appended; the
   markers still waiting in it (recorded after its last text line) are DROPPED *)
Lemma append_subrender_m s sub first rest s' :
  append_subrender s sub first rest = Ok s' -> Jx s -> Jx sub -> nodoc first -> nodoc rest ->
  Jx s' /\ exists kept_ waiting, mstream_out s' = mstream_out s ++ kept_ /\
                                mstream_out sub = kept_ ++ waiting /\ projr waiting = [].
Proof.
  intros H Hj Hsub Hf Hr. unfold append_subrender in H.
  bind_inv H s1 H1. bind_inv H ols Hols. ok_inv H.
  destruct (flush_wrapping_m _ _ H1 Hj) as ((P1 & O1 & _) & B & C).
  destruct (extend_lines_m (attach_prefixes (ann_stack s1) first rest ols) s1) as (A' & B' & C' & D').
  destruct (sub_into_lines_m _ _ Hols Hsub) as (waiting & Ew & Hw).
  split; [apply Jx_none; [auto|exact (ofx_ext _ _ C' O1)|congruence]|].
  exists (mlines ols), waiting. split; [|split; assumption].
  unfold mstream_out at 1. rewrite B', C, A'. cbn [mwrap]. rewrite app_nil_r.
  rewrite (attach_prefixes_m _ _ _ _ Hf Hr), <- B.
  unfold mstream_out at 1. rewrite C. cbn [mwrap]. rewrite app_nil_r. reflexivity.
Qed.

Lemma Jx_new s w : Jx s -> Jx (new_sub_renderer s w).
Proof. intros (_ & Ho & _). apply Jx_none; [reflexivity|exact Ho|reflexivity]. Qed.
Lemma mstream_new s w : mstream_out (new_sub_renderer s w) = [].
Proof. reflexivity. Qed.
Lemma Jx_sub_new w o : (x = true -> o_allow_overflow o = false) -> Jx (sub_new w o).
Proof. intros Ho. apply Jx_none; [reflexivity|exact Ho|reflexivity]. Qed.

(* ================================================================== *)
(* 5. The stream of a render tree                                       *)
(* ================================================================== *)

Section MTree.
  (* what closing a nested sub-renderer (heading, quote, list item, <dd>) does to its stream *)
  Variable sc : list sitem -> list sitem.
  Variable d : deco.

  (* pre-order: IFragStart name gives the marker, text leaves / image texts / decorator affixes
     give their visible document characters (like RenderConserve.doc_stream) *)
  Fixpoint mtree (n : rnode) {struct n} : list sitem :=
    let kids (cs : list rnode) : list sitem := flat_map mtree cs in
    let wrapped (a : text) (cs : list rnode) (b : text) : list sitem :=
        mchars a ++ kids cs ++ mchars b in
    match rn_info n with
    | IText t => mchars t
    | IImg src title => mchars (fst (d_image d src title))
    | IBreak => []
    | IFragStart name => [inl name]
    | ILink href cs => wrapped (fst (d_link_start d href)) cs (d_link_end d)
    | IEm cs | IDt cs => wrapped (fst (d_em_start d)) cs (d_em_end d)
    | IStrong cs => wrapped (fst (d_strong_start d)) cs (d_strong_end d)
    | IStrikeout cs => wrapped (fst (d_strike_start d)) cs (d_strike_end d)
    | ICode cs => wrapped (fst (d_code_start d)) cs (d_code_end d)
    | ISup cs =>
      match sup_digits cs with
      | Some ds => mchars ds
      | None => wrapped (fst (d_sup_start d)) cs (d_sup_end d)
      end
    | IContainer cs | IBlock cs | IListItem cs | IDiv cs | IDl cs => kids cs
    | IHeader _ cs | IBlockQuote cs | IDd cs => sc (kids cs)
    | IUl cs | IOl _ cs => flat_map (fun c => sc (mtree c)) cs
    | ITable _ _ | ITableRow _ | ITableBody _ | ITableCell _ => []   (* tables: not covered *)
    end.
End MTree.

(* every marker and every visible document character of the tree, in document order *)
Definition mstream_tree (d : deco) (n : rnode) : list sitem := mtree (fun x => x) d n.
(* the same without the markers behind which no visible document character follows inside the
   same nested sub-renderer (heading, quote, list item, <dd>): the element such a marker
   belongs to has no visible content there *)
Definition mstream_min (d : deco) (n : rnode) : list sitem := mtree strip d n.

(* ================================================================== *)
(* 6. The render layer                                                  *)
(* ================================================================== *)

Lemma msub_nil_r t : msub t [] -> t = [].
Proof. intros H. inversion H. reflexivity. Qed.

Lemma mchars_ftext l : mchars (ftext l) = [].
Proof. unfold mchars, ftext. rewrite (nodoc_doc_chars _ (nodoc_of_asciil L_foot l eq_refl)). reflexivity. Qed.

Section Thread.
  Variable d : deco.
  Variable mw : N.
  Hypothesis Pd : prefix_made d.

  Notation lo := (mtree strip d).
  Notation hi := (mtree (fun x => x) d).

  (* st' differs from st in the top sub-renderer only, which (if its invariant holds) keeps
     the invariant and has received a stream t between l and h *)
  Definition Cm (st st' : rstate) (l h : list sitem) : Prop :=
    forall s rest, stack st = s :: rest ->
      exists s', stack st' = s' :: rest /\
        (Jx s -> Jx s' /\ exists t, mstream_out s' = mstream_out s ++ t /\ btw l t h).

  Lemma Cm_stack_eq st st' : stack st' = stack st -> Cm st st' [] [].
  Proof.
    intros E s rest Es. exists s. split; [congruence|]. intros Hj. split; [exact Hj|].
    exists []. rewrite app_nil_r. split; [reflexivity|apply btw_refl].
  Qed.
  Lemma Cm_refl st : Cm st st [] [].
  Proof. apply Cm_stack_eq. reflexivity. Qed.

  Lemma Cm_trans a b c l1 h1 l2 h2 : Cm a b l1 h1 -> Cm b c l2 h2 -> Cm a c (l1 ++ l2) (h1 ++ h2).
  Proof.
    intros K1 K2 s rest Es. destruct (K1 s rest Es) as (s1 & E1 & R1).
    destruct (K2 s1 rest E1) as (s2 & E2 & R2). exists s2. split; [exact E2|].
    intros Hj. destruct (R1 Hj) as (J1 & t1 & S1 & B1). destruct (R2 J1) as (J2 & t2 & S2 & B2).
    split; [exact J2|]. exists (t1 ++ t2). split; [|apply btw_app; assumption].
    rewrite S2, S1, app_assoc. reflexivity.
  Qed.
  Lemma Cm0_l a b c l h : Cm a b [] [] -> Cm b c l h -> Cm a c l h.
  Proof. intros A B. exact (Cm_trans _ _ _ _ _ _ _ A B). Qed.
  Lemma Cm0_r a b c l h : Cm a b l h -> Cm b c [] [] -> Cm a c l h.
  Proof.
    intros A B. pose proof (Cm_trans _ _ _ _ _ _ _ A B) as C. rewrite !app_nil_r in C. exact C.
  Qed.

  Lemma with_top_Cm f t st st' : opM f t -> with_top st f = Ok st' -> Cm st st' t t.
  Proof.
    intros Hf H s rest Es. destruct (with_top_inv _ _ _ H) as (s0 & rest0 & s' & Es0 & Ef & ->).
    rewrite Es in Es0. injection Es0 as <- <-. exists s'. split; [reflexivity|].
    intros Hj. destruct (Hf _ _ Ef Hj) as [A B]. split; [exact A|]. exists t.
    split; [exact B|apply btw_refl].
  Qed.
  Lemma with_top'_Cm g t st st' : opM (fun s => Ok (g s)) t -> with_top' st g = Ok st' -> Cm st st' t t.
  Proof. unfold with_top'. apply with_top_Cm. Qed.

  Lemma inline_text_Cm t st st' : inline_text d st t = Ok st' -> Cm st st' (mchars t) (mchars t).
  Proof. unfold inline_text. apply with_top_Cm, add_inline_text_opM. Qed.

  Lemma apply_style_Cm st cs st' p : apply_style d st cs = Ok (st', p) -> Cm st st' [] [].
  Proof.
    intros H. unfold apply_style in H.
    bind_inv H st1 H1. bind_inv H st2 H2. bind_inv H st3 H3. bind_inv H st4 H4.
    injection H as <- _.
    assert (R1 : Cm st st1 []  []).
    { destruct (ws_val (c_colour (cs_core cs))) as [[[r g] b]|].
      - eapply with_top'_Cm; [apply push_colour_opM|exact H1].
      - ok_inv H1. apply Cm_refl. }
    assert (R2 : Cm st1 st2 [] []).
    { destruct (ws_val (c_bg (cs_core cs))) as [[[r g] b]|].
      - eapply with_top'_Cm; [apply push_bgcolour_opM|exact H2].
      - ok_inv H2. apply Cm_refl. }
    assert (R3 : Cm st2 st3 [] []).
    { destruct (match ws_val (c_white_space (cs_core cs)) with
                | Some WsPre => Some WsPre
                | Some WsPreWrap => Some WsPreWrap
                | _ => None
                end) as [m|].
      - eapply with_top'_Cm; [apply push_ws_mode_opM|exact H3].
      - ok_inv H3. apply Cm_refl. }
    assert (R4 : Cm st3 st4 [] []).
    { destruct (cs_internal_pre cs).
      - eapply with_top'_Cm; [apply push_preformat_opM|exact H4].
      - ok_inv H4. apply Cm_refl. }
    eapply Cm0_l; [exact R1|]. eapply Cm0_l; [exact R2|]. eapply Cm0_l; eassumption.
  Qed.

  Lemma unwind_Cm p st st' : unwind d p st = Ok st' -> Cm st st' [] [].
  Proof.
    intros H. unfold unwind in H.
    bind_inv H st1 H1. bind_inv H st2 H2. bind_inv H st3 H3.
    assert (R1 : Cm st st1 [] []).
    { destruct (p_bg p).
      - eapply with_top'_Cm; [apply pop_colour_opM|exact H1].
      - ok_inv H1. apply Cm_refl. }
    assert (R2 : Cm st1 st2 [] []).
    { destruct (p_colour p).
      - eapply with_top'_Cm; [apply pop_colour_opM|exact H2].
      - ok_inv H2. apply Cm_refl. }
    assert (R3 : Cm st2 st3 [] []).
    { destruct (p_ws p).
      - eapply with_top'_Cm; [apply pop_ws_mode_opM|exact H3].
      - ok_inv H3. apply Cm_refl. }
    assert (R4 : Cm st3 st' [] []).
    { destruct (p_pre p).
      - eapply with_top_Cm; [apply pop_preformat_opM|exact H].
      - ok_inv H. apply Cm_refl. }
    eapply Cm0_l; [exact R1|]. eapply Cm0_l; [exact R2|]. eapply Cm0_l; eassumption.
  Qed.

  Lemma fold_Cm {B} (f : B -> rstate -> res rstate) (gl gh : B -> list sitem) (l : list B) :
    (forall b, In b l -> forall a a', f b a = Ok a' -> Cm a a' (gl b) (gh b)) ->
    forall a a', fold_left (fun acc b => do s <- acc; f b s) l (Ok a) = Ok a' ->
                 Cm a a' (flat_map gl l) (flat_map gh l).
  Proof.
    induction l as [|b l IH]; intros Hstep a a' H.
    - cbn [fold_left] in H. ok_inv H. apply Cm_refl.
    - apply fold_bind_cons in H. destruct H as (a1 & H1 & H).
      cbn [flat_map]. eapply Cm_trans; [exact (Hstep b (or_introl eq_refl) a a1 H1)|].
      apply IH; [intros b' Hb'; apply Hstep; right; exact Hb'|exact H].
  Qed.

  Definition node_cm (n : rnode) : Prop :=
    forall st st', no_table n = true -> render_node d mw n st = Ok st' -> Cm st st' (lo n) (hi n).

  Lemma render_kids_Cm cs st st' :
    Forall node_cm cs -> forallb no_table cs = true ->
    fold_left (fun acc c => do s <- acc; render_node d mw c s) cs (Ok st) = Ok st' ->
    Cm st st' (flat_map lo cs) (flat_map hi cs).
  Proof.
    intros HF Ha H. apply (fold_Cm (render_node d mw) lo hi cs); [|exact H].
    intros c Hc a a' Hr. rewrite Forall_forall in HF. rewrite forallb_forall in Ha.
    apply (HF c Hc a a' (Ha c Hc) Hr).
  Qed.

  Lemma wrap_case_Cm (f1 f2 : subr -> res subr) t1 t2 cs ps st1 st' :
    opM f1 t1 -> opM f2 t2 -> Forall node_cm cs -> forallb no_table cs = true ->
    (do a <- with_top st1 f1;
     do b <- fold_left (fun acc c => do s <- acc; render_node d mw c s) cs (Ok a);
     do c <- with_top b f2; unwind d ps c) = Ok st' ->
    Cm st1 st' (t1 ++ flat_map lo cs ++ t2) (t1 ++ flat_map hi cs ++ t2).
  Proof.
    intros K1 K2 HF Ha H.
    bind_inv H a H1. bind_inv H b H2. bind_inv H c H3.
    pose proof (with_top_Cm _ _ _ _ K1 H1) as Ra.
    pose proof (render_kids_Cm _ _ _ HF Ha H2) as Rb.
    pose proof (with_top_Cm _ _ _ _ K2 H3) as Rc.
    pose proof (unwind_Cm _ _ _ H) as Rd.
    eapply Cm_trans; [exact Ra|]. eapply Cm_trans; [exact Rb|]. eapply Cm0_r; eassumption.
  Qed.

  (* a nested sub-renderer: rendered into a fresh one, popped, (something stream-neutral done
     to the parent,) appended with prefixes: the parent receives what was rendered without
     some markers at its end *)
  Lemma scope_Cm st tp w' st2 sub st3 st3' st4 p1 p2 l h :
    top st = Ok tp ->
    Cm (push_sub st (new_sub_renderer tp w')) st2 l h ->
    pop_sub st2 = Ok (sub, st3) ->
    Cm st3 st3' [] [] ->
    with_top st3' (fun s => append_subrender s sub p1 p2) = Ok st4 ->
    nodoc p1 -> nodoc p2 ->
    Cm st st4 (strip l) h.
  Proof.
    intros Ht Hb Hp Hmid Hap N1 N2 s rest Es.
    unfold top in Ht. rewrite Es in Ht. injection Ht as <-.
    destruct (Hb (new_sub_renderer s w') (s :: rest)) as (sub' & E2 & K).
    { cbn [push_sub stack]. rewrite Es. reflexivity. }
    unfold pop_sub in Hp. rewrite E2 in Hp. injection Hp as <- <-.
    destruct (Hmid s rest eq_refl) as (s3' & E3 & K3).
    destruct (with_top_inv _ _ _ Hap) as (s0 & rest0 & s4 & Es0 & Ef & ->).
    rewrite E3 in Es0. injection Es0 as <- <-. exists s4. split; [reflexivity|].
    intros Hj. destruct (K (Jx_new _ _ Hj)) as (Jsub & t & St & Bt).
    rewrite mstream_new in St. cbn [app] in St.
    destruct (K3 Hj) as (J3 & t0 & S0 & [_ B0]). apply msub_nil_r in B0. subst t0.
    rewrite app_nil_r in S0.
    destruct (append_subrender_m _ _ _ _ _ Ef J3 Jsub N1 N2) as (J4 & kept_ & waiting & S4 & Ek & Hw).
    split; [exact J4|]. exists kept_. split; [rewrite S4, S0; reflexivity|].
    apply (btw_cut l t h kept_ waiting Bt); [congruence|exact Hw].
  Qed.

  Lemma nodoc_pad_width p w : nodoc p -> nodoc (pad_width p w).
  Proof. intros H. unfold pad_width. apply nodoc_app; [exact H|apply nodoc_repeat; reflexivity]. Qed.
  Lemma nodoc_pad_chars w : nodoc (pad_chars [] w).
  Proof. unfold pad_chars. apply nodoc_app; [apply nodoc_nil|apply nodoc_repeat; reflexivity]. Qed.

  (* ---- ordered lists ---- *)
  Lemma ol_items_Cm sz pw : forall items s i r,
    Forall node_cm items -> forallb no_table items = true ->
    fold_left (fun acc item => do si <- acc; ol_step d mw sz pw item si) items (Ok (s, i)) = Ok r ->
    Cm s (fst r) (flat_map (fun c => strip (lo c)) items) (flat_map (fun c => hi c) items).
  Proof.
    induction items as [|item items IH]; intros s i r HF Ha H.
    - cbn [fold_left] in H. ok_inv H. apply Cm_refl.
    - apply fold_bind_cons in H. destruct H as ([s4 i'] & Hstep & H).
      pose proof (Forall_inv HF) as HF1. pose proof (Forall_inv_tail HF) as HF2.
      cbn [forallb] in Ha. apply andb_true_iff in Ha. destruct Ha as [Ha1 Ha2].
      unfold ol_step in Hstep.
      bind_inv Hstep iw Hiw. bind_inv Hstep tp Htp. bind_inv Hstep w' Hw.
      bind_inv Hstep s2 Hs2. bind_inv Hstep pp Hpp. destruct pp as [sub s3].
      bind_inv Hstep s4' H4. injection Hstep as -> <-.
      pose proof (scope_Cm s tp w' s2 sub s3 s3 s4 _ _ _ _ Htp (HF1 _ _ Ha1 Hs2) Hpp (Cm_refl s3) H4
                    (nodoc_pad_width _ pw (pm_ol d Pd i)) (nodoc_pad_chars pw)) as R.
      cbn [flat_map]. eapply Cm_trans; [exact R|]. exact (IH s4 (isat64 (i + 1)) r HF2 Ha2 H).
  Qed.

  Ltac start H sz ap st1 ps R1 :=
    let Hsz := fresh "Hsz" in let Hap := fresh "Hap" in
    bind_inv H sz Hsz; bind_inv H ap Hap; destruct ap as [st1 ps];
    pose proof (apply_style_Cm _ _ _ _ Hap) as R1.

  (* THE per-node theorem *)
  Lemma node_cm_all : forall n, node_cm n.
  Proof.
    apply rnode_ind'. intros i sty IH st st' Hn H.
    pose proof (no_table_kids _ _ Hn) as Hk.
    destruct i; cbn [direct_kids] in IH, Hk; cbn [render_node rn_info rn_style] in H;
      cbn [mtree rn_info].
    - (* IText *)
      start H sz ap st1 ps R1. bind_inv H st2 H2.
      pose proof (inline_text_Cm _ _ _ H2) as R2. pose proof (unwind_Cm _ _ _ H) as R3.
      eapply Cm0_l; [exact R1|]. eapply Cm0_r; eassumption.
    - (* IContainer *)
      start H sz ap st1 ps R1. bind_inv H st2 H2.
      pose proof (render_kids_Cm _ _ _ IH Hk H2) as R2. pose proof (unwind_Cm _ _ _ H) as R3.
      eapply Cm0_l; [exact R1|]. eapply Cm0_r; eassumption.
    - (* ILink *)
      start H sz ap st1 ps R1.
      set (st1' := mkrst (stack st1) (links st1 ++ [href])) in H.
      assert (R1' : Cm st1 st1' [] []) by (apply Cm_stack_eq; reflexivity).
      bind_inv H st2 H2. bind_inv H st3 H3. bind_inv H st4 H4. bind_inv H tp H5. bind_inv H st5 H6.
      pose proof (with_top_Cm _ _ _ _ (start_deco_opM d (d_link_start d href)) H2) as R2.
      pose proof (render_kids_Cm _ _ _ IH Hk H3) as R3.
      pose proof (with_top_Cm _ _ _ _ (end_deco_opM d (d_link_end d)) H4) as R4.
      assert (R5 : Cm st4 st5 [] []).
      { destruct (o_footnotes (sopts tp)).
        - pose proof (inline_text_Cm _ _ _ H6) as X. rewrite mchars_ftext in X. exact X.
        - ok_inv H6. apply Cm_refl. }
      pose proof (unwind_Cm _ _ _ H) as R6.
      eapply Cm0_l; [exact R1|]. eapply Cm0_l; [exact R1'|].
      eapply Cm_trans; [exact R2|]. eapply Cm_trans; [exact R3|].
      eapply Cm0_r; [|exact R6]. eapply Cm0_r; eassumption.
    - (* IEm *)
      start H sz ap st1 ps R1. eapply Cm0_l; [exact R1|].
      exact (wrap_case_Cm (start_emphasis d) (end_emphasis d) _ _ cs ps st1 st'
               (start_deco_opM d (d_em_start d)) (end_deco_opM d (d_em_end d)) IH Hk H).
    - (* IStrong *)
      start H sz ap st1 ps R1. eapply Cm0_l; [exact R1|].
      exact (wrap_case_Cm (start_strong d) (end_strong d) _ _ cs ps st1 st'
               (start_deco_opM d (d_strong_start d)) (end_deco_opM d (d_strong_end d)) IH Hk H).
    - (* IStrikeout *)
      start H sz ap st1 ps R1. eapply Cm0_l; [exact R1|].
      exact (wrap_case_Cm (start_strikeout d) (end_strikeout d) _ _ cs ps st1 st'
               (start_strikeout_opM d) (end_strikeout_opM d) IH Hk H).
    - (* ICode *)
      start H sz ap st1 ps R1. eapply Cm0_l; [exact R1|].
      exact (wrap_case_Cm (start_code d) (end_code d) _ _ cs ps st1 st'
               (start_deco_opM d (d_code_start d)) (end_deco_opM d (d_code_end d)) IH Hk H).
    - (* IImg *)
      start H sz ap st1 ps R1. bind_inv H st2 H2.
      pose proof (with_top_Cm _ _ _ _ (add_image_opM d src title) H2) as R2.
      pose proof (unwind_Cm _ _ _ H) as R3.
      eapply Cm0_l; [exact R1|]. eapply Cm0_r; eassumption.
    - (* IBlock *)
      start H sz ap st1 ps R1. eapply Cm0_l; [exact R1|].
      pose proof (wrap_case_Cm start_block (fun s => Ok (end_block s)) _ _ cs ps st1 st'
                    start_block_opM end_block_opM IH Hk H) as X.
      cbn [app] in X. rewrite !app_nil_r in X. exact X.
    - (* IHeader *)
      start H sz ap st1 ps R1.
      destruct (swidth (d_header_prefix d level) =? e_prefix sz); cbn [negb] in H; [|discriminate].
      bind_inv H tp Htp. bind_inv H w' Hw. bind_inv H st2 H2. bind_inv H pp Hpp.
      destruct pp as [sub st3]. bind_inv H st4 H4. bind_inv H st5 H5. bind_inv H st6 H6.
      pose proof (render_kids_Cm _ _ _ IH Hk H2) as Rk.
      pose proof (with_top_Cm _ _ _ _ start_block_opM H4) as R4.
      pose proof (scope_Cm _ _ _ _ _ _ _ _ _ _ _ _ Htp Rk Hpp R4 H5
                    (pm_header d Pd level) (pm_header d Pd level)) as R5.
      pose proof (with_top'_Cm _ _ _ _ end_block_opM H6) as R6.
      pose proof (unwind_Cm _ _ _ H) as R7.
      eapply Cm0_l; [exact R1|]. eapply Cm0_r; [|exact R7]. eapply Cm0_r; eassumption.
    - (* IDiv *)
      start H sz ap st1 ps R1. eapply Cm0_l; [exact R1|].
      pose proof (wrap_case_Cm new_line new_line _ _ cs ps st1 st'
                    flush_wrapping_opM flush_wrapping_opM IH Hk H) as X.
      cbn [app] in X. rewrite !app_nil_r in X. exact X.
    - (* IBlockQuote *)
      start H sz ap st1 ps R1.
      destruct (e_prefix sz =? swidth (d_quote_prefix d)); cbn [negb] in H; [|discriminate].
      bind_inv H iw Hiw.
      bind_inv H tp Htp. bind_inv H w' Hw. bind_inv H st2 H2. bind_inv H pp Hpp.
      destruct pp as [sub st3]. bind_inv H st4 H4. bind_inv H st5 H5. bind_inv H st6 H6.
      pose proof (render_kids_Cm _ _ _ IH Hk H2) as Rk.
      pose proof (with_top_Cm _ _ _ _ start_block_opM H4) as R4.
      pose proof (scope_Cm _ _ _ _ _ _ _ _ _ _ _ _ Htp Rk Hpp R4 H5
                    (pm_quote d Pd) (pm_quote d Pd)) as R5.
      pose proof (with_top'_Cm _ _ _ _ end_block_opM H6) as R6.
      pose proof (unwind_Cm _ _ _ H) as R7.
      eapply Cm0_l; [exact R1|]. eapply Cm0_r; [|exact R7]. eapply Cm0_r; eassumption.
    - (* IUl *)
      start H sz ap st1 ps R1. bind_inv H st2 H2.
      eapply Cm0_l; [exact R1|].
      assert (R2 : Cm st1 st2 (flat_map (fun c => strip (lo c)) cs) (flat_map (fun c => hi c) cs)).
      { revert H2.
        apply (fold_Cm
               (fun item s =>
                  do inner_width <- usub 22 (e_min sz) (swidth (d_ul_prefix d));
                  do tp <- top s;
                  do w <- width_minus tp (swidth (d_ul_prefix d)) inner_width;
                  do s2 <- render_node d mw item (push_sub s (new_sub_renderer tp w));
                  do pp <- pop_sub s2;
                  let '(sub, s3) := pp in
                  with_top s3 (fun t => append_subrender t sub (d_ul_prefix d)
                     (repeat_chr (spacel L_prefix) (N.to_nat (swidth (d_ul_prefix d))))))
               (fun c => strip (lo c)) (fun c => hi c) cs).
        intros item Hitem a a' Hstep.
        bind_inv Hstep iw Hiw. bind_inv Hstep tp Htp. bind_inv Hstep w' Hw.
        bind_inv Hstep s2 Hs2. bind_inv Hstep pp Hpp. destruct pp as [sub s3].
        rewrite Forall_forall in IH. rewrite forallb_forall in Hk.
        assert (Hn' : nodoc (repeat_chr (spacel L_prefix) (N.to_nat (swidth (d_ul_prefix d)))))
          by (apply nodoc_repeat; reflexivity).
        exact (scope_Cm a tp w' s2 sub s3 s3 a' _ _ _ _ Htp (IH item Hitem _ _ (Hk item Hitem) Hs2)
                 Hpp (Cm_refl s3) Hstep (pm_ul d Pd) Hn'). }
      pose proof (unwind_Cm _ _ _ H) as R3.
      eapply Cm0_r; eassumption.
    - (* IOl *)
      start H sz ap st1 ps R1. bind_inv H r Hr.
      eapply Cm0_l; [exact R1|].
      pose proof (ol_items_Cm sz _ cs st1 start r IH Hk Hr) as R2.
      pose proof (unwind_Cm _ _ _ H) as R3.
      eapply Cm0_r; eassumption.
    - (* IDl *)
      start H sz ap st1 ps R1. bind_inv H st2 H2. bind_inv H st3 H3.
      pose proof (with_top_Cm _ _ _ _ start_block_opM H2) as R2.
      pose proof (render_kids_Cm _ _ _ IH Hk H3) as R3.
      pose proof (unwind_Cm _ _ _ H) as R4.
      eapply Cm0_l; [exact R1|]. eapply Cm0_l; [exact R2|]. eapply Cm0_r; eassumption.
    - (* IDt *)
      start H sz ap st1 ps R1. bind_inv H st2 H2.
      pose proof (with_top_Cm _ _ _ _ flush_wrapping_opM H2) as R2.
      eapply Cm0_l; [exact R1|]. eapply Cm0_l; [exact R2|].
      exact (wrap_case_Cm (start_emphasis d) (end_emphasis d) _ _ cs ps st2 st'
               (start_deco_opM d (d_em_start d)) (end_deco_opM d (d_em_end d)) IH Hk H).
    - (* IDd *)
      start H sz ap st1 ps R1. bind_inv H iw Hiw.
      bind_inv H tp Htp. bind_inv H w' Hw. bind_inv H st2 H2. bind_inv H pp Hpp.
      destruct pp as [sub st3]. bind_inv H st4 H4.
      pose proof (render_kids_Cm _ _ _ IH Hk H2) as Rk.
      assert (Hn' : nodoc (ptext [32; 32])) by (apply nodoc_of_asciil; reflexivity).
      pose proof (scope_Cm _ _ _ _ _ _ _ _ _ _ _ _ Htp Rk Hpp (Cm_refl st3) H4 Hn' Hn') as R4.
      pose proof (unwind_Cm _ _ _ H) as R5.
      eapply Cm0_l; [exact R1|]. eapply Cm0_r; eassumption.
    - (* IBreak *)
      start H sz ap st1 ps R1. bind_inv H st2 H2.
      pose proof (with_top_Cm _ _ _ _ new_line_hard_opM H2) as R2.
      pose proof (unwind_Cm _ _ _ H) as R3.
      eapply Cm0_l; [exact R1|]. eapply Cm0_l; eassumption.
    - (* ITable *) discriminate Hn.
    - (* ITableBody *) discriminate Hn.
    - (* ITableRow *) discriminate Hn.
    - (* ITableCell *) discriminate Hn.
    - (* IFragStart *)
      start H sz ap st1 ps R1. bind_inv H st2 H2.
      pose proof (with_top'_Cm _ _ _ _ (record_frag_start_opM name) H2) as R2.
      pose proof (unwind_Cm _ _ _ H) as R3.
      eapply Cm0_l; [exact R1|]. eapply Cm0_r; eassumption.
    - (* IListItem *)
      start H sz ap st1 ps R1. eapply Cm0_l; [exact R1|].
      pose proof (wrap_case_Cm start_block (fun s => Ok (end_block s)) _ _ cs ps st1 st'
                    start_block_opM end_block_opM IH Hk H) as X.
      cbn [app] in X. rewrite !app_nil_r in X. exact X.
    - (* ISup *)
      start H sz ap st1 ps R1. eapply Cm0_l; [exact R1|].
      destruct (sup_digits cs) as [digitstr|] eqn:Esd.
      + bind_inv H st2 H2.
        pose proof (inline_text_Cm _ _ _ H2) as R2. pose proof (unwind_Cm _ _ _ H) as R3.
        eapply Cm0_r; eassumption.
      + exact (wrap_case_Cm (start_superscript d) (end_superscript d) _ _ cs ps st1 st'
                 (start_deco_opM d (d_sup_start d)) (end_deco_opM d (d_sup_end d)) IH Hk H).
  Qed.
End Thread.
End Inv.

(* the two instances of the generic invariant *)
Lemma J_Jx s : J s <-> Jx true s.
Proof.
  unfold J, Jx, ofx, WBx. split.
  - intros (A & B & C). split; [exact A|]. split; [intros _; exact B|]. intros w E _. apply C, E.
  - intros (A & B & C). split; [exact A|]. split; [exact (B eq_refl)|].
    intros w E. exact (C w E eq_refl).
Qed.
Lemma pfc_Jx s : pfc s <-> Jx false s.
Proof.
  unfold Jx, ofx, WBx. split.
  - intros A. split; [exact A|]. split; [discriminate|]. intros w _. discriminate.
  - intros [A _]. exact A.
Qed.

(* ================================================================== *)
(* 7. MAIN THEOREMS                                                     *)
(* ================================================================== *)

(* TABLE-FREE TREES, render_node: every decorator with renderer-made prefixes, every width,
   every white-space mode, every state whose top sub-renderer satisfies the invariant (Jx x:
   J - overflow not allowed - for x = true, pfc alone for x = false).  The top sub-renderer
   receives a stream t with
        mstream_min d n  <=  t  <=  mstream_tree d n        (<= : msub, markers deleted)
   i.e. all visible document characters in document order, every marker of mstream_min, no
   marker that is not in the tree, none moved across a character or another marker. *)
Theorem c14_render_node_gen : forall x d mw n st st' s rest,
  prefix_made d -> no_table n = true -> stack st = s :: rest -> Jx x s ->
  render_node d mw n st = Ok st' ->
  exists s' t, stack st' = s' :: rest /\ Jx x s' /\ mstream_out s' = mstream_out s ++ t /\
               msub (mstream_min d n) t /\ msub t (mstream_tree d n).
Proof.
  intros x d mw n st st' s rest Hd Hn Es Hj H.
  destruct (node_cm_all x d mw Hd n st st' Hn H s rest Es) as (s' & E' & K).
  destruct (K Hj) as (Hj' & t & St & B1 & B2). exists s', t. auto.
Qed.

Theorem c14_render_node_no_table : forall d mw n st st' s rest,
  prefix_made d -> no_table n = true -> stack st = s :: rest -> J s ->
  render_node d mw n st = Ok st' ->
  exists s' t, stack st' = s' :: rest /\ J s' /\ mstream_out s' = mstream_out s ++ t /\
               msub (mstream_min d n) t /\ msub t (mstream_tree d n).
Proof.
  intros d mw n st st' s rest Hd Hn Es Hj H. apply J_Jx in Hj.
  destruct (c14_render_node_gen true d mw n st st' s rest Hd Hn Es Hj H)
    as (s' & t & A & B & C). exists s', t. split; [exact A|]. split; [apply J_Jx, B|exact C].
Qed.
Print Assumptions c14_render_node_no_table.

(* NEW (since flush_wrapping collects the markers left on the unfinished line): the same for
   ANY overflow setting, the only invariant left being RenderConserve.pfc (pending_frags
   holds markers only) *)
Theorem c14_render_node_no_table_any_overflow : forall d mw n st st' s rest,
  prefix_made d -> no_table n = true -> stack st = s :: rest -> pfc s ->
  render_node d mw n st = Ok st' ->
  exists s' t, stack st' = s' :: rest /\ pfc s' /\ mstream_out s' = mstream_out s ++ t /\
               msub (mstream_min d n) t /\ msub t (mstream_tree d n).
Proof.
  intros d mw n st st' s rest Hd Hn Es Hj H. apply pfc_Jx in Hj.
  destruct (c14_render_node_gen false d mw n st st' s rest Hd Hn Es Hj H)
    as (s' & t & A & B & C). exists s', t. split; [exact A|]. split; [apply pfc_Jx, B|exact C].
Qed.
Print Assumptions c14_render_node_no_table_any_overflow.

(* ---- the footnote list adds neither markers nor visible document characters ---- *)
Lemma nodoc_cons c t : nodoc (c :: t) <-> docp c = false /\ nodoc t.
Proof.
  unfold nodoc. cbn [filter]. destruct (docp c); split.
  - discriminate.
  - intros [X _]. discriminate.
  - auto.
  - intros [_ X]. exact X.
Qed.

Lemma nodoc_nl t : nodoc t -> nodoc (nl_to_space t).
Proof.
  induction t as [|c t IH]; intros H; [exact H|]. apply nodoc_cons in H. destruct H as [Hc Ht].
  unfold nl_to_space. cbn [map]. apply nodoc_cons. split; [|apply IH, Ht].
  destruct (cp c =? 10); [reflexivity|exact Hc].
Qed.

Lemma nodoc_app_inv a b : nodoc (a ++ b) -> nodoc a /\ nodoc b.
Proof. unfold nodoc. rewrite filter_app. intros H. apply app_eq_nil in H. exact H. Qed.

Lemma fl_chars_m t : forall cs s buf wl pos s' buf' wl' pos',
  fl_chars s t cs buf wl pos = (s', buf', wl', pos') -> nodoc cs -> nodoc buf -> mline wl = [] ->
  mlp s' = mlp s /\ nodoc buf' /\ mline wl' = [] /\ wrapping s' = wrapping s /\
  sopts s' = sopts s /\ (pfc s -> pfc s').
Proof.
  induction cs as [|c cs IH]; intros s buf wl pos s' buf' wl' pos' H Hcs Hbuf Hwl; cbn [fl_chars] in H.
  - injection H as <- <- <- <-. auto 6.
  - apply nodoc_cons in Hcs. destruct Hcs as [Hc Hcs].
    destruct (swidth_ s <? pos + cw0 c).
    + match type of H with
      | fl_chars (add_line s (RText ?wl1)) _ _ _ _ _ = _ => set (w1 := wl1) in *
      end.
      assert (Ew : mline w1 = []).
      { unfold w1. destruct buf as [|b0 buf0]; [exact Hwl|].
        rewrite pline_push_str, Hwl, (nodoc_pchars _ Hbuf). reflexivity. }
      destruct (add_line_m s (RText w1)) as (A & B & C & D).
      destruct (IH _ _ _ _ _ _ _ _ H Hcs) as (A' & B' & C' & D' & E' & F').
      { apply nodoc_cons. split; [exact Hc|apply nodoc_nil]. }
      { reflexivity. }
      split; [rewrite A', A; cbn [mrline]; rewrite Ew, app_nil_r; reflexivity|].
      split; [exact B'|]. split; [exact C'|]. split; [congruence|]. split; [congruence|auto].
    + apply (IH _ _ _ _ _ _ _ _ H Hcs); [|exact Hwl].
      apply nodoc_app; [exact Hbuf|]. apply nodoc_cons. split; [exact Hc|apply nodoc_nil].
Qed.

Lemma fl_strings_m : forall strs s wl pos s' wl',
  fl_strings s strs wl pos = (s', wl') ->
  Forall (fun p => nodoc (nl_to_space (fst p))) strs -> mline wl = [] ->
  mlp s' = mlp s /\ mline wl' = [] /\ wrapping s' = wrapping s /\ sopts s' = sopts s /\
  (pfc s -> pfc s').
Proof.
  induction strs as [|[str tg] strs IH]; intros s wl pos s' wl' H HF Hwl; cbn [fl_strings] in H.
  - injection H as <- <-. auto 6.
  - pose proof (Forall_inv HF) as H1. pose proof (Forall_inv_tail HF) as H2. cbn [fst] in H1.
    destruct (o_wrap_links (sopts s) && (swidth_ s <? pos + swidth (nl_to_space str))).
    + destruct (fl_chars s [ADefault] (nl_to_space str) [] wl pos) as [[[s1 buf] wl1] pos1] eqn:Ef.
      destruct (fl_chars_m _ _ _ _ _ _ _ _ _ _ Ef H1 nodoc_nil Hwl) as (A & B & C & D & E & F).
      destruct (IH _ _ _ _ _ H H2) as (A' & B' & C' & D' & E').
      { rewrite pline_push_str, C, (nodoc_pchars _ B). reflexivity. }
      split; [congruence|]. split; [exact B'|]. split; [congruence|]. split; [congruence|auto].
    + apply (IH _ _ _ _ _ H H2). rewrite pline_push_str, Hwl, (nodoc_pchars _ H1). reflexivity.
Qed.

Definition entry_made (l : tline) : Prop :=
  Forall (fun p => nodoc (nl_to_space (fst p))) (tl_tagged_strings l).

Lemma fmt_links_m : forall links s, Forall entry_made links ->
  mlp (fmt_links s links) = mlp s /\ wrapping (fmt_links s links) = wrapping s /\
  sopts (fmt_links s links) = sopts s /\ (pfc s -> pfc (fmt_links s links)).
Proof.
  induction links as [|l links IH]; intros s HF; cbn [fmt_links]; [auto|].
  destruct (fl_strings s (tl_tagged_strings l) tl_new 0) as [s1 wl] eqn:Ef.
  destruct (fl_strings_m _ _ _ _ _ _ Ef (Forall_inv HF) eq_refl) as (A & B & C & D & E).
  destruct (add_line_m s1 (RText wl)) as (A1 & B1 & C1 & D1).
  destruct (IH (add_line s1 (RText wl)) (Forall_inv_tail HF)) as (A2 & B2 & C2 & D2).
  split; [rewrite A2, A1, A; cbn [mrline]; rewrite B, app_nil_r; reflexivity|].
  split; [congruence|]. split; [congruence|auto].
Qed.

Lemma finalise_entries_made urls : forall k, Forall entry_made (finalise_from k urls).
Proof.
  induction urls as [|u urls IH]; intros k; cbn [finalise_from]; constructor; [|apply IH].
  pose proof (Forall_inv (finalise_entries_nodoc (u :: urls) k)) as H. cbn [finalise_from] in H.
  unfold entry_text in H. rewrite tl_string_from_string in H.
  unfold entry_made, tl_tagged_strings, tl_from_string. cbn [tv flat_map app].
  constructor; [exact H|constructor].
Qed.

(* render_tree = render_node into a fresh sub-renderer, then (maybe) the footnote list *)
Lemma render_tree_body_m x d mw o width tree s :
  render_tree d mw o width tree = Ok s ->
  exists st body,
    render_node d mw tree (mkrst [sub_new width o] []) = Ok st /\ stack st = [body] /\
    (Jx x body -> Jx x s /\ mstream_out s = mstream_out body).
Proof.
  intros H. destruct (render_tree_footnotes d mw o width tree s H) as (st & body & A & B & _ & _ & _ & F).
  exists st, body. split; [exact A|]. split; [exact B|]. intros Hj.
  destruct (if o_footnotes o then link_targets d mw o tree width else []) as [|u L'].
  - subst s. auto.
  - destruct F as (b1 & Hb1 & ->). destruct (start_block_opM x _ _ Hb1 Hj) as [(P1 & O1 & W1) E1].
    rewrite app_nil_r in E1. pose proof (start_block_none _ _ Hb1) as En.
    destruct (fmt_links_m (finalise_from 1 (link_targets d mw o tree width)) b1
                (finalise_entries_made _ 1)) as (A2 & B2 & C2 & D2).
    split; [apply Jx_none; [auto|exact (ofx_ext x _ _ C2 O1)|congruence]|].
    rewrite <- E1. unfold mstream_out. rewrite A2, B2. reflexivity.
Qed.

(* TABLE-FREE TREES, render_tree.  Markers still waiting at the very end (recorded after the
   last text line: no visible document character follows them in the whole document) are
   dropped by sub_into_lines - or, when a footnote list follows, attached to its first line
   (both allowed by `btw`: they are not in strip (mstream_min ...)). *)
Theorem c14_render_tree_gen : forall x d mw o width tree s,
  prefix_made d -> (x = true -> o_allow_overflow o = false) -> no_table tree = true ->
  render_tree d mw o width tree = Ok s ->
  btw (mstream_min d tree) (mstream_out s) (mstream_tree d tree) /\
  forall ls, sub_into_lines s = Ok ls ->
             btw (strip (mstream_min d tree)) (mlines ls) (mstream_tree d tree).
Proof.
  intros x d mw o width tree s Hd Ho Hn H.
  destruct (render_tree_body_m x _ _ _ _ _ _ H) as (st & body & A & B & C).
  destruct (c14_render_node_gen x d mw tree (mkrst [sub_new width o] []) st (sub_new width o) []
              Hd Hn eq_refl (Jx_sub_new x width o Ho) A) as (s' & t & E1 & Hj & St & B1 & B2).
  rewrite B in E1. injection E1 as <-. destruct (C Hj) as [Js Es].
  assert (Hb : btw (mstream_min d tree) (mstream_out s) (mstream_tree d tree)).
  { rewrite Es, St. split; assumption. }
  split; [exact Hb|]. intros ls Hls.
  destruct (sub_into_lines_m x _ _ Hls Js) as (waiting & Ew & Hw).
  exact (btw_cut _ _ _ _ _ Hb Ew Hw).
Qed.

Theorem c14_render_tree_no_table : forall d mw o width tree s,
  prefix_made d -> o_allow_overflow o = false -> no_table tree = true ->
  render_tree d mw o width tree = Ok s ->
  btw (mstream_min d tree) (mstream_out s) (mstream_tree d tree) /\
  forall ls, sub_into_lines s = Ok ls ->
             btw (strip (mstream_min d tree)) (mlines ls) (mstream_tree d tree).
Proof.
  intros d mw o width tree s Hd Ho Hn H.
  exact (c14_render_tree_gen true d mw o width tree s Hd (fun _ => Ho) Hn H).
Qed.
Print Assumptions c14_render_tree_no_table.

(* NEW: the same without the hypothesis o_allow_overflow o = false *)
Theorem c14_render_tree_no_table_any_overflow : forall d mw o width tree s,
  prefix_made d -> no_table tree = true ->
  render_tree d mw o width tree = Ok s ->
  btw (mstream_min d tree) (mstream_out s) (mstream_tree d tree) /\
  forall ls, sub_into_lines s = Ok ls ->
             btw (strip (mstream_min d tree)) (mlines ls) (mstream_tree d tree).
Proof.
  intros d mw o width tree s Hd Hn H.
  refine (c14_render_tree_gen false d mw o width tree s Hd _ Hn H). discriminate.
Qed.
Print Assumptions c14_render_tree_no_table_any_overflow.

Lemma mline_into_tagged r : mline (rline_into_tagged r) = mrline r.
Proof.
  destruct r as [l|b t]; cbn [rline_into_tagged mrline]; [reflexivity|].
  rewrite pline_push, pline_new. cbn [pel app]. fold (pchars docp (border_string b)).
  apply nodoc_pchars, nodoc_border.
Qed.

(* the public route: the annotated lines returned by lines_from_read *)
Theorem c14_lines_from_read_gen : forall x ist dr (c : config) doc width tree tls,
  prefix_made (c_deco c) -> (x = true -> c_overflow c = false) ->
  to_render_tree ist dr c doc = Ok tree -> no_table tree = true ->
  lines_from_read ist dr c doc width = Ok tls ->
  btw (strip (mstream_min (c_deco c) tree)) (flat_map mline tls) (mstream_tree (c_deco c) tree).
Proof.
  intros x ist dr c doc width tree tls Hd Ho Ht Hn H. unfold lines_from_read in H. rewrite Ht in H.
  cbn [bind] in H. bind_inv H s Hs. unfold render_with_context in Hs.
  destruct (width =? 0); [discriminate|]. bind_inv H ls Hls. ok_inv H.
  rewrite flat_map_concat_map, map_map, <- flat_map_concat_map.
  rewrite (flat_map_ext _ _ mline_into_tagged).
  exact (proj2 (c14_render_tree_gen x (c_deco c) (c_min_wrap c) (render_options c) width tree s
                  Hd Ho Hn Hs) ls Hls).
Qed.

Theorem c14_lines_from_read : forall ist dr (c : config) doc width tree tls,
  prefix_made (c_deco c) -> c_overflow c = false ->
  to_render_tree ist dr c doc = Ok tree -> no_table tree = true ->
  lines_from_read ist dr c doc width = Ok tls ->
  btw (strip (mstream_min (c_deco c) tree)) (flat_map mline tls) (mstream_tree (c_deco c) tree).
Proof.
  intros ist dr c doc width tree tls Hd Ho.
  exact (c14_lines_from_read_gen true ist dr c doc width tree tls Hd (fun _ => Ho)).
Qed.
Print Assumptions c14_lines_from_read.

(* NEW: the same without the hypothesis c_overflow c = false *)
Theorem c14_lines_from_read_any_overflow : forall ist dr (c : config) doc width tree tls,
  prefix_made (c_deco c) ->
  to_render_tree ist dr c doc = Ok tree -> no_table tree = true ->
  lines_from_read ist dr c doc width = Ok tls ->
  btw (strip (mstream_min (c_deco c) tree)) (flat_map mline tls) (mstream_tree (c_deco c) tree).
Proof.
  intros ist dr c doc width tree tls Hd.
  refine (c14_lines_from_read_gen false ist dr c doc width tree tls Hd _). discriminate.
Qed.
Print Assumptions c14_lines_from_read_any_overflow.

(* ================================================================== *)
(* 8. The property in its own words                                     *)
(* ================================================================== *)

Lemma msub_split x y : msub x y -> forall a i b, x = a ++ i :: b ->
  exists a' b', y = a' ++ i :: b' /\ msub a a' /\ msub b b'.
Proof.
  induction 1 as [|x0 a0 b0 Hab IH|m a0 b0 Hab IH]; intros a i b E.
  - destruct a; discriminate.
  - destruct a as [|x1 a1]; cbn [app] in E; injection E as -> ->.
    + exists [], b0. split; [reflexivity|]. split; [constructor|exact Hab].
    + destruct (IH a1 i b eq_refl) as (a' & b' & -> & Ha & Hb).
      exists (x1 :: a'), b'. split; [reflexivity|]. split; [constructor; exact Ha|exact Hb].
  - destruct (IH a i b E) as (a' & b' & -> & Ha & Hb).
    exists (inl m :: a'), b'. split; [reflexivity|]. split; [constructor; exact Ha|exact Hb].
Qed.

Lemma projl_cons_inl m x : projl (inl m :: x) = m :: projl x.
Proof. reflexivity. Qed.
Lemma projl_cons_inr c x : projl (inr c :: x) = projl x.
Proof. reflexivity. Qed.

Lemma msub_projl_in a b : msub a b -> forall m, In m (projl a) -> In m (projl b).
Proof.
  induction 1 as [|x a b _ IH|m0 a b _ IH]; intros m Hin; [exact Hin| |].
  - destruct x as [m1|c].
    + rewrite projl_cons_inl in *. destruct Hin as [->|Hin]; [left; reflexivity|right; apply IH, Hin].
    + rewrite projl_cons_inr in *. apply IH, Hin.
  - rewrite projl_cons_inl. right. apply IH, Hin.
Qed.

Lemma msub_projl_nodup a b : msub a b -> NoDup (projl b) -> NoDup (projl a).
Proof.
  induction 1 as [|x a b Hab IH|m0 a b Hab IH]; intros Hnd; [exact Hnd| |].
  - destruct x as [m1|c].
    + rewrite projl_cons_inl in *. inversion Hnd as [|? ? Hni Hnd']; subst. constructor; [|apply IH, Hnd'].
      intros Hin. apply Hni. exact (msub_projl_in _ _ Hab _ Hin).
    + rewrite projl_cons_inr in *. apply IH, Hnd.
  - rewrite projl_cons_inl in Hnd. inversion Hnd; subst. apply IH. assumption.
Qed.

(* a marker with a visible document character somewhere behind it survives `strip` *)
Lemma strip_keep a b : projr b <> [] -> strip (a ++ b) = a ++ strip b.
Proof.
  intros Hb. induction a as [|i a IH]; [reflexivity|]. cbn [app strip]. rewrite IH.
  destruct (a ++ strip b) as [|j r] eqn:E; [|destruct i; reflexivity].
  exfalso. apply Hb. apply app_eq_nil in E. destruct E as [_ E]. rewrite <- strip_projr, E. reflexivity.
Qed.

(* For a table-free document rendered through lines_from_read (without overflow; with any
   overflow setting: c14_markers_any_overflow below), with O the
   stream of the annotated output lines and T the stream of the render tree:
   (1) the visible document characters of O are those of T (the markers change nothing);
   (2) every marker of the output is a marker of the tree, with exactly the visible document
       characters of the tree before it and behind it: never invented, never moved;
   (3) every marker of the tree that has a visible document character behind it inside its
       nested sub-renderers (strip (mstream_min ...)) is in the output, with exactly the same
       visible document characters before it and behind it;
   (4) if the ids of the tree are distinct, so are the markers of the output (none duplicated:
       with (3), such a marker occurs exactly once). *)
Lemma markers_of_btw (M O T : list sitem) :
  btw M O T ->
  projr O = projr T /\
  (forall a name b, O = a ++ inl name :: b ->
     exists a' b', T = a' ++ inl name :: b' /\ projr a' = projr a /\ projr b' = projr b) /\
  (forall a name b, M = a ++ inl name :: b ->
     exists a' b', O = a' ++ inl name :: b' /\ projr a' = projr a /\ projr b' = projr b) /\
  (NoDup (projl T) -> NoDup (projl O)).
Proof.
  intros [B1 B2].
  split; [exact (msub_projr _ _ B2)|]. split; [|split].
  - intros a name b E. destruct (msub_split _ _ B2 a (inl name) b E) as (a' & b' & E' & Ha & Hb).
    exists a', b'. split; [exact E'|]. split; symmetry; apply msub_projr; assumption.
  - intros a name b E. destruct (msub_split _ _ B1 a (inl name) b E) as (a' & b' & E' & Ha & Hb).
    exists a', b'. split; [exact E'|]. split; symmetry; apply msub_projr; assumption.
  - apply msub_projl_nodup, B2.
Qed.

Corollary c14_markers : forall ist dr (c : config) doc width tree tls,
  prefix_made (c_deco c) -> c_overflow c = false ->
  to_render_tree ist dr c doc = Ok tree -> no_table tree = true ->
  lines_from_read ist dr c doc width = Ok tls ->
  let O := flat_map mline tls in
  let T := mstream_tree (c_deco c) tree in
  let M := strip (mstream_min (c_deco c) tree) in
  projr O = projr T /\
  (forall a name b, O = a ++ inl name :: b ->
     exists a' b', T = a' ++ inl name :: b' /\ projr a' = projr a /\ projr b' = projr b) /\
  (forall a name b, M = a ++ inl name :: b ->
     exists a' b', O = a' ++ inl name :: b' /\ projr a' = projr a /\ projr b' = projr b) /\
  (NoDup (projl T) -> NoDup (projl O)).
Proof.
  intros ist dr c doc width tree tls Hd Ho Ht Hn H O T M.
  exact (markers_of_btw M O T (c14_lines_from_read _ _ _ _ _ _ _ Hd Ho Ht Hn H)).
Qed.
Print Assumptions c14_markers.

(* NEW: the same without the hypothesis c_overflow c = false *)
Corollary c14_markers_any_overflow : forall ist dr (c : config) doc width tree tls,
  prefix_made (c_deco c) ->
  to_render_tree ist dr c doc = Ok tree -> no_table tree = true ->
  lines_from_read ist dr c doc width = Ok tls ->
  let O := flat_map mline tls in
  let T := mstream_tree (c_deco c) tree in
  let M := strip (mstream_min (c_deco c) tree) in
  projr O = projr T /\
  (forall a name b, O = a ++ inl name :: b ->
     exists a' b', T = a' ++ inl name :: b' /\ projr a' = projr a /\ projr b' = projr b) /\
  (forall a name b, M = a ++ inl name :: b ->
     exists a' b', O = a' ++ inl name :: b' /\ projr a' = projr a /\ projr b' = projr b) /\
  (NoDup (projl T) -> NoDup (projl O)).
Proof.
  intros ist dr c doc width tree tls Hd Ht Hn H O T M.
  exact (markers_of_btw M O T (c14_lines_from_read_any_overflow _ _ _ _ _ _ _ Hd Ht Hn H)).
Qed.
Print Assumptions c14_markers_any_overflow.

(* the characters of mstream_tree are RenderConserve.doc_stream (property C03) *)
Lemma projr_mchars t : projr (mchars t) = doc_chars t.
Proof. apply projr_map_inr. Qed.

Lemma projr_flat_map {A} (f : A -> list sitem) (g : A -> text) (l : list A) :
  Forall (fun a => projr (f a) = g a) l -> projr (flat_map f l) = flat_map g l.
Proof.
  induction 1 as [|a l Ha _ IH]; cbn [flat_map]; [reflexivity|]. rewrite projr_app, Ha, IH. reflexivity.
Qed.

Lemma Forall_no_table (P : rnode -> Prop) cs :
  Forall (fun n => no_table n = true -> P n) cs -> forallb no_table cs = true -> Forall P cs.
Proof.
  induction 1 as [|c cs Hc _ IH]; intros Hn; [constructor|].
  cbn [forallb] in Hn. apply andb_true_iff in Hn. destruct Hn as [H1 H2]. constructor; auto.
Qed.

Theorem mstream_tree_chars d : forall n, no_table n = true ->
  projr (mstream_tree d n) = doc_stream d n.
Proof.
  apply (rnode_ind' (fun n => no_table n = true -> projr (mstream_tree d n) = doc_stream d n)).
  intros i sty IH Hn. pose proof (no_table_kids _ _ Hn) as Hk. unfold mstream_tree in *.
  destruct i; cbn [direct_kids] in IH, Hk; try discriminate Hn;
    cbn [mtree doc_stream rn_info];
    try match goal with |- context [sup_digits ?cs] => destruct (sup_digits cs) end;
    rewrite ?projr_app, ?projr_mchars; try reflexivity;
    try (rewrite (projr_flat_map _ (doc_stream d) _ (Forall_no_table _ _ IH Hk)); reflexivity).
  all: exact (projr_flat_map (fun c => mtree (fun x => x) d c) (doc_stream d) _
                (Forall_no_table _ _ IH Hk)).
Qed.
Print Assumptions mstream_tree_chars.

(* ================================================================== *)
(* 9. Non-vacuity examples and findings                                 *)
(* ================================================================== *)

(* a stream shown as marker names (inl code points) and characters (inr code point) *)
Definition fx_sh (l : list sitem) : list (list N + N) :=
  map (fun x => match x with inl n => inl (cps n) | inr c => inr (cp c) end) l.
Definition fx_rline (r : rline) : list (list N + list N) :=
  match r with RText l => show_line l | RLine _ _ => [] end.
Definition fx_lines (r : res subr) : res (list (list (list N + list N))) :=
  do s <- r; do ls <- sub_into_lines s; Ok (map fx_rline ls).
Definition fx_out (r : res subr) : res (list (list N + N)) :=
  do s <- r; do ls <- sub_into_lines s; Ok (fx_sh (mlines ls)).
Definition fx_fr (l : list N) : rnode := cx_n (IFragStart (of_ascii l)).
Definition fx_o : ropts := render_options cfg_plain.

(* ---- (A) a render tree, as Dom.process builds it for
     <h2 id=h>Hi <em>you</em></h2><p>ab <a id=k href=u>cd</a> efgh ij</p>
     <ul id=l><li id=i>one two three</li><li>A<span id=e1></span></li><li>B <span id=e2></span></li></ul>
     <blockquote id=q><p id=p>q r</p></blockquote><span id=z></span>
   plain decorator, footnotes on, width 9 (the list item wraps) ---- *)
Definition fx1 : rnode :=
  cx_n (IContainer
    [ cx_n (IContainer [fx_fr [104];
        cx_n (IHeader 2 [cx_t 16 [72;105;32]; cx_n (IEm [cx_t 20 [121;111;117]])])]);
      cx_n (IBlock [cx_t 30 [97;98;32];
                    cx_n (IContainer [fx_fr [107]; cx_n (ILink (Al 200 [117]) [cx_t 40 [99;100]])]);
                    cx_t 45 [32;101;102;103;104;32;105;106]]);
      cx_n (IContainer [fx_fr [108];
        cx_n (IUl [cx_n (IListItem [fx_fr [105];
                                    cx_t 70 [111;110;101;32;116;119;111;32;116;104;114;101;101]]);
                   cx_n (IListItem [cx_t 84 [65]; fx_fr [101;49]]);
                   cx_n (IListItem [cx_t 86 [66;32]; fx_fr [101;50]])])]);
      cx_n (IBlockQuote [fx_fr [113]; cx_n (IBlock [fx_fr [112]; cx_t 100 [113;32;114]])]);
      fx_fr [122] ]).

Example fx1_output :
  fx_lines (render_tree plain_deco 3 fx_o 9 fx1) =
  Ok [[inl [104]; inr [35; 35; 32; 72; 105; 32]; inr [121; 111; 117]];      (* <h>## Hi you *)
      []; [inr [97; 98]];                                                    (* ab *)
      [inl [107]; inr [91; 99; 100; 93]; inr [91; 49; 93]];                  (* <k>[cd][1] *)
      [inr [101; 102; 103; 104; 32; 105; 106]];                              (* efgh ij *)
      [inl [108]; inr [42; 32]; inl [105]; inr [111; 110; 101; 32; 116; 119; 111]]; (* <l>* <i>one two *)
      [inr [32; 32; 116; 104; 114; 101; 101]];                               (*   three *)
      [inr [42; 32; 65]];                                                    (* * A      (e1 dropped) *)
      [inr [42; 32; 66]]; [];                                                (* * B      (e2 dropped) *)
      [inr [62; 32]; inl [113]; inl [112]; inr [113; 32; 114]];              (* > <q><p>q r *)
      [inl [122]];                                                           (* <z> on the separator line *)
      [inr [91; 49; 93; 58; 32; 117]]].                                      (* [1]: u *)
Proof. vm_compute. reflexivity. Qed.

Example fx1_hyps :
  no_table fx1 = true /\ o_allow_overflow fx_o = false /\
  exists s, render_tree plain_deco 3 fx_o 9 fx1 = Ok s.
Proof. split; [reflexivity|]. split; [reflexivity|]. eexists. vm_compute. reflexivity. Qed.

(* the theorem applies ... *)
Example fx1_theorem : forall s ls,
  render_tree plain_deco 3 fx_o 9 fx1 = Ok s -> sub_into_lines s = Ok ls ->
  btw (strip (mstream_min plain_deco fx1)) (mlines ls) (mstream_tree plain_deco fx1).
Proof.
  intros s ls H Hls.
  exact (proj2 (c14_render_tree_no_table plain_deco 3 fx_o 9 fx1 s prefix_made_plain eq_refl eq_refl H)
               ls Hls).
Qed.

(* ... and this is what it says here: the tree has 9 markers; e1 (behind "A"), e2 (behind "B ",
   nothing visible follows in their list items) and z (nothing visible follows in the document)
   are not in the lower bound; the output has all of the lower bound, and z (attached to the
   line that separates the footnote list) but neither e1 nor e2: both bounds are strict here.
   (Since take_trailing_fragments takes the markers that trail the last text of the word, e1 -
   which sits in the word of "A" - goes to pending_frags of the item's sub-renderer like e2 and
   is dropped with it.)  A marker outside the lower bound still survives when white space
   behind it has flushed its word onto the line: fx1_end_dropped. *)
Example fx1_streams :
  fx_sh (mstream_tree plain_deco fx1) =
    [inl [104]; inr 72; inr 105; inr 121; inr 111; inr 117; inr 97; inr 98; inl [107]; inr 99;
     inr 100; inr 101; inr 102; inr 103; inr 104; inr 105; inr 106; inl [108]; inl [105]; inr 111;
     inr 110; inr 101; inr 116; inr 119; inr 111; inr 116; inr 104; inr 114; inr 101; inr 101;
     inr 65; inl [101; 49]; inr 66; inl [101; 50]; inl [113]; inl [112]; inr 113; inr 114; inl [122]] /\
  fx_sh (strip (mstream_min plain_deco fx1)) =
    [inl [104]; inr 72; inr 105; inr 121; inr 111; inr 117; inr 97; inr 98; inl [107]; inr 99;
     inr 100; inr 101; inr 102; inr 103; inr 104; inr 105; inr 106; inl [108]; inl [105]; inr 111;
     inr 110; inr 101; inr 116; inr 119; inr 111; inr 116; inr 104; inr 114; inr 101; inr 101;
     inr 65; inr 66; inl [113]; inl [112]; inr 113; inr 114] /\
  fx_out (render_tree plain_deco 3 fx_o 9 fx1) = Ok
    [inl [104]; inr 72; inr 105; inr 121; inr 111; inr 117; inr 97; inr 98; inl [107]; inr 99;
     inr 100; inr 101; inr 102; inr 103; inr 104; inr 105; inr 106; inl [108]; inl [105]; inr 111;
     inr 110; inr 101; inr 116; inr 119; inr 111; inr 116; inr 104; inr 114; inr 101; inr 101;
     inr 65; inr 66; inl [113]; inl [112]; inr 113; inr 114; inl [122]].
Proof. repeat split; vm_compute; reflexivity. Qed.

(* <p id=p>a </p><span id=z></span>: without a footnote list a marker still waiting at the very
   end is dropped, whether the white space behind "a" has closed the word or (<p id=p>a</p>) the
   marker trails "a" in the last word (take_trailing_fragments takes it from there);
   <p id=p>a<span id=z></span> </p>: a marker that white space has flushed onto the line with
   its word stays, although nothing visible follows it *)
Example fx1_end_dropped :
  fx_out (render_tree plain_deco 3 (render_options (set_footnotes cfg_plain false)) 30
            (cx_n (IContainer [cx_n (IBlock [fx_fr [112]; cx_t 16 [97;32]]); fx_fr [122]]))) =
  Ok [inl [112]; inr 97] /\
  fx_out (render_tree plain_deco 3 (render_options (set_footnotes cfg_plain false)) 30
            (cx_n (IContainer [cx_n (IBlock [fx_fr [112]; cx_t 16 [97]]); fx_fr [122]]))) =
  Ok [inl [112]; inr 97] /\
  fx_out (render_tree plain_deco 3 (render_options (set_footnotes cfg_plain false)) 30
            (cx_n (IContainer [cx_n (IBlock [fx_fr [112]; cx_t 16 [97]; fx_fr [122]; cx_t 18 [32]])]))) =
  Ok [inl [112]; inr 97; inl [122]].
Proof. repeat split; vm_compute; reflexivity. Qed.

(* ---- (B) the public route: the same document as a DOM through lines_from_read ---- *)
Definition fx_el (name id : list N) (kids : list node) : node :=
  NElem true (of_ascii name)
        (match id with [] => [] | _ => [(of_ascii [105;100], of_ascii id)] end) kids.
Definition fx_a (id : list N) (href : text) (kids : list node) : node :=
  NElem true (of_ascii [97]) [(of_ascii [105;100], of_ascii id); (of_ascii s_href, href)] kids.
Definition fx_span := [115;112;97;110].
Definition fx_dom : list node :=
  [ fx_el [104;50] [104] [NText (Al 16 [72;105])];
    fx_el [112] [] [NText (Al 30 [97;98;32]); fx_a [107] (Al 200 [117]) [NText (Al 40 [99;100])];
                    NText (Al 45 [32;101;102;103;104;32;105;106])];
    fx_el [117;108] [108]
       [ fx_el [108;105] [105] [NText (Al 70 [111;110;101;32;116;119;111;32;116;104;114;101;101])];
         fx_el [108;105] [] [NText (Al 84 [65]); fx_el fx_span [101;49] []];
         fx_el [108;105] [] [NText (Al 86 [66;32]); fx_el fx_span [101;50] []] ];
    fx_el [98;108;111;99;107;113;117;111;116;101] [113] [fx_el [112] [112] [NText (Al 100 [113;32;114])]];
    fx_el fx_span [122] [] ].

Example fx_dom_lines :
  (do ls <- lines_from_read cx_ist cx_dr cfg_plain fx_dom 9; Ok (map show_line ls)) =
  Ok [[inl [104]; inr [35; 35; 32; 72; 105]]; []; [inr [97; 98]];
      [inl [107]; inr [91; 99; 100; 93]; inr [91; 49; 93]];
      [inr [101; 102; 103; 104; 32; 105; 106]];
      [inl [108]; inr [42; 32]; inl [105]; inr [111; 110; 101; 32; 116; 119; 111]];
      [inr [32; 32; 116; 104; 114; 101; 101]];
      [inr [42; 32; 65]]; [inr [42; 32; 66]]; [];
      [inr [62; 32]; inl [113]; inl [112]; inr [113; 32; 114]];
      [inl [122]]; [inr [91; 49; 93; 58; 32; 117]]].
Proof. vm_compute. reflexivity. Qed.

Example fx_dom_theorem : forall tree tls,
  to_render_tree cx_ist cx_dr cfg_plain fx_dom = Ok tree ->
  lines_from_read cx_ist cx_dr cfg_plain fx_dom 9 = Ok tls ->
  let O := flat_map mline tls in
  projr O = projr (mstream_tree plain_deco tree) /\
  (forall a name b, strip (mstream_min plain_deco tree) = a ++ inl name :: b ->
     exists a' b', O = a' ++ inl name :: b' /\ projr a' = projr a /\ projr b' = projr b) /\
  NoDup (projl O).
Proof.
  intros tree tls Ht H.
  assert (Hn : no_table tree = true /\ NoDup (map cps (projl (mstream_tree plain_deco tree)))).
  { vm_compute in Ht. injection Ht as <-. split; [vm_compute; reflexivity|].
    vm_compute. repeat (constructor; [cbn [In]; intuition discriminate|]). constructor. }
  destruct Hn as [Hn Hd].
  destruct (c14_markers cx_ist cx_dr cfg_plain fx_dom 9 tree tls prefix_made_plain eq_refl Ht Hn H)
    as (A & _ & C & D).
  split; [exact A|]. split; [exact C|]. apply D. exact (NoDup_map_inv _ _ Hd).
Qed.

(* ---- REPAIRED FINDING marker_lost_after_overflowing_char (probe
     h2t-harness one 1 1 0 '<div>世<span id="x"><p>abc</p></span></div>' overflow ).
   With allow_width_overflow, a marker recorded right behind a character that is wider than
   the wrapping block (U+4E16 at width 1), whose element then starts a new block, used to be
   LOST although its element has visible content "abc": the word is [Str "世"; Frag x];
   take_trailing_fragments took nothing (the word has a Str); wb_into_lines -> flush_word ->
   hard wrap: hw_scan's overflow branch takes the whole piece, force_flush_line, rest = [] so
   nothing is pushed on the new current line, then hw_elems pushed Frag x on that EMPTY line;
   wb_flush's flush_line leaves a line that `is_empty` (no Str) where it is and wb_into_lines
   returns the finished lines only.
   Now take_trailing_fragments takes the markers that trail the last text of the word
   (Wrap.trailing_frags): Frag x goes to pending_frags and add_line puts it in front of the
   next text line (here the empty line start_block puts between the blocks). ---- *)
Definition fx_wide (k : N) : chr := mkchr 19990 (Some 2) false k.
Definition fx_oo : ropts := render_options (set_overflow cfg_plain).
Definition fx2 (c : chr) : rnode :=
  cx_n (IContainer [cx_n (IText [c]); fx_fr [120]; cx_n (IBlock [cx_t 20 [97;98;99]])]).

Example marker_kept_after_overflowing_char :
  (* the marker x has visible content behind it ... *)
  fx_sh (strip (mstream_min plain_deco (fx2 (fx_wide 16)))) = [inr 19990; inl [120]; inr 97; inr 98; inr 99] /\
  (* ... and is in the output, between the wide character and "abc" *)
  fx_lines (render_tree plain_deco 3 fx_oo 1 (fx2 (fx_wide 16))) =
    Ok [[inr [19990]]; [inl [120]]; [inr [97]]; [inr [98]]; [inr [99]]] /\
  fx_out (render_tree plain_deco 3 fx_oo 1 (fx2 (fx_wide 16))) =
    Ok [inr 19990; inl [120]; inr 97; inr 98; inr 99] /\
  (* with a character that fits it is at the same place *)
  fx_lines (render_tree plain_deco 3 fx_oo 1 (fx2 (mkchr 65 (Some 1) false 16))) =
    Ok [[inr [65]]; [inl [120]]; [inr [97]]; [inr [98]]; [inr [99]]] /\
  (* and when the element does not start a new block the marker is there too *)
  fx_lines (render_tree plain_deco 3 fx_oo 1
              (cx_n (IContainer [cx_n (IText [fx_wide 16]); fx_fr [120]; cx_t 20 [97;98;99]]))) =
    Ok [[inr [19990]]; [inl [120]; inr [97]]; [inr [98]]; [inr [99]]].
Proof. repeat split; vm_compute; reflexivity. Qed.

(* from HTML:  <div>世<span id=x><p>abc</p></span></div>  width 1, overflow allowed *)
Definition fx_dom2 : list node :=
  [ fx_el [100;105;118] [] [NText [fx_wide 16];
      fx_el fx_span [120] [fx_el [112] [] [NText (Al 20 [97;98;99])]]] ].
Example marker_kept_after_overflowing_char_from_html :
  (do ls <- lines_from_read cx_ist cx_dr (set_overflow cfg_plain) fx_dom2 1; Ok (map show_line ls)) =
    Ok [[inr [19990]]; [inl [120]]; [inr [97]]; [inr [98]]; [inr [99]]] /\
  (do t <- to_render_tree cx_ist cx_dr (set_overflow cfg_plain) fx_dom2;
   Ok (no_table t, fx_sh (strip (mstream_min plain_deco t)))) =
    Ok (true, [inr 19990; inl [120]; inr 97; inr 98; inr 99]).
Proof. split; vm_compute; reflexivity. Qed.

(* ---- REPAIRED FINDING marker_lost_after_overflowing_char_and_space (probe
     h2t-harness one 1 1 0 '<div>世<span id="x"> <p>abc</p></span></div>' overflow  used to give
     lines [世] [] [a] [b] [c] without Frag x; with 'A' instead of '世': [A <x>] [] [a] [b] [c]).
   The first repair (take_trailing_fragments) covers the markers still in the pending word when
   the block is flushed.  When white space follows the marker
   ( <div>世<span id="x"> <p>abc</p></span></div> , width 1, overflow allowed) the space makes
   add_char call flush_word on the word [Str "世"; Frag x] BEFORE the block ends: the hard-wrap
   path leaves Frag x alone on the current line, the word is empty, so take_trailing_fragments
   has nothing to take, wb_flush's flush_line does not flush a line that `is_empty`, and
   wb_into_lines returned the finished lines only: the marker was thrown away although "abc"
   follows.
   Now flush_wrapping calls wb_into_lines_markers, which also returns the elements left on that
   unfinished last line (markers only), and puts them into pending_frags in front of the
   trailing markers of the word: add_line attaches them to the next text line (here the empty
   line start_block puts between the blocks), exactly where the marker of the variant without
   the space goes.  With that the stream equation of flush_wrapping (flush_wrapping_m) needs no
   invariant of the wrapping block any more, and the main theorems hold for every overflow
   setting (the ..._any_overflow theorems of section 7). ---- *)
Definition fx3 (c : chr) : rnode :=
  cx_n (IContainer [cx_n (IText [c]); fx_fr [120]; cx_t 18 [32]; cx_n (IBlock [cx_t 20 [97;98;99]])]).
Definition fx_dom3 : list node :=
  [ fx_el [100;105;118] [] [NText [fx_wide 16];
      fx_el fx_span [120] [NText (Al 18 [32]); fx_el [112] [] [NText (Al 20 [97;98;99])]]] ].
Example marker_kept_after_overflowing_char_and_space :
  (* the marker x has visible content behind it ... *)
  fx_sh (strip (mstream_min plain_deco (fx3 (fx_wide 16)))) = [inr 19990; inl [120]; inr 97; inr 98; inr 99] /\
  (* ... and is in the output, between the wide character and "abc" (on the line that
     separates the blocks, like in marker_kept_after_overflowing_char) *)
  fx_lines (render_tree plain_deco 3 fx_oo 1 (fx3 (fx_wide 16))) =
    Ok [[inr [19990]]; [inl [120]]; [inr [97]]; [inr [98]]; [inr [99]]] /\
  fx_out (render_tree plain_deco 3 fx_oo 1 (fx3 (fx_wide 16))) =
    Ok [inr 19990; inl [120]; inr 97; inr 98; inr 99] /\
  (* with a character that fits it is at the end of the line of that character, as before *)
  fx_lines (render_tree plain_deco 3 fx_oo 1 (fx3 (mkchr 65 (Some 1) false 16))) =
    Ok [[inr [65]; inl [120]]; []; [inr [97]]; [inr [98]]; [inr [99]]] /\
  (* the same from HTML *)
  (do ls <- lines_from_read cx_ist cx_dr (set_overflow cfg_plain) fx_dom3 1; Ok (map show_line ls)) =
    Ok [[inr [19990]]; [inl [120]]; [inr [97]]; [inr [98]]; [inr [99]]] /\
  (do t <- to_render_tree cx_ist cx_dr (set_overflow cfg_plain) fx_dom3;
   Ok (no_table t, fx_sh (strip (mstream_min plain_deco t)))) =
    Ok (true, [inr 19990; inl [120]; inr 97; inr 98; inr 99]).
Proof. repeat split; vm_compute; reflexivity. Qed.

(* non-vacuity of the ..._any_overflow theorems: they apply to these two documents with
   overflow ALLOWED (o_allow_overflow fx_oo = true, so the theorems that assume overflow off do
   not), the render succeeds, and the lower bound contains the marker x *)
Example fx3_any_overflow_hyps :
  o_allow_overflow fx_oo = true /\ c_overflow (set_overflow cfg_plain) = true /\
  no_table (fx3 (fx_wide 16)) = true /\
  (exists s, render_tree plain_deco 3 fx_oo 1 (fx3 (fx_wide 16)) = Ok s) /\
  In (inl (of_ascii [120])) (strip (mstream_min plain_deco (fx3 (fx_wide 16)))).
Proof.
  split; [reflexivity|]. split; [reflexivity|]. split; [reflexivity|].
  split; [eexists; vm_compute; reflexivity|]. vm_compute. right. left. reflexivity.
Qed.

Example fx3_any_overflow_theorem : forall s ls,
  render_tree plain_deco 3 fx_oo 1 (fx3 (fx_wide 16)) = Ok s -> sub_into_lines s = Ok ls ->
  btw (strip (mstream_min plain_deco (fx3 (fx_wide 16)))) (mlines ls)
      (mstream_tree plain_deco (fx3 (fx_wide 16))).
Proof.
  intros s ls H Hls.
  exact (proj2 (c14_render_tree_no_table_any_overflow plain_deco 3 fx_oo 1 (fx3 (fx_wide 16)) s
                  prefix_made_plain eq_refl H) ls Hls).
Qed.

Example fx_dom3_any_overflow_theorem : forall tree tls,
  to_render_tree cx_ist cx_dr (set_overflow cfg_plain) fx_dom3 = Ok tree ->
  lines_from_read cx_ist cx_dr (set_overflow cfg_plain) fx_dom3 1 = Ok tls ->
  let O := flat_map mline tls in
  projr O = projr (mstream_tree plain_deco tree) /\
  (forall a name b, strip (mstream_min plain_deco tree) = a ++ inl name :: b ->
     exists a' b', O = a' ++ inl name :: b' /\ projr a' = projr a /\ projr b' = projr b).
Proof.
  intros tree tls Ht H.
  assert (Hn : no_table tree = true).
  { vm_compute in Ht. injection Ht as <-. vm_compute. reflexivity. }
  destruct (c14_markers_any_overflow cx_ist cx_dr (set_overflow cfg_plain) fx_dom3 1 tree tls
              prefix_made_plain Ht Hn H) as (A & _ & C & _).
  split; [exact A|exact C].
Qed.

Print Assumptions node_cm_all.
Print Assumptions fx1_theorem.
Print Assumptions fx_dom_theorem.
Print Assumptions marker_kept_after_overflowing_char.
Print Assumptions marker_kept_after_overflowing_char_and_space.
Print Assumptions fx3_any_overflow_theorem.
Print Assumptions fx_dom3_any_overflow_theorem.

(* ================================================================== *)
(* SUMMARY                                                              *)
(* ==================================================================

   VOCABULARY
     sitem (Conserve)   := text + chr.  inl name = a fragment marker (elem `Frag name`),
                           inr c = a visible document character (RenderConserve.docp c: not white
                           space, label >= 16).  (The task text says chr + text; the order of
                           Conserve.sitem is used so that Conserve.pstream can be reused.)
     mstream_out s      := markers and docp characters of all lines of the sub-renderer s, top to
                           bottom, left to right; then those of pending_frags s (markers recorded
                           while no text line was open: add_line puts them in FRONT of the next
                           RText line, and leaves them waiting when the next line is a border);
                           then the open wrapping block (Conserve.pstream docp: finished lines,
                           current line, pending word).            projr (mstream_out s) = out_stream s.
     mstream_tree d n   := pre-order stream of the render tree: IFragStart name gives inl name,
                           text leaves / image texts / decorator affixes give their doc_chars.
                           mstream_tree_chars: projr (mstream_tree d n) = doc_stream d n (no tables).
     strip x            := x without its trailing markers.
     mstream_min d n    := mstream_tree in which the stream of every nested sub-renderer (the
                           children of a heading, a quote, a <dd>; every item of a <ul>/<ol>) is
                           stripped: the markers behind which no visible document character
                           follows inside that sub-renderer are left out.
     msub a b           := a is b with some MARKERS deleted (characters, order untouched).
     btw lo t hi        := msub lo t /\ msub t hi.
     J s                := invariant of a sub-renderer: pending_frags holds markers only
                           (RenderConserve.pfc), o_allow_overflow (sopts s) = false, and the open
                           block satisfies WB (allow_overflow = false, the current line is empty or
                           holds a Str - never marker-only -, no empty Str in the pending word).
                           Holds for sub_new / new_sub_renderer; kept by every operation.
     Jx x s             := the invariant sections 4-6 are proved for: pfc s, and if x = true the
                           rest of J.  Jx true s <-> J s (J_Jx), Jx false s <-> pfc s (pfc_Jx).

   WHAT THE MODEL DOES WITH MARKERS (all proved as lemmas of sections 3-4)
     - record_frag_start appends the marker to the stream (record_frag_start_opM), text is
       appended behind it (add_inline_text_opM): nothing ever moves across a character.
     - flush_wrapping keeps the stream (flush_wrapping_m): the markers that trail the last text
       of the word (the whole word when it has no text) move to pending_frags (take_frags_m),
       all others are on the lines or - the markers left alone on the unfinished last line - go
       to pending_frags in front of them (into_lines_markers_m: no invariant needed).
     - add_line puts the waiting markers in front of the next text line (add_line_m).
     - append_subrender / sub_into_lines DROP the markers still waiting in the nested
       sub-renderer (append_subrender_m, sub_into_lines_m): recorded after its last text line.
       Which of the markers without visible text behind them are still waiting depends on the
       line structure: in <li>A<span id=e1></span></li> and <li>B <span id=e2></span></li> the
       marker is in the pending word behind its last text and is dropped (fx1_output), in
       <p>a<span id=z></span> </p> the space has flushed the word with its marker onto the line
       and z is kept (fx1_end_dropped).  Hence no exact equation with a stream computed from the
       tree alone can hold; the theorems bound the output from both sides.
     - at the very end of render_tree: waiting markers are dropped by sub_into_lines, or - with a
       footnote list - attached to the empty line start_block puts in front of it
       (fx1_output: z; fx1_end_dropped).  fmt_links adds no marker and no docp character
       (fmt_links_m).

   MAIN THEOREMS (partial correctness, Ok outcome; every decorator with prefix_made, every
   width, every white-space mode; all "Closed under the global context")

     c14_render_node_no_table:
       prefix_made d -> no_table n = true -> stack st = s :: rest -> J s ->
       render_node d mw n st = Ok st' ->
       exists s' t, stack st' = s' :: rest /\ J s' /\ mstream_out s' = mstream_out s ++ t /\
                    msub (mstream_min d n) t /\ msub t (mstream_tree d n)
     c14_render_tree_no_table:
       prefix_made d -> o_allow_overflow o = false -> no_table tree = true ->
       render_tree d mw o width tree = Ok s ->
       btw (mstream_min d tree) (mstream_out s) (mstream_tree d tree) /\
       forall ls, sub_into_lines s = Ok ls ->
                  btw (strip (mstream_min d tree)) (mlines ls) (mstream_tree d tree)
     c14_lines_from_read:
       prefix_made (c_deco c) -> c_overflow c = false -> to_render_tree ist dr c doc = Ok tree ->
       no_table tree = true -> lines_from_read ist dr c doc width = Ok tls ->
       btw (strip (mstream_min (c_deco c) tree)) (flat_map mline tls) (mstream_tree (c_deco c) tree)
     c14_markers (the property's words; O = flat_map mline tls, T = mstream_tree, M = strip
       (mstream_min)):  projr O = projr T;  every marker of O is a marker of T with the same
       characters before and behind it (never invented or moved);  every marker of M is in O
       with the same characters before and behind it (the number of document characters before
       the marker = the number before its IFragStart node);  NoDup (projl T) -> NoDup (projl O)
       (never duplicated: with distinct ids a marker of M occurs exactly once).
     strip_keep: a marker with a docp character behind it inside the stream survives strip.
       Dom.process puts the IFragStart of an element in front of the element's content
       (insert_child at_start, first child or preceding sibling in a fresh container), so the
       marker of an element with visible content has such a character behind it in every nested
       sub-renderer that contains it, i.e. is in M.  (This last step, about Dom.process, is
       argued, not proved: the theorems start from the render tree.)

   HYPOTHESES and why
     prefix_made d: as in RenderConserve (prefixes are repeated on every line).
     no_table: not done for tables (see below).
     J s (c14_render_node_no_table only; discharged for render_tree by o_allow_overflow o = false);
       pfc s for c14_render_node_no_table_any_overflow (holds for sub_new / new_sub_renderer).
     o_allow_overflow = false / c_overflow c = false: NO LONGER NEEDED.  The four theorems above
       keep the hypothesis (their statements are pinned by Props/C14.v); the versions without it are
         c14_render_node_no_table_any_overflow   (invariant pfc instead of J)
         c14_render_tree_no_table_any_overflow
         c14_lines_from_read_any_overflow
         c14_markers_any_overflow
       (all proved from one generic development over the invariant Jx x: x = true gives J, x =
       false gives pfc; examples fx3_any_overflow_theorem, fx_dom3_any_overflow_theorem).
       History: FINDING marker_lost_after_overflowing_char ('<div>世<span id="x"><p>abc</p></span>
       </div>' width 1 overflow gave lines [世] [] [a] [b] [c] without Frag x) was repaired by
       take_trailing_fragments taking the markers that trail the last text of the word
       (marker_kept_after_overflowing_char: [世] [<x>] [a] [b] [c]); FINDING
       marker_lost_after_overflowing_char_and_space (the same with white space behind
       <span id="x">: the space flushes the word, flush_word's hard-wrap path leaves the marker
       alone on the current line, which wb_flush/flush_line does not flush and wb_into_lines
       threw away) is repaired by flush_wrapping calling wb_into_lines_markers and keeping the
       markers left on the unfinished line in pending_frags
       (marker_kept_after_overflowing_char_and_space: [世] [<x>] [a] [b] [c]).

   NOT PROVED
     - tables (neither raw mode nor side by side): mtree gives [] for ITable and every theorem
       assumes no_table.  (Known finding row_marker_in_empty_first_cell lives there.)
     - the DOM -> render-tree step (see strip_keep above).
     - the line-level placement ("on the same line as the element's first character"): the
       stream fixes the position among the characters, not the line: a marker recorded when the
       previous paragraph's last word is still open used to land at the END of that paragraph's
       last line; since take_trailing_fragments takes the markers trailing the last text of the
       word it lands at the START of the element's first line (fx1_output: <l> in front of
       "* one two").  A marker that white space has flushed onto the line with the preceding
       word still stays at the end of that line (fx1_end_dropped, third case). *)
